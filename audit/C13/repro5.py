"""merge_bins sums the merged bins in the narrow type: int16 contents wrap to negative."""
import numpy as np
from physt import h1

data = np.concatenate([np.full(20000, 0.5), np.full(20000, 1.5)])
h = h1(data, [0, 1, 2], dtype=np.int16)
assert h.dtype == np.int16 and h.frequencies.tolist() == [20000, 20000]
for inplace in (False, True):
    source = h.copy()
    try:
        merged = source.merge_bins(2, inplace=inplace)
    except (ValueError, OverflowError):
        # Refused: nothing may have changed
        assert source.frequencies.tolist() == [20000, 20000] and source.dtype == np.int16
        continue
    state = (merged.dtype, merged.frequencies.tolist(), merged.errors2.tolist())
    assert merged.dtype == merged.frequencies.dtype == merged.errors2.dtype, state
    assert merged.dtype.kind == "i", state  # unweighted counting stays integer
    assert merged.frequencies.tolist() == [40000], state  # observed: [-25536]
    assert merged.errors2.tolist() == [40000], state
    assert merged.total == h.total == 40000, state
print("ok")
