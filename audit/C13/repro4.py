"""Fractional values in object arrays are truncated into integer histograms instead of refused."""
import numpy as np
from physt import h1
from physt.types import Histogram1D

bins = [0, 1, 2]
values = np.array([1.5, 2.5], dtype=object)  # e.g. the values of a pandas column of dtype object

def outcome(func):
    try:
        h = func()
    except (ValueError, TypeError):
        return "refused"
    return (h.dtype, h.frequencies.tolist(), h.errors2.tolist())

# 1. Integer histogram requested with float weights: must be refused (as it is for a float64 array)
assert outcome(lambda: h1([0.5, 1.5], bins, weights=values.astype(float), dtype=np.int64)) == "refused"
result = outcome(lambda: h1([0.5, 1.5], bins, weights=values, dtype=np.int64))
assert result == "refused", f"weights 1.5, 2.5 accepted: {result}"  # observed: [1, 2], errors2 [2, 6]

# 2. The class constructor: fractional contents / squared errors never become integers
for kwargs in (
    dict(frequencies=values, dtype=np.int64),
    dict(frequencies=[1, 2], errors2=values),
    dict(frequencies=[1, 2], errors2=values, dtype=np.int64),
):
    result = outcome(lambda: Histogram1D(bins, **kwargs))
    if result != "refused":
        dtype, frequencies, errors2 = result
        assert dtype.kind == "f" and 1.5 in frequencies + errors2, f"{kwargs}: {result}"
print("ok")
