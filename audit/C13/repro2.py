"""Subtraction of int16 histograms stores wrapped (negative) squared errors."""
import warnings
import numpy as np
from physt import h1

warnings.simplefilter("ignore")
bins = [0, 1, 2]
a = h1([0.5, 0.5], bins, weights=[100, 100], dtype=np.int16)  # content 200, errors2 20000
b = h1([0.5], bins, weights=[120], dtype=np.int16)            # content 120, errors2 14400
assert a.dtype == b.dtype == np.int16
assert a.errors2.tolist() == [20000, 0] and b.errors2.tolist() == [14400, 0]
try:
    d = a - b
except (ValueError, OverflowError):
    d = None  # A refusal is fine (a + b is refused in the same situation)
if d is not None:
    state = (d.dtype, d.frequencies.tolist(), d.errors2.tolist())
    assert d.dtype == d.frequencies.dtype == d.errors2.dtype, state
    assert d.frequencies.tolist() == [80, 0], state
    assert d.errors2.tolist() == [34400, 0], state  # observed: [-31136, 0] in int16
# The operands are untouched in any case
assert a.errors2.tolist() == [20000, 0] and b.errors2.tolist() == [14400, 0]
print("ok")
