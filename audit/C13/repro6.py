"""h * c computes contents and squared errors in the histogram's own integer type: silent wrap."""
import numpy as np
from physt.types import Histogram1D

def scaled(h, factor):
    try:
        return h * factor
    except (ValueError, OverflowError, TypeError):
        return None  # A refusal is fine

# int16 histogram, integer numpy factor of a narrow type: errors2 = 100 * 30**2 = 90000
h = Histogram1D([0, 1, 2], [100, 0], dtype=np.int16)
for factor in (np.int16(30), np.int8(30), np.uint8(30)):
    r = scaled(h, factor)
    if r is not None:
        state = (repr(factor), r.dtype, r.frequencies.tolist(), r.errors2.tolist())
        assert r.dtype == r.frequencies.dtype == r.errors2.dtype, state
        assert r.frequencies.tolist() == [3000, 0], state
        assert r.errors2.tolist() == [90000, 0], state  # observed: [24464, 0] in int16

# Default int64 histogram and a plain Python int
h = Histogram1D([0, 1, 2], [2**20, 0])
r = scaled(h, 2**22)
if r is not None:
    state = (r.dtype, r.frequencies.tolist(), r.errors2.tolist())
    assert r.frequencies.tolist() == [2**42, 0], state
    assert r.errors2[0] == 2**64, state  # observed: 0
print("ok")
