"""fill_n adds the new counts in place in the narrow type: an int16 histogram wraps to negative."""
import numpy as np
from physt import h1, h2

bins = [0, 1, 2]
for ndim in (1, 2):
    if ndim == 1:
        h = h1(np.full(30000, 0.5), bins, dtype=np.int16)
        batch = np.full(10000, 0.5)
    else:
        h = h2(np.full(30000, 0.5), np.full(30000, 0.5), [bins, bins], dtype=np.int16)
        batch = np.full((10000, 2), 0.5)
    assert h.dtype == np.int16 and h.total == 30000
    try:
        h.fill_n(batch)  # unweighted counting
    except (ValueError, OverflowError):
        expected = 30000  # refused: nothing may have changed
    else:
        expected = 40000  # accepted: the histogram must have been widened (as fill() does)
    state = (ndim, h.dtype, h.frequencies.tolist(), h.errors2.tolist())
    assert h.dtype == h.frequencies.dtype == h.errors2.dtype and h.dtype.kind == "i", state
    assert h.frequencies.flat[0] == expected and h.errors2.flat[0] == expected, state
print("ok")
