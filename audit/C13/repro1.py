"""set_dtype accepts a value just above the integer type's range (it wraps to negative)."""
import numpy as np
from physt.types import Histogram1D

cases = [
    (np.float16, 32768.0, np.int16),      # int16 max is 32767
    (np.float32, 2.0**31, np.int32),      # int32 max is 2**31 - 1
    (np.float64, 2.0**63, np.int64),      # int64 max is 2**63 - 1
]
for source, value, target in cases:
    h = Histogram1D([0, 1, 2], np.array([value, 3], dtype=source))
    assert h.dtype == source and h.frequencies[0] == value
    try:
        h.dtype = target
    except ValueError:
        refused = True
    else:
        refused = False
    state = (h.dtype, h.frequencies.tolist(), h.errors2.tolist())
    assert refused, f"{value!r} ({source.__name__}) accepted as {target.__name__}: {state}"
    # ... and nothing changed
    assert h.dtype == source == h.frequencies.dtype == h.errors2.dtype, state
    assert h.frequencies.tolist() == [value, 3] and h.errors2.tolist() == [value, 3], state
print("ok")
