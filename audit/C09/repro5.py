"""The axis_names setter accepts any number of names; projections / T of such an object
then fail or carry names of the wrong axes."""
import numpy as np
from physt.histogram_nd import Histogram2D, HistogramND

h = HistogramND(
    [[0, 1, 2], [0, 1, 2, 3], [0, 1]], np.arange(6).reshape(2, 3, 1), axis_names=["x", "y", "z"]
)
try:
    h.axis_names = ("a", "b")  # 2 names for 3 axes
except ValueError:
    pass  # refusing is fine
else:
    # ... but if it is accepted, every proper projection must still work
    for axes, shape in [((2,), (1,)), ((1, 2), (3, 1))]:
        try:
            projected = h.projection(*axes)
        except (IndexError, ValueError) as exc:
            raise AssertionError(f"projection{axes} fails after axis_names = ('a', 'b'): {exc!r}")
        assert projected.shape == shape

h2 = Histogram2D([[0, 1, 2], [0, 1, 2, 3]], np.arange(6).reshape(2, 3), axis_names=["x", "y"])
try:
    h2.axis_names = ("a", "b", "c")
except ValueError:
    pass
else:
    assert h2.T.axis_names == ("b", "a"), h2.T.axis_names
