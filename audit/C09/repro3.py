"""The projection forgets the weight that missed the bins, so it differs from the
histogram built directly from the kept columns although no row missed the dropped axis."""
import numpy as np
from physt import h1, h2

x = np.array([0.5, 1.5, 5.0, -3.0])  # two values outside the x bins
y = np.array([0.5, 0.5, 0.5, 0.5])   # every row is inside the (dropped) y bins
parent = h2(x, y, [np.array([0.0, 1.0, 2.0]), np.array([0.0, 1.0])], axis_names=["x", "y"])
direct = h1(x, np.array([0.0, 1.0, 2.0]), axis_name="x")
projected = parent.projection("x")

assert parent.missed == direct.missed == 2
assert np.array_equal(projected.frequencies, direct.frequencies)
assert projected.missed == direct.missed, (projected.missed, direct.missed)
