"""accumulate() makes the contents cumulative but leaves the squared errors of the single bins."""
import numpy as np
from physt.histogram_nd import Histogram2D

freq = np.array([[1.0, 2.0, 3.0], [4.0, 5.0, 6.0]])
err2 = np.array([[1.0, 1.0, 1.0], [2.0, 2.0, 2.0]])
h = Histogram2D([[0, 1, 2], [0, 1, 2, 3]], freq, errors2=err2)
acc = h.accumulate(1)
assert np.array_equal(acc.frequencies, np.cumsum(freq, axis=1))
# Each cumulative bin is the sum of independent bins, so is its squared error
assert np.array_equal(acc.errors2, np.cumsum(err2, axis=1)), acc.errors2
