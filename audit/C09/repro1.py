"""A value on the last edge of a kept axis whose binning excludes its right edge:
the N-D parent (hence its projection) treats it as missed, the 1D histogram built
directly from the kept column puts it into the last bin."""
import numpy as np
from physt import h1, h2
from physt.binnings import FixedWidthBinning, NumpyBinning

x = np.array([0.5, 1.5, 2.0])
y = np.array([0.5, 0.5, 0.5])  # every row is inside the (dropped) y bins
x_bins = FixedWidthBinning(bin_width=1.0, bin_count=2, min=0.0)  # [0, 1), [1, 2)
assert not x_bins.includes_right_edge
y_bins = NumpyBinning([0.0, 1.0])

parent = h2(x, y, [x_bins, y_bins])
direct = h1(x, x_bins)
projected = parent.projection(0)

assert np.array_equal(projected.bins, direct.bins)
assert np.array_equal(projected.frequencies, direct.frequencies), (
    f"projection {projected.frequencies} != directly built {direct.frequencies}"
)
