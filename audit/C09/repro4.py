"""Axes given by (numpy) integer index are refused."""
import numpy as np
from physt.histogram_nd import HistogramND

h = HistogramND(
    [[0, 1, 2], [0, 1, 2, 3], [0, 1]], np.arange(6).reshape(2, 3, 1), axis_names=["x", "y", "z"]
)
expected = h.projection(1)
for axis in np.arange(h.ndim)[1:2]:  # the natural way to loop over axes
    try:
        projected = h.projection(axis)
    except TypeError as exc:
        raise AssertionError(f"axis index {axis!r} refused: {exc}")
    assert projected == expected
assert h.projection(np.int32(0), np.int64(2)) == h.projection(0, 2)
assert np.array_equal(h.accumulate(np.int64(1)).frequencies, h.accumulate(1).frequencies)
