"""CylindricalHistogram.projection("phi", "z") of a histogram with no rho bins (yet) raises."""
import numpy as np
from physt.special_histograms import cylindrical

empty = cylindrical(
    None, rho_bins="fixed_width", z_bins="fixed_width", bin_width=1.0, adaptive=True
)
assert empty.shape == (0, 16, 0)
# The other projections of the same object work ...
assert empty.projection("rho", "phi").shape == (0, 16)
assert empty.projection("phi").shape == (16,)
# ... this one must be the (empty) marginal too
try:
    surface = empty.projection("phi", "z")
except IndexError as exc:
    raise AssertionError(f"projection of an empty histogram raised: {exc!r}")
assert surface.shape == (16, 0)
assert surface.axis_names == ("phi", "z")
assert surface.total == empty.total == 0
