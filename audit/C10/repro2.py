"""merge_bins does not conserve the content when the sum of a run does not fit the (supported) narrow dtype."""
import warnings
import numpy as np
from physt.histogram1d import Histogram1D

warnings.simplefilter("ignore")
h = Histogram1D([0, 1, 2, 3], frequencies=[20000, 20000, 3], dtype=np.int16)
assert h.dtype == np.int16 and h.total == 40003
m = h.merge_bins(2)
print(m.dtype, m.frequencies, m.errors2, m.total)
assert m.total == h.total, f"total changed from {h.total} to {m.total}"
assert m.frequencies.tolist() == [40000, 3], m.frequencies
assert m.errors2.tolist() == [40000, 3], m.errors2
assert (m.frequencies >= 0).all()
