"""min_frequency on an N-D histogram with a negative content fails, on 1-D (and with amount) it works."""
import warnings
import numpy as np
from physt import h1, h2
from physt.config import config

warnings.simplefilter("ignore")
x = [0.5, 1.5, 2.5, 3.5]
with config.enable_free_arithmetics():
    one = h1(x, 4, range=(0, 4)); one = one - one * 2
    two = h2(x, x, [4, 4], range=((0, 4), (0, 4))); two = two - two * 2
assert one.total == -4 and two.total == -4
assert one.merge_bins(min_frequency=1).total == -4   # 1-D: fine
assert two.merge_bins(2).total == -4                 # N-D with amount: fine
try:
    m = two.merge_bins(min_frequency=1)
except Exception as exc:  # noqa
    raise AssertionError(f"N-D min_frequency failed: {type(exc).__name__}: {exc}")
assert m.total == -4
