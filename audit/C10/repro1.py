"""merge_bins on a histogram without bins (or with one empty axis) raises instead of returning it unchanged."""
import warnings
import numpy as np
from physt import h1
from physt.histogram1d import Histogram1D
from physt.histogram_nd import Histogram2D
from physt.binnings import StaticBinning

warnings.simplefilter("ignore")
cases = {
    "empty adaptive (facade)": h1(None, "fixed_width", bin_width=1, adaptive=True),
    "empty slice": h1([1, 2, 3, 4], 4)[2:2],
    "direct, zero bins": Histogram1D(StaticBinning(np.zeros((0, 2)))),
    "2D with an empty axis": Histogram2D([[0, 1, 2], StaticBinning(np.zeros((0, 2)))]),
}
failures = []
for label, h in cases.items():
    for kwargs in ({"amount": 1}, {"amount": 2}, {"min_frequency": 1}):
        for inplace in (False, True):
            try:
                m = h.copy().merge_bins(inplace=inplace, **kwargs)
                assert m.total == 0 and m.bin_count == 0
                assert m.missed == h.missed
            except Exception as exc:  # noqa
                failures.append(f"{label} {kwargs} inplace={inplace}: {type(exc).__name__}: {exc}")
print("\n".join(failures))
assert not failures, f"{len(failures)} merge_bins calls on empty histograms failed"
