"""An integral amount given as a float passes the integrality check but then crashes."""
import warnings
import numpy as np
from physt import h1

warnings.simplefilter("ignore")
h = h1([0.5, 1.5, 2.5, 3.5, 4.5], 5, range=(0, 5))
expected = h.merge_bins(2)
# A non-integral amount is refused with a clear message
try:
    h.merge_bins(2.5)
    raise AssertionError("2.5 accepted")
except ValueError:
    pass
failures = []
for amount in (2.0, np.float64(2.0), np.float32(2), np.array(2.0)):
    try:
        m = h.merge_bins(amount)
        assert m == expected
        assert np.array_equal(m.bins, expected.bins)
    except Exception as exc:  # noqa
        failures.append(f"amount={amount!r}: {type(exc).__name__}: {exc}")
print("\n".join(failures))
assert not failures
