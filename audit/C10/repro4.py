"""A small numpy integer as amount overflows on histograms with more bins than the type can count."""
import warnings
import numpy as np
from physt import h1

warnings.simplefilter("ignore")
h = h1(np.arange(300) + 0.5, 300, range=(0, 300))
expected = h.merge_bins(2)
assert expected.shape == (150,)
failures = []
for amount in (np.int64(2), np.uint8(2), np.int8(2), np.uint8(200)):
    try:
        m = h.merge_bins(amount)
        ref = h.merge_bins(int(amount))
        assert np.array_equal(m.bins, ref.bins) and np.array_equal(m.frequencies, ref.frequencies)
        assert m.total == h.total
    except Exception as exc:  # noqa
        failures.append(f"amount={amount!r}: {type(exc).__name__}: {exc}")
print("\n".join(failures))
assert not failures
