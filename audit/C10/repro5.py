"""A numpy integer is not accepted as the axis to merge along."""
import warnings
import numpy as np
from physt import h2

warnings.simplefilter("ignore")
rng = np.random.default_rng(0)
h = h2(rng.normal(size=100), rng.normal(size=100), [4, 6])
expected = h.merge_bins(2, axis=1)
assert expected.shape == (4, 3)
failures = []
for axis in (np.int64(1), np.intp(1), np.argmax(h.shape)):
    try:
        m = h.merge_bins(2, axis=axis)
        assert m.shape == (4, 3) and m == expected
    except Exception as exc:  # noqa
        failures.append(f"axis={axis!r}: {type(exc).__name__}: {exc}")
print("\n".join(failures))
assert not failures
