"""C05 finding 1: has_same_bins() compares bins with np.allclose, so different bins count as equal."""
import numpy as np
from physt import h1
from physt.histogram1d import Histogram1D

# (a) adaptive fixed-width histograms far from zero (e.g. timestamps): the bins [1000000, 1000001)
#     and [1000001, 1000002) differ by less than rtol=1e-5 and are taken for the same bin
A, B = [1000000.5], [1000001.5]
kw = dict(bin_width=1, adaptive=True)
total = h1(A, "fixed_width", **kw) + h1(B, "fixed_width", **kw)
expected = h1(A + B, "fixed_width", **kw)
assert expected.frequencies.tolist() == [1, 1]
assert total.numpy_bins.tolist() == expected.numpy_bins.tolist(), (
    total.numpy_bins, expected.numpy_bins)
assert total.frequencies.tolist() == expected.frequencies.tolist()

# (b) without adaptivity, incompatible bins must be refused
x = Histogram1D([100000.0, 100001.0, 100002.0], [1, 2])
y = Histogram1D([100000.5, 100001.5, 100002.5], [1, 2])  # shifted by half a bin
try:
    result = x + y
except ValueError:
    pass
else:
    raise AssertionError(f"incompatible bins were added: {result.frequencies}")
