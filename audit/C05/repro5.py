"""C05 finding 5: the dask facades fail for plain arrays (which they promise to split into chunks)."""
import warnings
import numpy as np
from physt import h1, h
from physt.compat import dask as pdask

warnings.simplefilter("ignore")

def attempt(f):
    try:
        return f().frequencies.tolist()
    except Exception as exc:  # noqa
        return f"{type(exc).__name__}: {exc}"

data = np.arange(10) + 0.5
expected = h1(data, "fixed_width", bin_width=1, adaptive=True).frequencies.tolist()
result = attempt(lambda: pdask.h1(data, "fixed_width", bin_width=1))
assert result == expected, result  # ZeroDivisionError: chunks=int(10 / 16) == 0

x, y = np.arange(40) + 0.5, np.arange(40) % 4 + 0.5
expected2 = h(np.stack([x, y], axis=1), "fixed_width", bin_width=1, adaptive=True).frequencies.tolist()
result2 = attempt(lambda: pdask.h2(x, y, "fixed_width", bin_width=1))
assert result2 == expected2, result2  # TypeError: 'int' object is not callable (data1.size())
