"""C05 finding 4: adding an adaptive and a non-adaptive histogram on the same grid depends on the order."""
from physt import h1

a = h1([0.5, 1.5], "fixed_width", bin_width=1, adaptive=True)
b = h1([4.5], "fixed_width", bin_width=1)  # same grid, not adaptive
c = h1([7.5], "fixed_width", bin_width=1, adaptive=True)

def outcome(f):
    try:
        h = f()
        return h.numpy_bins.tolist(), h.frequencies.tolist()
    except ValueError as exc:
        return "refused"

ab, ba = outcome(lambda: a + b), outcome(lambda: b + a)
assert ab == ba, f"a + b -> {ab}, b + a -> {ba}"
# and therefore sum() over the same list depends on the order of the list
assert outcome(lambda: sum([a, b, c])) == outcome(lambda: sum([b, a, c]))
