"""C05 finding 2: adaptive addition keeps the left operand's overflow although the bins now cover it."""
from physt import h1

kw = dict(bin_width=1, adaptive=True)
A, B = [0.5, 1.5, 5.5], [6.5]
a = h1(A, "fixed_width", range=(0, 3), **kw)  # adaptive, bins [0, 3), 5.5 is in overflow
b = h1(B, "fixed_width", **kw)
assert a.is_adaptive() and a.overflow == 1
expected = h1(A + B, "fixed_width", **kw)  # bins [0, 7): [1 1 0 0 0 1 1], nothing missed

try:
    ab = a + b
except ValueError:
    ab = None  # a refusal (as for b + a) would at least be consistent
try:
    ba = b + a
except ValueError:
    ba = None
# commutativity: both orders give the same outcome
assert (ab is None) == (ba is None), "a + b gives a result, b + a is refused"
if ab is not None:
    # Nothing is lost and nothing is counted outside bins that cover it
    assert ab.numpy_bins.tolist() == expected.numpy_bins.tolist()
    assert ab.frequencies.tolist() == expected.frequencies.tolist(), ab.frequencies
    assert ab.overflow == expected.overflow
