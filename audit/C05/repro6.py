"""C05 finding 6: statistics of a sum depend on the order when one operand has unknown statistics."""
import numpy as np
from physt import h1
from physt.histogram1d import Histogram1D

a = h1([0.5, 1.5], [0, 1, 2])  # statistics known
c = Histogram1D([0, 1, 2], [1, 1])  # built from frequencies: statistics unknown (all NaN)
ac, ca = (a + c).statistics, (c + a).statistics
assert np.isnan(ac.sum) and np.isnan(ca.sum) and np.isnan(ac.weight)
for field in ("min", "max"):
    left, right = getattr(ac, field), getattr(ca, field)
    assert (np.isnan(left) and np.isnan(right)) or left == right, (field, left, right)
