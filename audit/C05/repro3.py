"""C05 finding 3: weighted adaptive N-D histograms are refused because of a rounding residue in `missed`."""
import numpy as np
from physt import h2

kw = dict(bin_width=1, adaptive=True)
xa, wa = [0.5, 1.5, 0.5], [0.1, 0.3, 0.7]
xb, wb = [4.5], [1.0]
a = h2(xa, xa, "fixed_width", weights=wa, **kw)  # adaptive: every point is inside the bins
b = h2(xb, xb, "fixed_width", weights=wb, **kw)
expected = h2(xa + xb, xa + xb, "fixed_width", weights=wa + wb, **kw)

def add(left, right):
    try:
        return left + right
    except ValueError as exc:
        return exc

ab, ba = add(a, b), add(b, a)
assert not isinstance(ab, Exception), f"a + b refused: {ab}"
assert not isinstance(ba, Exception), f"b + a refused: {ba} (a.missed={a.missed!r})"
assert np.allclose(ab.frequencies, expected.frequencies)
assert np.allclose(ba.frequencies, expected.frequencies)
