"""h += h (the operand aliases the target) loses the statistics instead of accumulating them."""
import warnings
import numpy as np
from physt import h1

warnings.simplefilter("ignore")
data = [0.5, 1.5, 1.7]
bins = np.array([0.0, 1.0, 2.0])
ref = h1(data, bins) + h1(data, bins)  # fine: weight 6, mean 3.7 / 3

h = h1(data, bins)
h += h
assert h.frequencies.tolist() == [2, 4]
s = h.statistics
assert s.weight == 6 == ref.statistics.weight, s
assert np.isclose(s.sum, 2 * sum(data)) and np.isclose(s.mean(), np.mean(data)), s
assert s.min == 0.5 and s.max == 1.7, s
