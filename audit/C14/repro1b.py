"""Same family as repro1, other path: Histogram1D.from_calculate_frequencies with a narrow-typed array."""
import warnings
import numpy as np
from physt.binnings import StaticBinning
from physt.types import Histogram1D

warnings.simplefilter("ignore")
for data in (np.array([100, 50], dtype=np.int8), np.array([300.0, 200.0], dtype=np.float16)):
    h = Histogram1D.from_calculate_frequencies(data, StaticBinning([0.0, 1000.0, 2000.0]))
    x = data.astype(float)
    s = h.statistics
    assert h.total == 2
    assert s.sum == x.sum(), (data.dtype, s.sum)
    assert s.sum2 == (x * x).sum(), (data.dtype, "sum2", s.sum2, (x * x).sum())
    assert np.isclose(s.variance(), x.var()), (s.variance(), x.var())
