"""HistogramCollection.normalize_bins divides the contents by an array but keeps 'valid' statistics."""
import warnings
import numpy as np
import physt

warnings.simplefilter("ignore")
col = physt.collection({"a": [0.5, 1.5, 1.6], "b": [0.2, 0.3, 1.1]}, bins=np.array([0.0, 1.0, 2.0]))
for inplace in (False, True):
    norm = col.normalize_bins(inplace=inplace)
    a = norm["a"]
    assert np.allclose(a.frequencies, [1 / 3, 2 / 3])  # bin-wise (array) division happened
    w = a.statistics.weight
    # Array arithmetic cannot maintain the statistics: they must read as invalid (NaN),
    # or at the very least still describe the contents (total weight == total).
    assert np.isnan(w) or np.isclose(w, a.total), ("weight", w, "total", a.total)
