"""h1((name, data), ..., weights=w): the (name, data) form drops the weights -> unweighted statistics."""
import warnings
import numpy as np
from physt import h1

warnings.simplefilter("ignore")
x = [0.5, 1.5, 1.7]
w = [2.0, 3.0, 4.0]
bins = np.array([0.0, 1.0, 2.0])
ref = h1(x, bins, weights=w)
h = h1(("energy", x), bins, weights=w)  # form meant for pandas groupby items
assert h.name == "energy"
s = h.statistics
assert s.weight == sum(w), ("total weight", s.weight, sum(w))
assert np.isclose(s.sum, np.dot(x, w)), ("weighted sum", s.sum, np.dot(x, w))
assert np.isclose(s.mean(), np.average(x, weights=w))
assert np.allclose(h.frequencies, ref.frequencies), (h.frequencies, ref.frequencies)
