"""fill() with a numpy scalar VALUE computes the moments in the scalar's own narrow type."""
import warnings
import numpy as np
from physt.binnings import StaticBinning
from physt.types import Histogram1D

warnings.simplefilter("ignore")
for value in (np.int8(100), np.int32(70000), np.float16(300.0)):
    h = Histogram1D(StaticBinning([0.0, 1e5, 2e5]))
    h.fill(value, 2)  # in range, weight 2
    s = h.statistics
    x = float(value)
    assert h.frequencies.tolist() == [2, 0]
    assert s.weight == 2
    assert s.sum == 2 * x, (value.dtype, "sum", s.sum, 2 * x)
    assert s.sum2 == 2 * x * x, (value.dtype, "sum2", s.sum2, 2 * x * x)
    assert s.mean() == x and s.variance() == 0.0, (s.mean(), s.variance())
