"""variance() goes negative and std() is NaN for data whose true standard deviation is 0."""
import warnings
import numpy as np
from physt import h1
from physt.binnings import StaticBinning
from physt.types import Histogram1D

warnings.simplefilter("ignore")
h = Histogram1D(StaticBinning([0.0, 1.0]))
for _ in range(3):
    h.fill(0.07)
g = h1(np.full(3, 0.07), np.array([0.0, 1.0]))
for hist in (h, g):
    s = hist.statistics
    assert s.weight == 3 and s.min == s.max == 0.07
    assert s.variance() >= 0, ("variance of raw data cannot be negative", s.variance())
    assert not np.isnan(s.std()), ("std of [0.07]*3 is 0, not NaN", s.std())
    assert abs(s.std() - np.std([0.07] * 3)) < 1e-9
