"""Geant4 CSV import: statistics with sum/sum2 but weight 0, min=+inf, max=-inf -> mean() == inf."""
import os, tempfile, warnings
import numpy as np
from physt.compat.geant4 import load_csv

warnings.simplefilter("ignore")
CSV = """#class tools::histo::h1d
#title demo
#dimension 1
#axis fixed 2 0 2
#bin_number 4
entries,Sw,Sw2,Sxw0,Sx2w0
0,0,0,0,0
1,1,1,0.5,0.25
2,2,2,3.0,4.5
0,0,0,0,0
"""
path = os.path.join(tempfile.mkdtemp(), "h.csv")
open(path, "w").write(CSV)
h = load_csv(path)  # values entered: 0.5, 1.5, 1.5
assert h.frequencies.tolist() == [1, 2]
s = h.statistics
# Either the real moments (weight 3, mean 3.5/3) or invalid (NaN) - never wrong numbers
ok_valid = s.weight == 3 and np.isclose(s.mean(), 3.5 / 3) and np.isclose(s.variance(), 4.75 / 3 - (3.5 / 3) ** 2)
ok_invalid = np.isnan(s.weight) and np.isnan(s.mean())
assert ok_valid or ok_invalid, (s, s.mean(), s.variance())
assert np.isnan(s.min) or np.isfinite(s.min), s.min  # not +inf for a histogram with 3 entries
