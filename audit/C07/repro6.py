"""StaticBinning.__getitem__: an integer index returns a corrupted binning, a negative step an unsorted one."""
import numpy as np
from physt.binnings import BinningBase, NumpyBinning, StaticBinning

failures = []
s = StaticBinning([[0.0, 1.0], [1.0, 2.0], [2.0, 3.0]])
n = NumpyBinning([0.0, 1.0, 2.0, 3.0])
assert s.bins.tolist() == n.bins.tolist()

# every other binning class returns the pair of edges of the bin
assert np.array_equal(n[1], [1.0, 2.0])
item = s[1]
if isinstance(item, BinningBase):
    # a one-bin binning would be acceptable as well, but it must be well-formed
    if item.bins.shape != (1, 2) or item.bin_count != 1:
        failures.append(f"s[1] is a {type(item).__name__} with bins of shape {item.bins.shape}, "
                        f"bin_count={item.bin_count}, numpy_bins={item.numpy_bins}")
elif not np.array_equal(item, [1.0, 2.0]):
    failures.append(f"s[1] = {item}")

# slices: a negative step must be refused (as Histogram*.__getitem__ does) or give rising bins
for binning in (s, n):
    try:
        r = binning[::-1]
    except (IndexError, ValueError):
        continue
    if not (np.all(r.bins[:, 0] < r.bins[:, 1]) and np.all(r.bins[1:, 0] >= r.bins[:-1, 1])):
        failures.append(f"{type(binning).__name__}[::-1] -> unsorted {type(r).__name__} {r.bins.tolist()}")
assert not failures, "\n".join(failures)
