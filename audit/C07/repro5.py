"""Binning classes used directly (and adaptive growth) give zero-width / NaN bins:
the 'width below float resolution' checks exist only in the facade functions."""
import warnings
import numpy as np
from physt import h1
from physt.binnings import BinningBase, ExponentialBinning, FixedWidthBinning, fixed_width_binning

warnings.simplefilter("ignore")
failures = []

def check(label, make):  # either refused or strictly rising
    try:
        edges = make()
    except (ValueError, TypeError, OverflowError):
        return
    if not np.all(np.diff(edges) > 0):
        failures.append(f"{label}: edges {edges[:4]} widths {np.diff(edges)[:3]}")

try:  # the facade refuses this (fix 5e92cd4), the public classes below do not
    fixed_width_binning(np.array([1e9, 1e9 + 1e-7]), 1e-9)
    raise SystemExit("facade unexpectedly accepted")
except ValueError:
    pass
check("FixedWidthBinning(1e-9 @ 1e9)", lambda: FixedWidthBinning(bin_width=1e-9, bin_count=3, min=1e9).numpy_bins)
check("FixedWidthBinning(nan)", lambda: FixedWidthBinning(bin_width=float("nan"), bin_count=2, bin_times_min=0).numpy_bins)
check("FixedWidthBinning(inf)", lambda: FixedWidthBinning(bin_width=float("inf"), bin_count=2, bin_times_min=1).numpy_bins)
check("ExponentialBinning(log_width=1e-17)", lambda: ExponentialBinning(0.0, 1e-17, 3).numpy_bins)
check("ExponentialBinning(300, 5, 3)", lambda: ExponentialBinning(300.0, 5.0, 3).numpy_bins)
check("from_dict", lambda: BinningBase.from_dict(dict(binning_type="FixedWidthBinning",
      bin_width=1e-9, bin_count=3, bin_times_min=10**18, bin_shift=0.0)).numpy_bins)

def adaptive():
    h = h1(None, "fixed_width", bin_width=1e-9, adaptive=True)
    h.fill(1e9)
    return h.numpy_bins
check("adaptive fill", adaptive)
assert not failures, "\n".join(failures)
