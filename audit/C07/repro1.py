"""NaN edges are accepted by StaticBinning / as_binning / h1(data, edges)."""
import warnings
import numpy as np
from physt import h1
from physt.binnings import NumpyBinning, StaticBinning, as_binning

warnings.simplefilter("ignore")
nan = float("nan")

def refused(f):
    try:
        f()
    except (ValueError, TypeError):
        return True
    return False

# NumpyBinning already refuses the very same edges:
assert refused(lambda: NumpyBinning([0.0, nan, 2.0]))

data = np.array([0.1, 0.5, 1.2, 3.3, 4.9])
accepted = []
for label, call in [
    ("StaticBinning(edges)", lambda: StaticBinning([0.0, nan, 2.0])),
    ("StaticBinning(pairs)", lambda: StaticBinning([[0.0, 1.0], [nan, nan], [2.0, 3.0]])),
    ("as_binning(edges)", lambda: as_binning([0.0, nan, 2.0])),
    ("h1(data, edges)", lambda: h1(data, np.array([0.0, nan, 5.0]))),
]:
    if not refused(call):
        accepted.append(label)
# What h1 silently returns on the current code: bins [[0, nan], [nan, 5]], frequencies [5, 0]
assert not accepted, f"bins with NaN edges (not left < right, not rising) were accepted by: {accepted}"
