"""is_consecutive() uses a tolerance relative to the edge VALUES, so gapped bins at an offset
are 'consecutive' and numpy_bins silently drops edges; the answer is also cached regardless of tolerances."""
import numpy as np
from physt.binnings import StaticBinning

pairs = np.array([[1e6, 1e6 + 1], [1e6 + 3, 1e6 + 4]])  # gap of two whole bin widths
b = StaticBinning(pairs)
edges_masked, mask = b.numpy_bins_with_mask          # sees the gap: 4 edges, mask [0, 2]
assert len(edges_masked) == 4 and list(mask) == [0, 2]

consecutive = b.is_consecutive()
if consecutive:
    # then the edge representation must describe the same bins as the pair representation
    edges = b.numpy_bins
    assert np.array_equal(np.column_stack([edges[:-1], edges[1:]]), b.bins), (
        f"is_consecutive()=True but numpy_bins={edges} != bins={b.bins.tolist()}")
assert not consecutive

# The cached answer ignores the tolerances of later calls: order of calls changes the result
b1 = StaticBinning([[0, 1], [1.000001, 2]])
b2 = StaticBinning([[0, 1], [1.000001, 2]])
first = (b1.is_consecutive(), b1.is_consecutive(rtol=0, atol=0))
second = (b2.is_consecutive(rtol=0, atol=0), b2.is_consecutive())
assert first == second[::-1], f"call order changes the answers: {first} vs {second[::-1]}"
