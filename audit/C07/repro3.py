"""numpy-style arguments given as numpy scalars / arrays are refused."""
import warnings
import numpy as np
from physt import h1, h2
from physt.binnings import numpy_binning

warnings.simplefilter("ignore")
data = np.array([0.1, 0.5, 1.2, 3.3, 4.9, 2.2, 2.8])
n = np.int64(5)                      # e.g. the result of len(), .size, np.sqrt(...).astype(int)
rng = np.array([0.0, 5.0])           # e.g. np.percentile(data, [0, 100])
failures = []

def same_as_numpy(label, physt_call, numpy_edges):
    try:
        edges = physt_call()
    except Exception as exc:  # noqa
        failures.append(f"{label}: {type(exc).__name__}: {exc}")
        return
    if not np.array_equal(edges, numpy_edges):
        failures.append(f"{label}: {edges} != {numpy_edges}")

same_as_numpy("h1(data, np.int64(5))", lambda: h1(data, n).numpy_bins, np.histogram(data, n)[1])
same_as_numpy("h1(data, np.array(5))", lambda: h1(data, np.array(5)).numpy_bins, np.histogram(data, np.array(5))[1])
same_as_numpy("numpy_binning(data, np.int64(5))", lambda: numpy_binning(data, n).numpy_bins, np.histogram(data, n)[1])
same_as_numpy("h1(data, 5, range=array)", lambda: h1(data, 5, range=rng).numpy_bins,
              np.histogram(data, 5, range=rng)[1])
same_as_numpy("h2(x, y, [np.int64(5), 3])", lambda: h2(data, data, [n, 3]).binnings[0].numpy_bins,
              np.histogram2d(data, data, [n, 3])[1])
assert not failures, "\n".join(failures)
