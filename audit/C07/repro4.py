"""is_regular() compares width differences with an ABSOLUTE 1e-8 only (rtol is multiplied by 0)."""
import warnings
import numpy as np
from physt import h1
from physt.binnings import FixedWidthBinning, NumpyBinning, StaticBinning

warnings.simplefilter("ignore")
failures = []

# (a) equal-width bins at an offset are "irregular" (width 0.1, rounding noise 1e-7 = 1e-6 relative)
data = np.array([0.1, 0.5, 1.2, 3.3, 4.9, 2.2, 2.8]) + 1e9
if not h1(data, 10).binning.is_regular():
    failures.append("h1(data + 1e9, 10): numpy (linspace) bins reported as not regular")
if not NumpyBinning(np.linspace(1e9, 1e9 + 1, 11)).is_regular(rtol=1e-3):
    failures.append("rtol has no effect")
fw = FixedWidthBinning(bin_width=0.1, bin_count=10, min=1e9)
try:
    back = fw.as_static().as_fixed_width()
    if not np.allclose(back.numpy_bins, fw.numpy_bins, rtol=0, atol=1e-6):
        failures.append("as_fixed_width changed the edges")
except ValueError as exc:
    failures.append(f"FixedWidthBinning.as_static().as_fixed_width(): {exc}")

# (b) small-scale bins of widths 1 : 2 : 1 are "regular" and silently converted to other edges
small = StaticBinning([0.0, 1e-9, 3e-9, 4e-9])
if small.is_regular():
    failures.append("widths 1e-9, 2e-9, 1e-9 reported as regular")
    conv = small.as_fixed_width()
    if not np.allclose(conv.numpy_bins, small.numpy_bins, rtol=1e-9, atol=0):
        failures.append(f"as_fixed_width: {small.numpy_bins} -> {conv.numpy_bins}")
assert not failures, "\n".join(failures)
