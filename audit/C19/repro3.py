"""With free arithmetics on, an int8 array operand is refused and h *= array is left half-done."""
import warnings
import numpy as np
from physt import h1
from physt.config import config

warnings.simplefilter("ignore")
operand = np.array([12, 12], dtype=np.int8)  # 12**2 = 144 does not fit int8
with config.enable_free_arithmetics():
    reference = h1([1, 2, 3, 3.5], bins=[0, 2, 4]) * [12, 12]
    assert reference.frequencies.tolist() == [12, 36]
    assert reference.errors2.tolist() == [144, 432]

    h = h1([1, 2, 3, 3.5], bins=[0, 2, 4])
    error = None
    try:
        h *= operand
    except Exception as exc:
        error = exc
    state = (h.frequencies.tolist(), h.errors2.tolist())
    assert error is None, (
        f"array-like operand refused under free arithmetics: {type(error).__name__}: {error}; "
        f"histogram left with (frequencies, errors2) = {state}"
    )
    assert state == ([12, 36], [144, 432]), state
