"""fill / fill_n with a negative weight create negative contents while free arithmetics is off."""
import warnings
import numpy as np
from physt import h1, h2
from physt.config import config

warnings.simplefilter("ignore")
assert not config.free_arithmetics  # (run without PHYST_FREE_ARITHMETICS=1)

# Reference: the same weights are refused at construction
try:
    h1([1.0], bins=[0, 2, 4], weights=[-5])
    raise AssertionError("construction accepted negative contents")
except ValueError:
    pass

accepted = []
h = h1([1, 2, 3, 3.5], bins=[0, 2, 4])
try:
    h.fill(1, weight=-5)
    accepted.append(("Histogram1D.fill", h.frequencies.tolist()))
except ValueError:
    pass
h = h1([1, 2, 3, 3.5], bins=[0, 2, 4])
try:
    h.fill_n([1], weights=[-5])
    accepted.append(("Histogram1D.fill_n", h.frequencies.tolist()))
except ValueError:
    pass
g = h2([1, 3], [1, 3], bins=[[0, 2, 4], [0, 2, 4]])
try:
    g.fill_n([[1, 1]], weights=[-5])
    accepted.append(("Histogram2D.fill_n", g.frequencies.tolist()))
except ValueError:
    pass
assert not accepted, f"negative contents accepted without free arithmetics: {accepted}"
