"""With free arithmetics on, array - histogram is refused although array + / * histogram work."""
import warnings
import numpy as np
from physt import h1
from physt.config import config

warnings.simplefilter("ignore")
h = h1([1, 2, 3, 3.5], bins=[0, 2, 4])  # contents [1, 3]
with config.enable_free_arithmetics():
    assert (np.array([5, 5]) + h).frequencies.tolist() == [6, 8]
    assert ([5, 5] * h).frequencies.tolist() == [5, 15]
    assert (h - [5, 5]).frequencies.tolist() == [-4, -2]
    for operand in ([5, 5], np.array([5, 5]), 5):
        try:
            result = operand - h
        except TypeError as exc:
            raise AssertionError(f"{operand!r} - h refused under free arithmetics: {exc}")
        assert np.asarray(result.frequencies).tolist() == [4, 2], result
