"""With free arithmetics on, subtracting an unsigned array-like operand raises OverflowError."""
import warnings
import numpy as np
from physt import h1
from physt.config import config

warnings.simplefilter("ignore")
h = h1([1, 2, 3, 3.5], bins=[0, 2, 4])  # contents [1, 3]
with config.enable_free_arithmetics():
    expected = (h - [1, 1]).frequencies.tolist()  # a list works: [0, 2]
    assert expected == [0, 2]
    for operand in (np.array([1, 1], dtype=np.uint8), np.array([1, 1], dtype=np.uint64), np.uint8(1)):
        try:
            result = h - operand
        except Exception as exc:
            raise AssertionError(
                f"h - {operand!r} refused under free arithmetics: {type(exc).__name__}: {exc}"
            )
        assert result.frequencies.tolist() == expected, result.frequencies
