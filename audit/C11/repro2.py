"""C11 finding 2: index sequences other than list/ndarray (range, pandas Series/Index)
bypass the "increasing order, no repetition" rule and give histograms with
decreasing / duplicated bins."""
import numpy as np
import pandas as pd
from physt.histogram1d import Histogram1D

h = Histogram1D([0, 1, 2, 3, 4], [1, 2, 1, 3])
expected = h[[3, 2, 1, 0]]                       # list: taken in increasing order
assert expected.bins.tolist() == [[0, 1], [1, 2], [2, 3], [3, 4]]

for index in (range(3, -1, -1), pd.Series([2, 0]), pd.Index([1, 1])):
    try:
        r = h[index]
    except (IndexError, TypeError):
        continue                                 # a refusal would be acceptable
    lefts = r.bins[:, 0]
    assert np.all(np.diff(lefts) > 0), (
        f"h[{index!r}] returned bins out of order / repeated: {r.bins.tolist()}, "
        f"frequencies {r.frequencies.tolist()}"
    )
