"""C11 finding 4: an integer index into a one-dimensional HistogramND does not return
the bin's edges and content but a 0-dimensional "histogram"."""
from physt.histogram_nd import HistogramND

h = HistogramND([[0, 1, 2, 3]], [5, 6, 7], axis_names=["a"])
assert h.ndim == 1
assert h[(1,)] == (((1, 2),), 6)          # the 1-tuple form works
r = h[1]                                   # numpy: a[1] is the same as a[(1,)]
assert r == (((1, 2),), 6), f"h[1] returned {r!r} (ndim={getattr(r, 'ndim', None)})"
