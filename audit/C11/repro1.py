"""C11 finding 1: numpy integer scalars are not accepted as integer indices."""
import numpy as np
from physt.histogram1d import Histogram1D
from physt.histogram_nd import Histogram2D

h = Histogram1D([0, 1, 2, 3, 4], [1, 2, 1, 3])
i = np.argmax(h.frequencies)              # np.int64(3) - the natural way to get an index
try:
    edges, value = h[i]
except Exception as exc:                  # ValueError: Values must have same dimension as bins.
    raise AssertionError(f"h[np.int64(3)] refused: {type(exc).__name__}: {exc}")
assert list(edges) == [3, 4] and value == 3

H = Histogram2D([[0, 1, 2], [0, 1, 2, 3]], [[1, 2, 3], [4, 5, 6]], axis_names=["x", "y"])
try:
    row = H[np.int64(1)]                  # TypeError: Invalid index.
    cell = H[np.int64(1), np.int64(2)]
    col = H[:, np.int32(-1)]
except Exception as exc:
    raise AssertionError(f"2D numpy-int index refused: {type(exc).__name__}: {exc}")
assert row.frequencies.tolist() == [4, 5, 6] and row.axis_names == ("y",)
assert cell == (((1, 2), (2, 3)), 6)
assert col.frequencies.tolist() == [3, 6] and col.axis_names == ("x",)
