"""C11 finding 5: a histogram holding a negative content (reachable by fill with a
negative weight) cannot be sliced (1D) or integer-indexed (ND), although the N-D
slice of the same data works."""
from physt.histogram1d import Histogram1D
from physt.histogram_nd import Histogram2D

h = Histogram1D([0, 1, 2, 3], [1, 1, 1])
h.fill(0.5, weight=-3)                     # accepted by the library
assert h.frequencies.tolist() == [-2, 1, 1]
H = Histogram2D([[0, 1, 2], [0, 1, 2]], [[1, 1], [1, 1]])
H.fill([0.5, 0.5], weight=-3)
assert H[0:1].frequencies.tolist() == [[-2, 1]]      # N-D slice: fine
try:
    s = h[0:2]                             # ValueError: Cannot have negative frequencies.
    m = h[[0, 2]]
    row = H[0]
except ValueError as exc:
    raise AssertionError(f"indexing refused: {exc}")
assert s.frequencies.tolist() == [-2, 1] and s.overflow == 1
assert m.frequencies.tolist() == [-2, 1]
assert row.frequencies.tolist() == [-2, 1]
