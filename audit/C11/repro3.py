"""C11 finding 3: slices with a positive step are refused by Histogram1D (even step=1),
which also makes N-D indexing depend on the order of ints and slices."""
from physt.histogram1d import Histogram1D
from physt.histogram_nd import Histogram2D

h = Histogram1D([0, 1, 2, 3, 4], [1, 2, 1, 3], underflow=1, overflow=2)
try:
    a = h[1:3:1]                                  # IndexError: Cannot change the order of bins
except IndexError as exc:
    raise AssertionError(f"h[1:3:1] refused: {exc}")
assert a.frequencies.tolist() == [2, 1] and a.underflow == 2 and a.overflow == 5

H = Histogram2D([[0, 1, 2], [0, 1, 2, 3]], [[1, 2, 3], [4, 5, 6]])
ok = H[:, ::2]                                    # accepted: every other bin of axis 1
assert ok.frequencies.tolist() == [[1, 3], [4, 6]]
try:
    r = H[0, ::2]                                 # same slice after an int: refused
except IndexError as exc:
    raise AssertionError(f"H[0, ::2] refused although H[:, ::2] works: {exc}")
assert r.frequencies.tolist() == [1, 3]
assert r.bins.tolist() == [[0, 1], [2, 3]]
