"""C11 finding 6: H[:] of an N-D histogram is the source object itself, so working with
the "selected" histogram modifies the source (1D h[:] and H[:, :] return new objects)."""
from physt.histogram1d import Histogram1D
from physt.histogram_nd import Histogram2D

h = Histogram1D([0, 1, 2], [1, 2])
assert h[:] is not h

H = Histogram2D([[0, 1, 2], [0, 1, 2]], [[1, 2], [3, 4]])
assert H[:, :] is not H
sel = H[:]
sel.fill([0.5, 0.5])
sel.name = "selection"
assert H.frequencies.tolist() == [[1, 2], [3, 4]] and H.name is None, (
    f"source changed through H[:]: {H.frequencies.tolist()}, name={H.name!r}, same object: {sel is H}"
)
