"""C03: Histogram1D.find_bin(nan) reports the overflow bin, fill(nan) reports None (and skips)."""
import numpy as np
from physt.binnings import NumpyBinning
from physt.histogram1d import Histogram1D
from physt.histogram_nd import Histogram2D

h = Histogram1D(NumpyBinning([0.0, 1.0, 2.0]))
for value in (0.5, 2.0, 5.0, -1.0, float("nan"), np.float32("nan")):
    found = h.find_bin(value)
    filled = h.fill(value)
    assert found == filled, f"value={value}: find_bin -> {found}, fill -> {filled}"
assert h.overflow == 1 and h.underflow == 1 and h.frequencies.tolist() == [1, 1]

# The ND variant is consistent (both None):
h2 = Histogram2D([NumpyBinning([0.0, 1.0, 2.0])] * 2)
assert h2.find_bin([np.nan, 0.5]) is None and h2.fill([np.nan, 0.5]) is None
