"""C03: ND construction with keep_missed=False still counts / keeps tracking missed values."""
import numpy as np
from physt import h2
from physt.binnings import NumpyBinning
from physt.histogram_nd import Histogram2D

b = NumpyBinning([0.0, 1.0, 2.0])
points = np.array([[0.5, 0.5], [5.0, 5.0]])      # the second point is outside the bins

# Incremental: nothing is counted as missed
inc = Histogram2D([b, b], keep_missed=False)
inc.fill_n(points)
assert inc.missed == 0

# Direct class construction: the missed weight is stored although tracking is off
built = Histogram2D.from_calculate_frequencies(points, [b, b], keep_missed=False)
assert built.keep_missed is False
assert np.array_equal(built.frequencies, inc.frequencies)
assert built.missed == inc.missed, ("from_calculate_frequencies", built.missed)

# Facade: keep_missed=False is accepted but silently ignored (in h1 it is honoured)
fac = h2(points[:, 0], points[:, 1], [b, b], keep_missed=False)
assert fac.keep_missed is False, "h2(..., keep_missed=False) returned keep_missed=True"
fac.fill([7.0, 7.0])
assert fac.missed == 0, fac.missed
