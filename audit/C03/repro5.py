"""C03: 1D histogram with non-consecutive bins - fill and fill_n keep different missed counters."""
import numpy as np
from physt import h1
from physt.binnings import StaticBinning
from physt.histogram1d import Histogram1D

bins = StaticBinning([[0, 1], [2, 3]])          # gap between 1 and 2
data = [-5.0, 0.5, 2.5, 10.0]                   # nothing falls into the gap

one_by_one = Histogram1D(bins)
assert [one_by_one.fill(x) for x in data] == [-1, 0, 1, 2]
batch = Histogram1D(bins)
batch.fill_n(data)
built = h1(data, bins)

def state(h):
    return (h.frequencies.tolist(), h.errors2.tolist(), float(h.underflow), float(h.overflow))

# (i) underflow / overflow: fill -> 1.0 / 1.0, fill_n and construction -> nan / nan
assert np.allclose(state(batch)[2:], state(built)[2:], equal_nan=True)
assert np.allclose(state(one_by_one)[2:], state(batch)[2:], equal_nan=True), (
    state(one_by_one), state(batch))

# (ii) keep_missed=False: a value in the gap must change nothing at all
off = Histogram1D(bins, keep_missed=False)
before = (off.missed, off.to_dict()["missed"], off.frequencies.tolist())
assert off.find_bin(1.5) is None and off.fill(1.5) is None
after = (off.missed, off.to_dict()["missed"], off.frequencies.tolist())
assert repr(before) == repr(after), (before, after)    # missed: 0.0 -> nan on current code
