"""C03: fill_n(..., columns=True) on a transformed histogram: wrong cells or an exception."""
import numpy as np
from physt.binnings import NumpyBinning
from physt.histogram_nd import Histogram2D
from physt.special_histograms import PolarHistogram

binnings = [NumpyBinning([0.0, 1.0, 2.0, 3.0]), NumpyBinning(np.linspace(0, 2 * np.pi, 5))]
points = np.array([[1.0, 1.0], [-1.0, 2.0], [0.3, -2.0]])     # rows = (x, y) observations

# columns=True works on a plain ND histogram ...
plain_rows = Histogram2D(binnings); plain_rows.fill_n(abs(points))
plain_cols = Histogram2D(binnings); plain_cols.fill_n(abs(points).T, columns=True)
assert plain_rows == plain_cols

# ... but not on a transformed one. Two points: silently the wrong cells (and one "missed")
rows = PolarHistogram(binnings); rows.fill_n(points[:2])
cols = PolarHistogram(binnings); cols.fill_n(points[:2].T, columns=True)
assert cols.missed == rows.missed == 0, ("missed", cols.missed)
assert np.array_equal(rows.frequencies, cols.frequencies), (rows.frequencies, cols.frequencies)

# Any other number of points: ValueError
rows = PolarHistogram(binnings); rows.fill_n(points)
cols = PolarHistogram(binnings)
try:
    cols.fill_n(points.T, columns=True)
except ValueError as exc:
    assert False, f"fill_n(columns=True) raised {exc!r}"
assert np.array_equal(rows.frequencies, cols.frequencies)
