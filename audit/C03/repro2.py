"""C03: CylindricalSurfaceHistogram cannot be filled at all (fill / fill_n / find_bin raise)."""
import numpy as np
from physt.binnings import NumpyBinning
from physt.special_histograms import CylindricalHistogram, CylindricalSurfaceHistogram

binnings = [
    NumpyBinning([0.0, 1.0, 2.0, 3.0]),              # rho
    NumpyBinning(np.linspace(0, 2 * np.pi, 5)),      # phi
    NumpyBinning([0.0, 1.0, 2.0]),                   # z
]
points = np.array([[1.0, 1.0, 0.5], [-1.0, 2.0, 1.5], [0.3, -2.0, 0.7]])

full = CylindricalHistogram(binnings)
full.fill_n(points)
expected = full.projection("phi", "z").frequencies          # (phi, z) contents of the 3 points

surface = CylindricalHistogram(binnings).projection("phi", "z")   # empty, same bins
assert isinstance(surface, CylindricalSurfaceHistogram)

def attempt(call, *args):
    try:
        return call(*args)
    except TypeError as exc:           # "Value after * must be an iterable, not int"
        return exc

one_by_one, batch = surface.copy(), surface.copy()
for p in points:
    ix = attempt(one_by_one.find_bin, p)
    assert not isinstance(ix, Exception), f"find_bin raised {ix!r}"
    ret = attempt(one_by_one.fill, p)
    assert ret == ix, f"fill returned / raised {ret!r}, find_bin {ix!r}"
assert np.array_equal(one_by_one.frequencies, expected)

ret = attempt(batch.fill_n, points)
assert not isinstance(ret, Exception), f"fill_n raised {ret!r}"
assert np.array_equal(batch.frequencies, expected)
