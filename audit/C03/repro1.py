"""C03: weights of a narrow numeric dtype give different contents / errors2 / missed than fill()."""
import warnings
import numpy as np
from physt.binnings import NumpyBinning
from physt.histogram1d import Histogram1D
from physt.histogram_nd import Histogram2D

warnings.simplefilter("ignore")
b = NumpyBinning([0.0, 1.0, 2.0])

# --- 1D, int32 weights (the default integer type of many data sources) ---
w = np.array([50000, 50000], dtype=np.int32)
ref = Histogram1D(b)
for x in w:
    ref.fill(0.5, int(x))              # python-int weights: the reference
assert ref.errors2.tolist() == [5_000_000_000, 0]

batch = Histogram1D(b)
batch.fill_n([0.5, 0.5], weights=w)    # same data in one batch
assert batch.frequencies.tolist() == ref.frequencies.tolist()
assert batch.errors2.tolist() == ref.errors2.tolist(), ("fill_n", batch.errors2)

single = Histogram1D(b)
for x in w:
    single.fill(0.5, x)                # same data one at a time, numpy scalar weights
assert single.errors2.tolist() == ref.errors2.tolist(), ("fill", single.errors2)

# --- ND, int8 weights: contents and missed are wrong as well ---
w8 = np.array([100, 100], dtype=np.int8)
ref2 = Histogram2D([b, b])
for x in w8:
    ref2.fill([0.5, 0.5], int(x))
nd = Histogram2D([b, b])
nd.fill_n([[0.5, 0.5], [0.5, 0.5]], weights=w8)
assert nd.frequencies.tolist() == ref2.frequencies.tolist(), ("ND contents", nd.frequencies)
assert nd.errors2.tolist() == ref2.errors2.tolist(), ("ND errors2", nd.errors2)
assert nd.missed == ref2.missed == 0, ("ND missed", nd.missed)
