"""ASCII hbar of a histogram whose bins are all zero must print (empty) bars, not fail."""
import contextlib
import io
from physt.types import Histogram1D

h = Histogram1D([[0, 1], [1, 2], [2, 4]], [0, 0, 0], name="empty")
before = h.to_dict()

out = io.StringIO()
error = None
with contextlib.redirect_stdout(out):
    try:
        h.plot("hbar", backend="ascii", show_values=True)
    except Exception as exc:  # noqa
        error = exc
assert error is None, f"hbar of an all-zero histogram raised {error!r}"
lines = out.getvalue().splitlines()
assert len(lines) == h.bin_count, lines          # one bar per bin
assert all("#" not in line for line in lines)    # all of zero length
assert h.to_dict() == before
print("OK")
