"""step plot of a 1D histogram whose bins have a gap (the other 1D kinds draw it fine)."""
import matplotlib
matplotlib.use("Agg")
import numpy as np
from physt.types import Histogram1D

h = Histogram1D([[0, 1], [1, 3], [5, 6]], [1, 2, 3])      # gap between 3 and 5

for kind in ("bar", "scatter", "line", "fill"):
    h.plot(kind)                                            # all fine

try:
    ax = h.plot("step")
except Exception as exc:  # noqa
    raise AssertionError(f"step plot of a histogram with a gap raised {exc!r}")

# The drawn step line must be at the frequency over each bin, never over the gap
xs, ys = [], []
for line in ax.lines:
    xs.extend(np.asarray(line.get_xdata(), dtype=float))
    ys.extend(np.asarray(line.get_ydata(), dtype=float))
for (left, right), freq in zip(h.bins, h.frequencies):
    assert any(x == left for x in xs) and any(x == right for x in xs), (left, right, xs)
    assert freq in ys
print("OK")
