"""plotly bar must accept the tick arguments (time-tick helper / ticks=) as plotly line does."""
from physt.types import Histogram1D
from physt.plotting.common import TimeTickHandler

h = Histogram1D([[0, 60], [60, 120], [120, 300]], [1, 2, 3])

fig_line = h.plot("line", backend="plotly", tick_handler=TimeTickHandler("min"))
expected = [0, 60, 120, 180, 240, 300]
assert list(fig_line.layout.xaxis.tickvals) == expected
assert len(fig_line.layout.xaxis.ticktext) == len(expected)

for kwargs in (dict(tick_handler=TimeTickHandler("min")), dict(ticks="center")):
    try:
        fig = h.plot("bar", backend="plotly", **kwargs)
    except Exception as exc:  # noqa
        raise AssertionError(f"plotly bar with {list(kwargs)} raised {type(exc).__name__}: {str(exc)[:80]}")
    if "tick_handler" in kwargs:
        assert list(fig.layout.xaxis.tickvals) == expected
        assert len(fig.layout.xaxis.ticktext) == len(expected)
    else:
        assert list(fig.layout.xaxis.tickvals) == list(h.bin_centers)
    assert list(fig.data[0].y) == [1, 2, 3]
print("OK")
