"""bar3d: every 3D bar must cover exactly its bin [left, right] x [bottom, top]."""
import matplotlib
matplotlib.use("Agg")
import matplotlib.pyplot as plt
import numpy as np
from physt.types import Histogram2D

h = Histogram2D([[[0, 1], [1, 3]], [[0, 2], [2, 3]]], np.array([[1, 2], [3, 4]]))

ax = plt.figure().add_subplot(111, projection="3d")
calls = []
orig = ax.bar3d
def recording_bar3d(x, y, z, dx, dy, dz, *args, **kwargs):
    calls.append([np.asarray(a, dtype=float) for a in (x, y, z, dx, dy, dz)])
    return orig(x, y, z, dx, dy, dz, *args, **kwargs)
ax.bar3d = recording_bar3d

h.plot("bar3d", ax=ax)
x, y, z, dx, dy, dz = calls[0]   # matplotlib: the box spans [x, x+dx] x [y, y+dy] x [z, z+dz]

left_x, left_y = (a.flatten() for a in h.get_bin_left_edges())
right_x, right_y = (a.flatten() for a in h.get_bin_right_edges())
assert np.array_equal(dz, h.frequencies.flatten()), "heights"
assert np.allclose(x, left_x) and np.allclose(x + dx, right_x), (
    f"bars span x in {list(zip(x, x + dx))}, bins are {list(zip(left_x, right_x))}")
assert np.allclose(y, left_y) and np.allclose(y + dy, right_y), (
    f"bars span y in {list(zip(y, y + dy))}, bins are {list(zip(left_y, right_y))}")
print("OK")
