"""h1(("name", data), ...) - the (name, values) tuple form - silently drops weights / dtype / axis_name ..."""
import numpy as np
from physt import h1

x = np.array([1.0, 2.0, 3.0, 4.0, 5.0, 6.0])
w = np.array([1.0, 2.0, 3.0, 4.0, 5.0, 6.0])

ref = h1(x, 3, weights=w, axis_name="ax", title="tt", dtype=float)
got = h1(("grp", x), 3, weights=w, axis_name="ax", title="tt", dtype=float)

assert got.name == "grp"
assert np.array_equal(got.frequencies, ref.frequencies), (got.frequencies, ref.frequencies)
assert np.array_equal(got.errors2, ref.errors2), (got.errors2, ref.errors2)
assert got.dtype == ref.dtype, (got.dtype, ref.dtype)
assert got.axis_name == "ax" and got.title == "tt", (got.axis_name, got.title)
