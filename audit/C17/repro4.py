"""Geant4 2D CSV: the weight in the underflow/overflow cells of the file is dropped (missed == 0)."""
import os
import tempfile
import numpy as np
from physt.compat.geant4 import load_csv

cells = np.zeros((4, 4))            # [iy, ix], 2 x 2 bins plus the under/overflow border
cells[1:3, 1:3] = [[1, 2], [3, 4]]  # inside the axes
cells[0, 0] = 5                     # underflow in both axes
cells[3, 2] = 7                     # overflow in y
lines = ["#class tools::histo::h2d", "#title T", "#dimension 2",
         "#axis fixed 2 0 2", "#axis fixed 2 0 2", "#bin_number 16",
         "entries,Sw,Sw2,Sxw0,Sx2w0,Sxw1,Sx2w1"]
for iy in range(4):
    for ix in range(4):  # the x index runs fastest
        lines.append(f"{int(cells[iy, ix])},{cells[iy, ix]},{cells[iy, ix]},0,0,0,0")
path = os.path.join(tempfile.mkdtemp(), "h2.csv")
with open(path, "w", encoding="ascii") as out:
    out.write("\n".join(lines) + "\n")

hist = load_csv(path)
assert np.array_equal(hist.frequencies, [[1, 3], [2, 4]]), hist.frequencies
assert hist.total == 10
assert hist.missed == 12, f"missed = {hist.missed}, the file holds 12 outside the axes"
