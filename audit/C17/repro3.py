"""A dask array's internal graph key ('array-<hash>') becomes the axis name in h1 / h2."""
import warnings
import numpy as np
import dask.array as da
from physt import h1, h2
from physt.compat import dask as physt_dask

warnings.simplefilter("ignore")
x = np.array([1.0, 2.0, 3.0, 4.0, 5.0, 6.0])
y = x[::-1].copy()
dx, dy = da.from_array(x, chunks=2), da.from_array(y, chunks=4)

ref1, got1 = h1(x, 3), h1(dx, 3)
assert np.array_equal(got1.frequencies, ref1.frequencies)
assert got1.axis_name == ref1.axis_name, (got1.axis_name, ref1.axis_name)

ref2, got2 = h2(x, y, 2), h2(dx, dy, 2)
assert np.array_equal(got2.frequencies, ref2.frequencies)
assert got2.axis_names == ref2.axis_names, (got2.axis_names, ref2.axis_names)

got3 = physt_dask.h2(dx, dy, "fixed_width", bin_width=2)
assert got3.axis_names == ref2.axis_names, (got3.axis_names, ref2.axis_names)
