"""h() refuses an iterator / generator of rows (h1 and h2 accept iterators)."""
import numpy as np
from physt import h

rows = [[1.0, 2.0], [2.0, 3.0], [3.0, 1.0], [0.5, 2.5]]
ref = h(np.array(rows), 2)

for make in (lambda: iter(rows), lambda: (r for r in rows), lambda: map(tuple, rows)):
    try:
        got = h(make(), 2)
    except Exception as exc:
        raise AssertionError(f"h() refused an iterator of rows: {type(exc).__name__}: {exc}")
    assert got == ref
    assert np.array_equal(got.frequencies, ref.frequencies)
