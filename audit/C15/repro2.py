"""The (deprecated but public) facade aliases spherical_histogram / spherical_surface_histogram
must build the spherical histograms, like the other *_histogram aliases do."""
import warnings
import numpy as np
from physt import special_histograms as sh

warnings.simplefilter("ignore")
data = np.array([[1.0, 0.0, 0.0], [0.0, -1.0, 2.0], [-1.0, -1.0, -1.0], [0.5, 0.5, -3.0]])
problems = []
for alias, func, klass, kw in [
    (sh.spherical_histogram, sh.spherical, sh.SphericalHistogram, dict(radial_bins=3, theta_bins=4, phi_bins=4)),
    (sh.spherical_surface_histogram, sh.spherical_surface, sh.SphericalSurfaceHistogram, dict(theta_bins=4, phi_bins=4)),
    (sh.cylindrical_histogram, sh.cylindrical, sh.CylindricalHistogram, dict(rho_bins=3, phi_bins=4, z_bins=3)),
]:
    ref = func(data, **kw)
    try:
        got = alias(data, **kw)
    except Exception as exc:  # noqa: BLE001
        problems.append(f"{klass.__name__} alias raised {type(exc).__name__}: {exc}")
        continue
    if type(got) is not klass or not np.array_equal(got.frequencies, ref.frequencies):
        problems.append(f"{klass.__name__} alias returned {type(got).__name__}")
assert not problems, problems
