"""azimuthal()/radial() with transformed=True must accept the already transformed coordinate
(a 1-D array of phi / r values) and give the same histogram as the Cartesian construction."""
import numpy as np
from physt import special_histograms as sh

x = np.array([1.0, 0.0, -1.0, 0.0, 1.0, -2.0])
y = np.array([0.5, 1.0, 0.2, -1.0, -1.0, -2.0])
phi = np.arctan2(y, x) % (2 * np.pi)
r = np.hypot(x, y)
r_edges = np.array([0.0, 1.0, 1.5, 3.0])

problems = []
for name, call, ref in [
    ("azimuthal", lambda: sh.azimuthal(phi, bins=4, transformed=True), sh.azimuthal(x, y, bins=4)),
    ("radial", lambda: sh.radial(r, bins=r_edges, transformed=True), sh.radial(x, y, bins=r_edges)),
]:
    # The same values are accepted by fill_n(..., transformed=True) of the class:
    filled = ref.copy(include_frequencies=False)
    filled.fill_n(phi if name == "azimuthal" else r, transformed=True)
    assert np.array_equal(filled.frequencies, ref.frequencies)
    try:
        got = call()
    except Exception as exc:  # noqa: BLE001
        problems.append(f"{name}(..., transformed=True) raised {type(exc).__name__}: {exc}")
        continue
    if not np.array_equal(got.frequencies, ref.frequencies):
        problems.append(f"{name}: {got.frequencies} != {ref.frequencies}")
assert not problems, problems
