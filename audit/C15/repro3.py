"""radial(x, y, bins="integer") must build the histogram of r = hypot(x, y) in integer bins,
as polar(..., radial_bins="integer") and h1(r, "integer") do."""
import numpy as np
import physt
from physt import special_histograms as sh

x = np.array([3.0, 0.0, -1.0, 0.5, -2.0])
y = np.array([4.0, 1.0, -1.0, -0.5, 0.0])
ref_polar = sh.polar(x, y, radial_bins="integer", phi_bins=4).projection("r")
ref_h1 = physt.h1(np.hypot(x, y), "integer")
assert np.array_equal(ref_polar.frequencies, ref_h1.frequencies)
try:
    got = sh.radial(x, y, bins="integer")
except Exception as exc:  # noqa: BLE001
    raise AssertionError(f"radial(bins='integer') raised {type(exc).__name__}: {exc}") from exc
assert isinstance(got, sh.RadialHistogram)
assert np.array_equal(got.bins, ref_h1.bins), (got.bins, ref_h1.bins)
assert np.array_equal(got.frequencies, ref_h1.frequencies)
# every point is where find_bin says it is
for xi, yi in zip(x, y):
    assert got.find_bin([xi, yi]) == got.find_bin(float(np.hypot(xi, yi)), transformed=True)
