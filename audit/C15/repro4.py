"""Already transformed input of the wrong dimensionality (N x k table instead of N radii / angles)
must be refused by the 1-D special histograms, as the N-D ones refuse it."""
import warnings
import numpy as np
from physt import special_histograms as sh

warnings.simplefilter("ignore")
table = np.array([[0.5, 0.6, 0.7], [1.2, 1.3, 1.4], [0.1, 2.5, 0.3]])  # 3 rows, not 3 (or 9) radii
edges = np.array([0.0, 1.0, 2.0, 3.0])
accepted = []

def must_refuse(label, call):
    try:
        call()
    except (ValueError, TypeError):
        return
    accepted.append(label)

# The N-D classes refuse a wrong number of (transformed) columns ...
polar = sh.polar([1.0, 0.0], [0.0, 1.0], radial_bins=edges, phi_bins=4)
try:
    polar.fill_n(table, transformed=True)
    raise SystemExit("unexpected: polar accepted 3 columns")
except ValueError:
    pass
# ... but the 1-D classes silently count every cell of the table as a point.
rad = sh.radial([1.0, 0.0], [0.0, 1.0], bins=edges)
azi = sh.azimuthal([1.0, 0.0], [0.0, 1.0], bins=4)
must_refuse("RadialHistogram.fill_n(3x3, transformed=True)", lambda: rad.fill_n(table, transformed=True))
must_refuse("AzimuthalHistogram.fill_n(3x2, transformed=True)", lambda: azi.fill_n(table[:, :2], transformed=True))
must_refuse("radial(3x3, transformed=True)", lambda: sh.radial(table, bins=edges, transformed=True))
assert rad.total == 2 and azi.total == 2, (rad.total, azi.total)  # nothing may have been added
assert not accepted, accepted
