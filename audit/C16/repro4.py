"""NaN bin edges are accepted (NumpyBinning refuses them): all geometry is NaN."""
import warnings
import numpy as np
from physt import h1
from physt.histogram1d import Histogram1D
from physt.histogram_nd import HistogramND

warnings.simplefilter("ignore")
makers = [
    lambda: Histogram1D([0, np.nan, 2], [1, 1]),
    lambda: h1(np.array([0.5, 1.5]), np.array([0, np.nan, 2])),
    lambda: HistogramND([[0, np.nan, 2], [0, 1]], [[1], [1]]),
]
for make in makers:
    try:
        h = make()
    except ValueError:
        continue  # "Bins must be in rising order." - the promised refusal
    # Accepted: then the statement must hold for it
    assert np.allclose(h.densities * h.bin_sizes, h.frequencies), (h.bin_sizes, h.densities)
