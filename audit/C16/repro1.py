"""Bin edges of an integer / narrow dtype: centres, widths and bin sizes wrap around."""
import warnings
import numpy as np
from physt import h1, h2
from physt.special_histograms import PolarHistogram

warnings.simplefilter("ignore")

# (a) facade, 1D, uint8 edges (e.g. pixel intensities)
edges = np.array([0, 64, 128, 192, 255], dtype=np.uint8)
h = h1(np.array([10, 70, 130, 200]), edges)
bins = np.asarray(h.bins, dtype=float)
assert np.array_equal(h.bin_centers, bins.mean(axis=1)), h.bin_centers  # [32, 96, 32, 95.5]

# (b) class constructor, polar, int32 radial edges
r = np.array([0, 50000, 100000], dtype=np.int32)
p = PolarHistogram([r, [0.0, np.pi]], [[1], [1]])
rf = r.astype(float)
true_sizes = np.outer((rf[1:] ** 2 - rf[:-1] ** 2) / 2, [np.pi])
assert np.allclose(p.bin_sizes, true_sizes), p.bin_sizes  # negative areas
assert np.allclose(p.densities * true_sizes, p.frequencies)

# (c) facade, 2D, int64 edges: the product of the widths overflows
big = np.array([0, 4_000_000_000])
g = h2([1, 2], [1, 2], bins=[big, big])
assert g.total_size == 1.6e19, g.total_size  # -2446744073709551616
