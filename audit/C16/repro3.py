"""Edges of a (consecutive) axis cannot be read when ANOTHER axis has a gap."""
import numpy as np
from physt.histogram_nd import HistogramND

h = HistogramND([[0, 1, 3], [[0, 1], [2, 3]]], [[1, 2], [3, 4]])
assert np.array_equal(h.get_bin_left_edges(0), [0, 1])
assert np.array_equal(h.get_bin_right_edges(0), [1, 3])
assert np.array_equal(h.get_bin_widths(0), [1, 2])
try:
    edges0 = h.get_bin_edges(0)
    by_name = h.get_bin_edges("axis0")
except ValueError as exc:  # Cannot create numpy bins from inconsecutive edges.
    edges0 = by_name = exc
assert not isinstance(edges0, Exception), f"axis 0 is consecutive, yet: {edges0}"
assert np.array_equal(edges0, [0, 1, 3])
assert np.array_equal(by_name, [0, 1, 3])
