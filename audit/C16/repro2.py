"""Bins with a gap as wide as a bin are reported as consecutive edges."""
import numpy as np
from physt.histogram1d import Histogram1D

for bins in (
    [[1.7e9, 1.7e9 + 10], [1.7e9 + 20, 1.7e9 + 30]],  # time stamps, 10 s bins, 10 s gap
    [[0, 1e-9], [2e-9, 3e-9]],  # small scale
):
    h = Histogram1D(bins, [1, 1])
    assert np.array_equal(h.bin_widths, np.diff(bins, axis=1)[:, 0])
    try:
        edges = h.edges  # documented to be unavailable for inconsecutive bins
    except ValueError:
        continue
    # If edges are given, they must describe the same bins
    assert np.array_equal(edges[:-1], h.bin_left_edges), (edges, h.bins)
    assert np.array_equal(np.diff(edges), h.bin_widths), (np.diff(edges), h.bin_widths)
