"""A (non-adaptive) binning object passed to h() is shared; making one histogram adaptive
and filling it re-bins other axes / other histograms behind their back."""
import numpy as np
from physt import h
from physt.binnings import FixedWidthBinning

data = np.array([[0.5, 0.5], [1.5, 2.5], [2.5, 1.5]])

# (a) two histograms built with the same per-axis binning objects
bx = FixedWidthBinning(bin_width=1, bin_count=3, min=0)
by = FixedWidthBinning(bin_width=1, bin_count=3, min=0)
first = h(data, [bx, by])
second = h(data, [bx, by])
first.adaptive = True
first.fill([5.5, 0.5])
assert first.shape == first.frequencies.shape == (6, 3)
assert first.frequencies[5, 0] == 1
# the second histogram was not touched by anybody...
assert second.shape == second.frequencies.shape, (second.shape, second.frequencies.shape)
assert np.array_equal(second.edges[0], [0, 1, 2, 3]), second.edges[0]

# (b) one histogram, one binning object used for both axes
b = FixedWidthBinning(bin_width=1, bin_count=3, min=0)
hist = h(data, b)
hist.set_adaptive(True)
hist.fill([5.5, 0.5])  # ValueError (broadcast) on current code: axis 1 was re-binned by column 0
assert hist.shape == hist.frequencies.shape == (6, 3)
