"""spherical() / polar(): rows with NaN are dropped but their weights are not -> refusal."""
import numpy as np
import physt

data = np.array([[1.0, 0.0, 0.0], [np.nan, 1.0, 0.0], [0.0, 0.0, 1.0], [0.0, 2.0, 0.0]])
weights = np.array([1.0, 10.0, 2.0, 4.0])
ok = ~np.isnan(data).any(axis=1)

kw = dict(radial_bins=[0, 1.5, 3], theta_bins=2, phi_bins=2)
expected = physt.spherical(data[ok], weights=weights[ok], **kw)
assert expected.total + expected.missed == 7.0
try:
    hist = physt.spherical(data, weights=weights, **kw)  # dropna=True is the default
except ValueError as exc:
    raise AssertionError(f"spherical() with NaN row + weights raised: {exc}")
assert np.array_equal(hist.frequencies, expected.frequencies)
assert np.array_equal(hist.errors2, expected.errors2) and hist.missed == expected.missed

kw = dict(radial_bins=[0, 1.5, 3], phi_bins=2)
expected = physt.polar(data[ok, 0], data[ok, 1], weights=weights[ok], **kw)
try:
    hist = physt.polar(data[:, 0], data[:, 1], weights=weights, dropna=True, **kw)
except ValueError as exc:
    raise AssertionError(f"polar() with NaN row + weights raised: {exc}")
assert np.array_equal(hist.frequencies, expected.frequencies)
assert hist.total + hist.missed == 7.0
