"""Weights of a narrow numpy dtype: cell contents, squared errors and missed wrap around."""
import numpy as np
from physt import h

edges = [[0.0, 1.0, 2.0], [0.0, 1.0, 2.0]]
data = np.array([[0.5, 0.5], [0.5, 0.5], [0.5, 0.5]])  # all three rows in cell (0, 0)

# (a) uint8 weights (e.g. pixel intensities); the histogram itself is int64
w = np.array([200, 100, 1], dtype=np.uint8)
hist = h(data, edges, weights=w)
print(hist.dtype, hist.frequencies[0, 0], hist.errors2[0, 0], hist.missed)
assert hist.frequencies[0, 0] == 301, hist.frequencies[0, 0]          # 45 on current code
assert hist.errors2[0, 0] == 200**2 + 100**2 + 1, hist.errors2[0, 0]  # 81 on current code
assert hist.missed == 0, hist.missed                                  # 256 on current code

# (b) int32 weights, explicitly asking for an int64 histogram
w = np.array([100000, 3, 3], dtype=np.int32)
hist = h(data, edges, weights=w, dtype=np.int64)
assert hist.frequencies[0, 0] == 100006
assert hist.errors2[0, 0] == 100000**2 + 18, hist.errors2[0, 0]       # 1410065426 on current code

# (c) the same for fill with a numpy scalar weight
hist = h(data, edges)
hist.fill([0.5, 0.5], np.int8(100))
assert hist.errors2[0, 0] == 3 + 100**2, hist.errors2[0, 0]           # 19 on current code
