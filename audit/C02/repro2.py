"""h3 with the documented column-wise input (list of array-likes) fails unless the columns are ndarrays."""
import numpy as np
import pandas as pd
from physt import h, h3

x, y, z = [0.5, 1.5, 1.5, 0.5], [0.5, 0.5, 1.5, 1.5], [0.5, 1.5, 0.5, 1.5]
edges = [np.array([0.0, 1.0, 2.0])] * 3
expected = h(np.column_stack([x, y, z]), edges)

for label, columns in [
    ("ndarrays", [np.array(x), np.array(y), np.array(z)]),
    ("lists", [x, y, z]),
    ("tuple of lists", (x, y, z)),
    ("pandas Series", [pd.Series(x, name="x"), pd.Series(y, name="y"), pd.Series(z, name="z")]),
]:
    try:
        hist = h3(columns, edges)
    except Exception as exc:  # TypeError / ValueError on current code
        raise AssertionError(f"h3({label}) raised {type(exc).__name__}: {exc}")
    assert hist.ndim == 3
    assert np.array_equal(hist.frequencies, expected.frequencies), label
    assert hist.missed == 0
