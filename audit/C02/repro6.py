"""An axis with zero bins: fill() counts the row as missed, h() / fill_n() crash with IndexError."""
import numpy as np
from physt import h

data = np.array([[0.5, 0.5], [1.5, 2.5], [2.5, 1.5]])
edges = [0.0, 1.0, 2.0, 3.0]

empty = h(data, [edges, edges])[0:0, :]           # keep no bin of axis 0
assert empty.shape == (0, 3) and empty.missed == 0
assert empty.fill(data[0]) is None and empty.missed == 1   # the scalar path works

try:
    empty.fill_n(data[1:])                        # IndexError on current code
except IndexError as exc:
    raise AssertionError(f"fill_n on a histogram with a zero-bin axis raised IndexError: {exc}")
assert empty.total == 0 and empty.missed == 3

try:
    hist = h(data, [np.zeros((0, 2)), edges], weights=[1.0, 2.0, 3.0])   # IndexError on current code
except IndexError as exc:
    raise AssertionError(f"h() with a zero-bin axis raised IndexError: {exc}")
assert hist.shape == (0, 3) and hist.total == 0 and hist.missed == 6.0
