"""missed is computed as sum(weights) - sum(contents): it is neither 0 when nothing was missed
nor the missed weight when something was."""
import numpy as np
from physt import h

edges = [[0.0, 1.0, 2.0, 3.0]] * 2

# (a) every row lies in a cell -> nothing missed
data = np.array([[0.5, 0.5], [1.5, 0.5], [2.5, 0.5], [0.5, 1.5]])
hist = h(data, edges, weights=[0.1, 0.1, 0.1, 0.3])
assert hist.frequencies.sum() > 0 and (hist.frequencies > 0).sum() == 4
assert hist.missed == 0, hist.missed                  # 1.1102230246251565e-16 on current code

# (b) one row of weight 1.0 lies outside all bins
data = np.array([[0.5, 0.5], [5.0, 5.0]])
hist = h(data, edges, weights=[1e16, 1.0])
assert hist.frequencies[0, 0] == 1e16
assert hist.missed == 1.0, hist.missed                # 0.0 on current code

hist = h(data, edges, weights=np.array([2.0**24, 1.0], dtype=np.float32))
assert hist.missed == 1.0, hist.missed                # 0.0 on current code
