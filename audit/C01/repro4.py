"""A number of bins given as a numpy integer (or a range given as an array) is refused."""
import warnings
import numpy as np
from physt import h1

warnings.simplefilter("ignore")
data = np.array([0.0, 1.0, 2.0, 3.0, 4.0])

def build(*args, **kwargs):
    try:
        return h1(data, *args, **kwargs)
    except (ValueError, TypeError) as exc:
        return exc

expected = h1(data, 4)
assert expected.frequencies.tolist() == [1, 1, 1, 2]

for bins in (np.int64(4), np.int32(4), np.array(4), np.sqrt(16).astype(int)):
    h = build(bins)  # ValueError: Binning 4 not understood.
    assert not isinstance(h, Exception), repr(h)
    assert h.frequencies.tolist() == [1, 1, 1, 2] and (h.bins == expected.bins).all()

h = build("numpy", bin_count=np.int64(4))  # TypeError: bin_count must be a number.
assert not isinstance(h, Exception), repr(h)
assert h.frequencies.tolist() == [1, 1, 1, 2]

h = build(2, range=np.array([0.0, 2.0]))  # ValueError: truth value of an array ... is ambiguous
assert not isinstance(h, Exception), repr(h)
assert h.frequencies.tolist() == [1, 2] and h.overflow == 2
