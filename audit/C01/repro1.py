"""h1((name, values), ...) - the documented "groupby item" form - drops weights, dtype, keep_missed, ..."""
import warnings
import numpy as np
from physt import h1

warnings.simplefilter("ignore")
values = [0.5, 1.5, 1.5, 7.0]
weights = [2.0, 3.0, 4.0, 5.0]
edges = np.array([0.0, 1.0, 2.0])

plain = h1(values, edges, weights=weights)
named = h1(("x", values), edges, weights=weights)  # e.g. an item of df.groupby(...)["col"]

assert plain.frequencies.tolist() == [2.0, 7.0] and plain.overflow == 5.0  # sanity
assert named.name == "x"
# Each bin must hold the sum of the weights of its values (and errors2 the squared weights)
assert named.frequencies.tolist() == [2.0, 7.0], named.frequencies
assert named.errors2.tolist() == [4.0, 25.0], named.errors2
assert named.overflow == 5.0, named.overflow
# The other keyword arguments are lost too
assert h1(("x", values), edges, dtype=float).dtype == np.dtype(float)
assert np.isnan(h1(("x", values), edges, keep_missed=False).overflow)
