"""Bins given as a 2-D array of (left, right) pairs are not copied: the histogram shares them with the caller."""
import warnings
import numpy as np
from physt import h1

warnings.simplefilter("ignore")
data = [0.7, 1.5]
pairs = np.array([[0.0, 1.0], [1.0, 2.0]])
h = h1(data, pairs)
assert h.frequencies.tolist() == [1, 1]

pairs[0, 1] = pairs[1, 0] = 0.5  # the caller re-uses its own array for something else

# The finished histogram must still say where its contents were counted
assert h.bins.tolist() == [[0.0, 1.0], [1.0, 2.0]], h.bins.tolist()
for (left, right), frequency in zip(h.bins, h.frequencies):
    assert frequency == sum(left <= v < right for v in data)

# (1-D edges are copied, so there the problem does not exist)
edges = np.array([0.0, 1.0, 2.0])
h = h1(data, edges)
edges[1] = 0.5
assert h.bins.tolist() == [[0.0, 1.0], [1.0, 2.0]]
