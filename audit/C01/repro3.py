"""h1(..., dtype=<unsigned type>) silently wraps bin contents / squared errors around."""
import warnings
import numpy as np
from physt import h1

warnings.simplefilter("ignore")

def build(**kwargs):
    """The histogram, or None if the library refuses (which is fine as well)."""
    try:
        return h1(**kwargs)
    except (OverflowError, ValueError):
        return None

# 300 values in one bin; a signed dtype=np.int8 is refused with OverflowError, np.uint8 is not
h = build(data=[0.5] * 300, bins=[0, 1], dtype=np.uint8)
assert h is None or h.frequencies[0] == 300, h.frequencies  # 44 == 300 % 256

# One value of weight 20: the content fits, the squared error (400) does not
h = build(data=[0.5], bins=[0, 1], weights=[20], dtype=np.uint8)
assert h is None or (h.frequencies[0] == 20 and h.errors2[0] == 400), h.errors2  # 144 == 400 % 256

h = build(data=[0.5] * 70000, bins=[0, 1], dtype=np.uint16)
assert h is None or h.frequencies[0] == 70000, h.frequencies
