"""A value in a (tiny) gap between bins is counted nowhere, yet underflow/overflow read 0 instead of unknown."""
import warnings
import numpy as np
from physt import h1

warnings.simplefilter("ignore")
# Two bins given as pairs; 0.1 + 0.2 == 0.30000000000000004 > 0.3, so there is a gap: 0.3 is in neither bin
bins = [(0.0, 0.3), (0.1 + 0.2, 1.0)]
assert bins[0][1] < bins[1][0]
h = h1([0.3, 0.3], bins, weights=[2.0, 3.0])
assert h.frequencies.tolist() == [0.0, 0.0]  # correct: [0, 0.3) and [0.30000000000000004, 1] do not contain 0.3

accounted = h.total + h.underflow + h.overflow
# Promised: either all the weight is accounted for, or (gapped bins) under/overflow read as unknown (NaN)
assert np.isnan(accounted) or accounted == 5.0, (h.total, h.underflow, h.overflow)

# Same with the absolute tolerance: below 1e-8 any gap is ignored, here it is four bin widths wide
h = h1([3e-9], [(0.0, 1e-9), (5e-9, 6e-9)])
assert h.total == 0
accounted = h.total + h.underflow + h.overflow
assert np.isnan(accounted) or accounted == 1, (h.total, h.underflow, h.overflow)
