"""Integer weights above ~3.04e9: the squared errors wrap around in int64 (garbage or a spurious exception)."""
import warnings
import numpy as np
from physt import h1

warnings.simplefilter("ignore")
for weight in (5_000_000_000, 2**32, 4_000_000_000):
    try:
        h = h1([0.5], [0, 1], weights=[weight])
    except OverflowError:
        continue  # an honest refusal would be acceptable
    except ValueError as exc:  # 4e9: "Cannot have negative square errors."
        assert False, f"weight {weight}: {exc}"
    assert h.frequencies[0] == weight
    # "each bin's squared error is the sum of the squared weights"
    assert float(h.errors2[0]) == float(weight) ** 2, (weight, h.errors2[0])
