"""cylindrical_surface() with default arguments gives a histogram that cannot be serialised."""
import numpy as np
import physt
from physt.io import parse_json

points = np.array([[1.0, 0.0, 0.5], [0.0, 2.0, 1.5], [-1.0, 1.0, 0.7], [0.5, -0.5, 1.2]])
h = physt.cylindrical_surface(points, phi_bins=4, z_bins=2)

try:
    text = h.to_json()
except TypeError as exc:  # Object of type ndarray is not JSON serializable
    raise AssertionError(f"to_json() of a coordinate-transformed histogram failed: {exc}")

back = parse_json(text)
assert type(back) is type(h)
assert back == h
assert np.array_equal(back.frequencies, h.frequencies)
assert np.array_equal(np.asarray(back.radius), np.asarray(h.radius))
assert back.to_json() == text
