"""uint64 contents at and above 2**63 are silently changed by the round trip."""
import numpy as np
from physt.types import Histogram1D
from physt.io import parse_json
import warnings

big = 2**64 - 1
h = Histogram1D([0, 1, 2, 3], np.array([1, 2**63 + 1, big], dtype=np.uint64), dtype=np.uint64)
assert h.dtype == np.uint64 and h.frequencies.tolist() == [1, 2**63 + 1, big]

text = h.to_json()
with warnings.catch_warnings():
    warnings.simplefilter("ignore")
    back = parse_json(text)
assert back.dtype == np.uint64
assert back.frequencies.tolist() == h.frequencies.tolist(), (
    f"{h.frequencies.tolist()} -> {back.frequencies.tolist()}"
)
assert back.errors2.tolist() == h.errors2.tolist()
assert back.to_json() == text
