"""float128 is a declared supported dtype, but such histograms cannot be serialised."""
import sys
import numpy as np
from physt import h1
from physt.types import Histogram1D
from physt.io import parse_json

if not hasattr(np, "float128"):
    sys.exit(0)  # (Windows: no such type)
assert np.float128 in Histogram1D.SUPPORTED_DTYPES

h = h1([1.0, 2.0, 3.0, 7.0], 3, weights=[0.1, 0.2, 0.3, 0.4], dtype=np.float128)
assert h.dtype == np.float128
try:
    text = h.to_json()
except TypeError as exc:  # Object of type longdouble is not JSON serializable
    raise AssertionError(f"to_json() failed for dtype float128: {exc}")
back = parse_json(text)
assert back.dtype == h.dtype
assert back == h
assert back.to_json() == text
