"""Binnings keep numpy scalars given as arguments; such histograms cannot be serialised."""
import numpy as np
from physt import h1
from physt.binnings import FixedWidthBinning
from physt.types import Histogram1D
from physt.io import parse_json

data = np.array([1.0, 2.0, 3.0, 10.0, 20.5, 100.0])
candidates = {
    "exponential, bin_count=np.int64": lambda: h1(data, "exponential", bin_count=np.int64(4)),
    "exponential, float32 range": lambda: h1(
        data, "exponential", bin_count=2, range=(np.float32(1), np.float32(100))
    ),
    "fixed_width, bin_shift=np.float32": lambda: h1(
        data, "fixed_width", bin_width=10, bin_shift=np.float32(0.5)
    ),
    "FixedWidthBinning(min=np.float32)": lambda: Histogram1D(
        FixedWidthBinning(bin_width=1.0, bin_count=3, min=np.float32(0.5)), [1, 2, 3]
    ),
    "keep_missed=np.bool_": lambda: h1(data, 3, keep_missed=np.bool_(True)),
}
failures = []
for label, factory in candidates.items():
    h = factory()
    try:
        text = h.to_json()
        back = parse_json(text)
        assert type(back.binning) is type(h.binning), "binning type"
        assert np.array_equal(back.bins, h.bins) and back == h, "content"
        assert back.to_json() == text, "second serialisation"
    except Exception as exc:
        failures.append(f"{label}: {type(exc).__name__}: {exc}")
assert not failures, "\n" + "\n".join(failures)
