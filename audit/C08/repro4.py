"""Custom meta-data entries named like constructor arguments are lost / change the histogram."""
import numpy as np
from physt import h1, h2
from physt.io import parse_json

data = np.array([1.0, 2.0, 3.0, 10.0])
failures = []
for key, value, two_d in [
    ("stats", {"mean": 4.0}, False),
    ("dtype", "float32", False),
    ("axis_name", "q", False),
    ("missed", 3, False),
    ("dimension", 2, True),
]:
    h = h2(data, data, 2) if two_d else h1(data, 2)
    h.meta_data[key] = value  # "you can add any other. These are preserved when saving"
    text = h.to_json()
    try:
        back = parse_json(text)
        assert back.meta_data.get(key) == value, f"entry lost: {back.meta_data}"
        assert back.dtype == h.dtype, f"dtype {back.dtype}"
        assert back.axis_names == h.axis_names, f"axis names {back.axis_names}"
        assert back == h, "not equal"
        if not two_d:
            assert type(back.statistics) is type(h.statistics), f"statistics: {back.statistics!r}"
    except Exception as exc:
        failures.append(f"meta_data[{key!r}]: {type(exc).__name__}: {exc}")
assert not failures, "\n" + "\n".join(failures)
