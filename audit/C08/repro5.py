"""Missed weight of a 1D histogram with keep_missed=False does not survive the round trip."""
import json
import numpy as np
from physt import h1
from physt.io import parse_json

data = np.array([1.0, 2.0, 3.0, 10.0, 20.5, 100.0])
a = h1(data, 3, range=(2, 30), keep_missed=False)
b = h1(data, a.binning)  # keeps underflow = 1, overflow = 1
h = a + b  # keep_missed is False, the missed weight of b is carried along
assert h.keep_missed is False  # (h.missed is 2.0 here)

text = h.to_json()
back = parse_json(text)
assert back == h and back.keep_missed is False
assert back.missed == h.missed, f"missed: {h.missed} -> {back.missed}"
again = json.loads(back.to_json())
assert again["missed"] == json.loads(text)["missed"], "second serialisation differs"
