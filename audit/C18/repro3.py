"""C18: assigned / constructor arrays are kept by reference, later fills corrupt the contents."""
import numpy as np
from physt import h1
from physt.histogram1d import Histogram1D

# 1) "reset the errors to the Poisson ones": errors2 and frequencies become ONE array
h = h1([1.0, 2.0, 3.0], 3)  # frequencies [1, 1, 1]
h.errors2 = h.frequencies
h.fill(1.1)  # one more entry in the first bin
assert h.frequencies.tolist() == [2, 1, 1], f"one fill counted twice: {h.frequencies}"
assert h.errors2.tolist() == [2, 1, 1], h.errors2
assert h.total == 4

# 2) a histogram built from the contents of another one shares them
a = h1([1.0, 2.0, 3.0], 3)
b = Histogram1D(a.binning, a.frequencies)
b.fill(1.1)
assert a.frequencies.tolist() == [1, 1, 1], f"a changed by filling b: {a.frequencies}"

# 3) the same through the frequencies setter
c = h1([1.0, 2.0, 3.0], 3)
d = c.copy()
d.frequencies = c.frequencies
d.fill_n([1.1, 1.2])
assert c.frequencies.tolist() == [1, 1, 1], f"c changed by filling d: {c.frequencies}"
