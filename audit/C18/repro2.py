"""C18: making one histogram adaptive grows a binning object that other histograms still use."""
import numpy as np
from physt.binnings import FixedWidthBinning
from physt.histogram1d import Histogram1D
from physt.histogram_collection import HistogramCollection


def well_formed(h):
    return h.frequencies.shape == h.errors2.shape == tuple(h.shape) == (h.bins.shape[0],)


# 1) members of a collection (the library itself shares the binning object)
col = HistogramCollection.multi_h1(
    {"a": [0.5, 1.5, 2.5], "b": [0.5, 2.5]}, "fixed_width", bin_width=1
)
a, b = col["a"], col["b"]
assert well_formed(a) and well_formed(b)
a.adaptive = True
a.fill(7.5)
assert well_formed(a)
assert well_formed(b), f"b: {b.shape} bins but {b.frequencies.shape} frequencies"

# 2) two histograms constructed with the same (non-adaptive) binning
binning = FixedWidthBinning(bin_width=1, bin_count=3, min=0)
x = Histogram1D(binning, [1, 2, 3])
y = Histogram1D(binning, [4, 5, 6])
x.set_adaptive(True)
x.fill_n([10.5])
assert well_formed(x)
assert well_formed(y), f"y: {y.shape} bins but {y.frequencies.shape} frequencies"
assert not y.is_adaptive()
