"""C18: non-negative weights of a narrow integer type give negative / wrong squared errors."""
import warnings
import numpy as np
from physt import h1, h2

warnings.simplefilter("ignore")

# fill with a numpy scalar weight: 200**2 is computed in int16 and wraps to -25536
h = h1([1.0, 2.0, 3.0], 3)
h.fill(1.1, weight=np.int16(200))
assert h.frequencies[0] == 201
assert (h.errors2 >= 0).all(), f"negative squared error after fill: {h.errors2}"
assert h.errors2[0] == 1 + 200**2, h.errors2

# fill_n with an int8 weight array: 12**2 wraps to -112
g = h1([1.0, 2.0, 3.0], 3)
g.fill_n([1.1], weights=np.array([12], dtype=np.int8))
assert (g.errors2 >= 0).all(), f"negative squared error after fill_n: {g.errors2}"
assert g.errors2[0] == 1 + 12**2, g.errors2

# the same in N dimensions
k = h2([1.0, 2.0, 3.0], [1.0, 2.0, 3.0], 2)
k.fill_n([[1.1, 1.1]], weights=np.array([12], dtype=np.int8))
assert (k.errors2 >= 0).all(), f"negative squared error after ND fill_n: {k.errors2}"
k.fill([1.1, 1.1], weight=np.int8(12))
assert (k.errors2 >= 0).all(), f"negative squared error after ND fill: {k.errors2}"

# construction: valid weights are refused (int8) or squared modulo 256 (uint8: 20**2 -> 144)
c = h1([1.0, 2.0, 3.0], 3, weights=np.array([12, 20, 3], dtype=np.int8))
assert c.errors2.tolist() == [144, 400, 9], c.errors2
u = h1([1.0, 2.0, 3.0], 3, weights=np.array([12, 20, 3], dtype=np.uint8))
assert u.errors2.tolist() == [144, 400, 9], u.errors2
