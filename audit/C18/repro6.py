"""C18: missed counters become negative (subtraction, negative factor, rounding residue)."""
import warnings
import numpy as np
from physt import h1, h2

warnings.simplefilter("ignore")

# 1) subtracting a histogram with more overflow than there is
x = h1([0.5, 1.5, 2.5], [0, 1, 2, 3])
y = h1([0.5, 7.0, 8.0], [0, 1, 2, 3])  # overflow 2
try:
    z = x - y
except ValueError:
    pass  # refusing is fine
else:
    assert z.overflow >= 0 and z.missed >= 0, f"overflow {z.overflow} after subtraction"

# 2) a negative factor is accepted when all the weight sits in the missed counters
m = h1([7.0], [0, 1, 2, 3])
assert m.overflow == 1
try:
    m *= -1
except (ValueError, TypeError):
    pass
assert m.overflow >= 0, f"overflow {m.overflow} after h *= -1"

# 3) ND with weights: nothing misses the bins, yet missed is the rounding residue of two sums
n = h2([0.5, 1.5, 0.5], [0.5, 0.5, 1.5], bins=[[0, 1, 2], [0, 1, 2]], weights=np.array([0.1, 0.4, 0.2]))
assert n.missed >= 0, f"missed = {n.missed!r} with non-negative weights"
p = h2([0.5, 1.5, 0.5], [0.5, 0.5, 1.5], "fixed_width", bin_width=1, adaptive=True, weights=np.array([0.1, 0.2, 0.4]))
q = h2([3.5, 4.5, 3.5], [0.5, 0.5, 1.5], "fixed_width", bin_width=1, adaptive=True, weights=np.array([0.1, 0.2, 0.4]))
assert p.missed == 0 and q.missed == 0, (p.missed, q.missed)
assert abs((p + q).total - 1.4) < 1e-12  # currently: "Cannot adapt histogram with missed values."
