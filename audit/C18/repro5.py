"""C18: HistogramND.set_dtype does not check the missed counter: it wraps around / is truncated."""
import numpy as np
from physt import h2
from physt.histogram_nd import Histogram2D

h = h2([0.5], [0.5], bins=[[0, 1], [0, 1]])
h.fill_n(np.full((70000, 2), 5.0))  # all outside the bins
assert h.total == 1 and h.missed == 70000
try:
    h.dtype = np.int16  # contents (1) fit, the missed count does not
except ValueError:
    pass
assert h.missed == 70000, f"missed count changed from 70000 to {h.missed}"

g = Histogram2D([[0, 1], [0, 1]], [[2.0]])
g.fill([5, 5], weight=0.5)
assert g.missed == 0.5
try:
    g.set_dtype(np.int64)  # contents are integral, the missed weight is not
except ValueError:
    pass
assert g.missed == 0.5, f"missed weight changed from 0.5 to {g.missed}"
