"""C18: operations that raise half-way leave the histogram partially modified."""
import warnings
import numpy as np
from physt import h1
from physt.histogram_collection import HistogramCollection

warnings.simplefilter("ignore")


def check(name, operation):
    h = h1([1.0, 2.0, 3.0], 3)
    before = (h.frequencies.tolist(), h.errors2.tolist(), h.missed)
    try:
        operation(h)
    except Exception as exc:
        after = (h.frequencies.tolist(), h.errors2.tolist(), h.missed)
        assert after == before, f"{name}: {type(exc).__name__} raised, but {before} -> {after}"


def imul(h, k): h *= k
def idiv(h, k): h /= k

check("h *= 1e200", lambda h: imul(h, 1e200))           # OverflowError in scalar**2
check("h *= 2**40", lambda h: imul(h, 2**40))           # OverflowError in errors2 * 2**80
check("h *= int16(200)", lambda h: imul(h, np.int16(200)))  # ValueError from errors2 setter
check("h /= int16(200)", lambda h: idiv(h, np.int16(200)))
check("fill weight=1e200", lambda h: h.fill(1.1, weight=1e200))
check("fill weight=2**40", lambda h: h.fill(1.1, weight=2**40))
check("fill complex", lambda h: h.fill(1.1 + 2j))       # TypeError from min() in statistics

# A collection: the first member is normalized before the empty one is refused
col = HistogramCollection.multi_h1({"a": [0.5, 1.5], "e": [0.5, 1.5]}, "fixed_width", bin_width=1)
col["e"].frequencies = [0, 0]
try:
    col.normalize_all(inplace=True)
except ZeroDivisionError:
    assert col["a"].frequencies.tolist() == [1, 1], f"member a changed: {col['a'].frequencies}"
