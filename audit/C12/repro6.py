"""C12 / finding 6: a - b fails for adaptive histograms although a + b works."""
import warnings
from physt import h1

warnings.simplefilter("ignore")  # "Subtracting histograms is considered to be a bad idea."
a = h1([0.5, 1.5, 1.6, 2.5], "fixed_width", bin_width=1, adaptive=True)  # bins 0..3: 1 2 1
b = h1([1.5, 4.5], "fixed_width", bin_width=1, adaptive=True).copy(include_frequencies=False)
b.fill(1.5)  # bins 1..5: 1 0 0 0

total = a + b  # the bins of both operands are adapted to each other
assert total.bin_left_edges.tolist() == [0, 1, 2, 3, 4]
assert total.frequencies.tolist() == [1, 3, 1, 0, 0]

try:
    diff = a - b
except ValueError as exc:
    raise AssertionError(f"a - b raised {exc!r}") from exc
assert diff.shape == diff.frequencies.shape == diff.errors2.shape == (5,)
assert diff.bin_left_edges.tolist() == [0, 1, 2, 3, 4]
assert diff.frequencies.tolist() == [1, 1, 1, 0, 0]
assert a.frequencies.tolist() == [1, 2, 1] and b.frequencies.tolist() == [1, 0, 0, 0]  # operands untouched
