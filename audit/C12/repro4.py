"""C12 / finding 4: set_adaptive() on one histogram changes (and then corrupts) another.

Non-adaptive binning objects are shared between histograms; set_adaptive(True)
flips the shared object in place, and the next fill grows it under the feet of
the other histogram.
"""
from physt import collection, h1


def well_formed(h):
    return h.frequencies.shape == h.shape == h.errors2.shape


problems = []

# (i) members of a *copied* collection
col = collection({"a": [0.5, 1.5, 2.5], "b": [0.5, 1.5, 1.6]}, "fixed_width", bin_width=1)
dup = col.copy()
dup["a"].adaptive = True
dup["a"].fill(9.5)
if dup["b"].is_adaptive() or not well_formed(dup["b"]):
    problems.append(
        f"collection copy: sibling has {dup['b'].frequencies.shape[0]} values for {dup['b'].shape[0]} bins"
    )

# (ii) a histogram created over the binning of another one
a = h1([0.5, 1.5, 2.5], "fixed_width", bin_width=1)
b = h1([0.7, 1.7], a.binning)
b.set_adaptive(True)
b.fill(9.5)
if a.is_adaptive() or not well_formed(a):
    problems.append(f"h1(data, a.binning): a has {a.frequencies.shape[0]} values for {a.shape[0]} bins")

assert not problems, "\n".join(problems)
