"""C12 / finding 5: a HistogramND whose missed weight is unknown (NaN) has no equal copy."""
import numpy as np
from physt import h1, h2
from physt.config import config
from physt.io import parse_json

problems = []
with config.enable_free_arithmetics():
    g1 = h1([0.5, 1.5, 2.5], "fixed_width", bin_width=1) + np.ones(3, dtype=int)
    g2 = h2([0.5, 1.5, 2.5], [0.5, 1.5, 2.5], "fixed_width", bin_width=1) + np.ones((3, 3), dtype=int)

# The documented free arithmetics marks the missed weight as unknown; 1D copes with it
assert np.isnan(g1.missed) and g1.copy() == g1 and parse_json(g1.to_json()) == g1

if not g2.copy() == g2:
    problems.append("HistogramND.copy() is not == to the original")
try:
    if not parse_json(g2.to_json()) == g2:
        problems.append("JSON round trip of the HistogramND is not == to the original")
except ValueError as exc:
    problems.append(f"JSON round trip of the HistogramND raised {exc!r}")

assert not problems, "\n".join(problems)
