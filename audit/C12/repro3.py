"""C12 / finding 3: accumulate() of a small-integer histogram is not well-formed."""
import numpy as np
from physt import h2

h = h2([0.5, 1.5, 2.5], [0.5, 1.5, 2.5], "fixed_width", bin_width=1, dtype=np.int32)
acc = h.accumulate(0)

# The source is untouched ...
assert h.dtype == h.frequencies.dtype == h.errors2.dtype == np.int32
# ... but the derived histogram reports one dtype and stores another
assert acc.frequencies.dtype == acc.dtype, (
    f"accumulate(): dtype is {acc.dtype} but frequencies are {acc.frequencies.dtype} "
    f"(errors2 are {acc.errors2.dtype})"
)
