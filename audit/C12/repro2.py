"""C12 / finding 2: HistogramCollection.copy() raises for legitimate collections."""
from physt import collection
from physt.binnings import fixed_width_binning
from physt.histogram_collection import HistogramCollection

problems = []

# (i) a collection that has no members yet
empty = HistogramCollection(
    binning=fixed_width_binning(bin_width=1, range=(0, 3)), name="c", title="t"
)
try:
    dup = empty.copy()
    assert dup == empty and dup.binning == empty.binning and dup.name == "c"
    dup.create("a", [0.5, 1.5])
    assert len(empty) == 0 and len(dup) == 1
except ValueError as exc:
    problems.append(f"empty collection: copy() raised {exc!r}")

# (ii) an adaptive collection after one member has grown
col = collection({"a": [0.5, 1.5], "b": [0.5, 2.5]}, "fixed_width", bin_width=1, adaptive=True)
col["a"].fill(7.5)
try:
    dup = col.copy()
    assert dup == col
except ValueError as exc:
    problems.append(f"adaptive collection after a fill: copy() raised {exc!r}")

assert not problems, "\n".join(problems)
