"""C12 / finding 1: a histogram built from another histogram's arrays shares them.

The class constructor (without dtype=) and the frequencies / errors2 setters keep
a reference to the array they are given, so two histograms end up with one buffer
and a later fill on one changes what the other one reports.
"""
import numpy as np
from physt import h1
from physt.histogram1d import Histogram1D

problems = []

# (i) class constructor
a = h1([0.5, 1.5, 2.5], "fixed_width", bin_width=1)
b = Histogram1D(a.binning, a.frequencies, a.errors2)
b.fill(0.5)
if a.frequencies.tolist() != [1, 1, 1]:
    problems.append(f"constructor: source now reports {a.frequencies.tolist()}")

# (ii) property setter
a = h1([0.5, 1.5, 2.5], "fixed_width", bin_width=1)
c = a.copy(include_frequencies=False)
c.frequencies = a.frequencies
c.errors2 = a.errors2
c.fill_n([0.5, 0.6])
if a.frequencies.tolist() != [1, 1, 1] or a.errors2.tolist() != [1, 1, 1]:
    problems.append(f"setter: source now reports {a.frequencies.tolist()} +- {a.errors2.tolist()}")

# (iii) xarray round trip (same root cause, public pair to_xarray / from_xarray)
import physt.compat.xarray  # noqa: F401

a = h1([0.5, 1.5, 2.5], "fixed_width", bin_width=1)
d = Histogram1D.from_xarray(a.to_xarray())
d.fill(2.5)
if a.frequencies.tolist() != [1, 1, 1]:
    problems.append(f"from_xarray(to_xarray()): source now reports {a.frequencies.tolist()}")

assert not problems, "\n".join(problems)
