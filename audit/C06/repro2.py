"""Positive scaling keeps the recorded mean/variance and scales the recorded weight by c (C06)."""
import warnings
import numpy as np
from physt.histogram1d import Histogram1D

warnings.simplefilter("ignore")
h = Histogram1D([0, 5, 10])
h.fill_n(np.linspace(0, 10, 100001))
s = h.statistics
assert s.weight == 100001 and np.isclose(s.mean(), 5.0)
for c in (np.float32(3), np.float16(2), np.float16(3)):
    for label, r, k in (("h*c", h * c, float(c)), ("c*h", c * h, float(c)), ("h/c", h / c, 1 / float(c))):
        t = r.statistics
        assert np.isclose(r.total, h.total * k, rtol=1e-9)  # the contents are fine
        assert np.isclose(float(t.weight), s.weight * k, rtol=1e-9, atol=0), (
            f"{label}, c={c!r}: weight {t.weight!r}, expected {s.weight * k}")
        assert np.isclose(float(t.mean()), s.mean(), rtol=1e-9, atol=0), (
            f"{label}, c={c!r}: mean {t.mean()!r}, expected {s.mean()}")
        assert np.isclose(float(t.variance()), s.variance(), rtol=1e-9, atol=0), (label, c, t.variance())
        assert (t.min, t.max) == (s.min, s.max)
print("OK")
