"""normalize_bins makes the members' shares in each bin sum to 1 - also for adaptive collections (C06)."""
import warnings
import numpy as np
from physt.binnings import FixedWidthBinning
from physt.histogram_collection import HistogramCollection

warnings.simplefilter("ignore")
for inplace in (False, True):
    col = HistogramCollection(binning=FixedWidthBinning(bin_width=1.0, adaptive=True))
    col.create("a", [1.5, 2.5, 2.6])
    col.create("b", [1.5, 4.5])
    try:
        result = col.normalize_bins(inplace=inplace)
    except Exception as exc:
        state = [h.frequencies.tolist() for h in col]
        raise AssertionError(
            f"normalize_bins(inplace={inplace}) raised {type(exc).__name__}: {exc}; members now {state}")
    total = result.sum().frequencies
    filled = col.sum().frequencies > 0
    assert np.allclose(total[filled], 1), total
print("OK")
