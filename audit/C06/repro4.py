"""An in-place scaling either happens completely or leaves the histogram untouched (C06)."""
import numpy as np
from physt.histogram1d import Histogram1D

c = 2**32  # finite python int; contents * c fit into int64
h = Histogram1D([0, 1, 2], [1, 2], underflow=1)
f0, e0, m0, d0 = h.frequencies.copy(), h.errors2.copy(), h._missed.copy(), h.dtype
try:
    h *= c
except Exception as exc:  # noqa
    # (a result is promised, but if it is refused, nothing may have changed)
    assert np.array_equal(h.frequencies, f0) and np.array_equal(h.errors2, e0), (
        f"{type(exc).__name__} raised, but histogram half-scaled: "
        f"frequencies={h.frequencies}, errors2={h.errors2}, missed={h._missed}")
else:
    assert np.allclose(h.frequencies.astype(float), f0 * float(c))
    assert np.allclose(h.errors2.astype(float), e0 * float(c) ** 2)
    assert np.allclose(h._missed, m0 * float(c))

# A refused (negative) in-place factor must not change the operand either
g = Histogram1D([0, 1, 2], [1, 2])
for op in (lambda: g.__imul__(-1.5), lambda: g.__itruediv__(-2)):
    try:
        op()
        raise AssertionError("negative factor accepted")
    except (TypeError, ValueError):
        pass
    assert g.dtype == np.int64 and g.frequencies.dtype == np.int64, (
        f"refused operation changed dtype to {g.dtype}")
print("OK")
