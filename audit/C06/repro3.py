"""Negative factors must be refused (free arithmetics is off) - also when all bins are empty (C06)."""
import numpy as np
from physt.histogram1d import Histogram1D
from physt.histogram_nd import Histogram2D

h = Histogram1D([0, 1, 2])
h.fill(-5)             # underflow
h.fill(7, weight=2)    # overflow
assert h.total == 0 and h.underflow == 1 and h.overflow == 2
g = Histogram2D([[0, 1, 2], [0, 1, 2]])
g.fill([5, 5])         # missed
assert g.missed == 1
attempts = {
    "h1 * -1": lambda: h * -1, "-1.0 * h1": lambda: -1.0 * h, "h1 / -2": lambda: h / -2,
    "h1 * np.int64(-3)": lambda: h * np.int64(-3), "h1 *= -1": lambda: h.copy().__imul__(-1),
    "h2 * -1": lambda: g * -1, "h2 / -2.0": lambda: g / -2.0,
}
accepted = []
for label, attempt in attempts.items():
    try:
        result = attempt()
    except (TypeError, ValueError):
        continue  # refused, as promised
    accepted.append((label, result._missed.tolist()))
assert not accepted, f"negative factors accepted, missed counters now: {accepted}"
print("OK")
