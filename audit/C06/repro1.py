"""h * c / h / c must scale errors2 by c*c for every finite numpy scalar c (C06)."""
import warnings
import numpy as np
from physt.histogram1d import Histogram1D

warnings.simplefilter("ignore")
h = Histogram1D([0, 1, 2, 3], [1, 2, 3])  # int64 contents, errors2 == contents
scalars = [np.int8(16), np.uint8(20), np.int32(70000), np.int8(20), np.int16(200),
           np.float16(300), np.float32(1e20), np.float16(0.1)]
for c in scalars:
    k = float(c)  # exact value of the scalar; k*k fits easily into int64 / float64
    prod = h * c
    assert np.allclose(prod.frequencies, h.frequencies * k), (c, prod.frequencies)
    assert np.allclose(prod.errors2, h.errors2 * k * k, rtol=1e-9), (
        f"h * {c!r}: errors2 = {prod.errors2}, expected {h.errors2 * k * k}")
    assert np.allclose((c * h).errors2, prod.errors2)
    quot = h / c
    assert np.allclose(quot.errors2, h.errors2 / (k * k), rtol=1e-9), (
        f"h / {c!r}: errors2 = {quot.errors2}, expected {h.errors2 / (k * k)}")
    back = prod / c
    assert np.allclose(back.errors2, h.errors2, rtol=1e-9), (c, back.errors2)
print("OK")
