"""In-place (partial) normalisation of one histogram must not change another one (C06)."""
import numpy as np
from physt.histogram1d import Histogram1D
from physt.histogram_nd import Histogram2D
from physt.histogram_collection import HistogramCollection

# 1) a second histogram created from the contents of the first
h = Histogram2D([[0, 1, 2], [0, 1, 2]], [[1.0, 2.0], [3.0, 4.0]])
g = Histogram2D(h.binnings, h.frequencies, name="same contents")
before = h.frequencies.copy()
g.partial_normalize(0, inplace=True)
assert np.allclose(g.frequencies.sum(axis=0), 1)
untouched = np.array_equal(h.frequencies, before)

# 2) the same in a collection: shares in each bin must sum to 1
a = Histogram1D([0, 1, 2, 3], [1.0, 2.0, 3.0], name="a")
b = Histogram1D(a.binning, a.frequencies, name="b")
col = HistogramCollection(a, b)
col.normalize_bins(inplace=True)
shares = a.frequencies + b.frequencies

assert untouched, f"partial_normalize(inplace=True) of g changed h: {h.frequencies.tolist()}"
assert np.allclose(shares, 1), f"shares sum to {shares}"
print("OK")
