"""HistogramND.fill_n wraps the contents around in the (small) integer dtype of the weights."""
import numpy as np
from physt import h2

for weights in (np.array([200, 200], dtype=np.uint8), np.array([30000, 30000], dtype=np.int16)):
    h = h2(None, None, "fixed_width", bin_width=1, adaptive=True)
    h.fill_n([[0.5, 0.5], [0.5, 0.5]], weights=weights)
    expected = int(weights.astype(np.int64).sum())
    assert h.missed == 0, f"missed = {h.missed} although both points are inside the bins"
    assert h.total == expected, f"total = {h.total}, weight entered = {expected}"
    assert (h.frequencies >= 0).all() and (h.errors2 >= 0).all()
