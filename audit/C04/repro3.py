"""Switching a right-edge-inclusive fixed-width histogram to adaptive detaches old contents."""
import sys
import numpy as np
from physt import h1

data = [0.5, 2.0]
h = h1(data, "fixed_width", bin_width=1, includes_right_edge=True)   # bins [0,1) [1,2], 2.0 in the last
assert h.frequencies.tolist() == [1, 1]
try:
    h.adaptive = True        # FixedWidthBinning(adaptive=True, includes_right_edge=True) is refused ...
except (ValueError, RuntimeError):
    sys.exit(0)              # ... and refusing here would be fine, too
h.fill(3.5)                  # grows the bins to 0..4
edges = h.numpy_bins
assert edges.tolist() == [0, 1, 2, 3, 4]
expected, _ = np.histogram(data + [3.5], edges)      # 2.0 belongs to [2, 3) now
assert h.frequencies.tolist() == expected.tolist(), (h.frequencies.tolist(), expected.tolist())
