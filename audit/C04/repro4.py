"""adaptive=True together with range=: data outside the range end in underflow/overflow."""
from physt import h1, h2

data = [0.5, 5.5, 100.5]
h = h1(data, "fixed_width", bin_width=1, adaptive=True, range=(0, 10))
assert h.is_adaptive()
assert h.underflow == 0 and h.overflow == 0, f"overflow = {h.overflow} in an adaptive histogram"
assert h.total == 3
assert h.bins[0, 0] <= 0.5 and 100.5 < h.bins[-1, 1]

g = h2([0.5, 50.5], [0.5, 0.5], "fixed_width", bin_width=1, adaptive=True, range=(0, 10))
assert g.missed == 0 and g.total == 2, (g.missed, g.total)
