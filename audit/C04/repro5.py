"""A fill that fails while the bins grow leaves the histogram corrupted (bins grown, contents not)."""
import numpy as np
from physt import h1, h2
from physt.binnings import FixedWidthBinning
from physt.histogram1d import Histogram1D

# (a) a far-away value: 10**15 bins cannot be allocated, the fill has to be refused - cleanly
h = h1([0.5], "fixed_width", bin_width=1, adaptive=True)
try:
    h.fill(1e15)
except Exception:
    pass
assert h.frequencies.shape == tuple(h.shape), (h.frequencies.shape, h.shape)
assert h.fill(0.5) == 0 and h.total == 2          # still usable

# (b) same for a point of the wrong length in 2D
g = h2([0.5], [0.5], "fixed_width", bin_width=1, adaptive=True)
try:
    g.fill([5.5, 7.5, 1.0])
except Exception:
    pass
assert g.shape == (1, 1), f"refused point has grown the bins to {g.shape}"

# (c) a legitimate fill that fails: the first bin index given as a numpy integer
b = FixedWidthBinning(bin_width=1.0, bin_count=2, bin_times_min=np.int64(3), adaptive=True)
k = Histogram1D(b)                                  # bins [3, 4) [4, 5)
try:
    k.fill(0.5)                                     # needs three more bins on the left
finally:
    assert k.frequencies.shape == tuple(k.shape), (k.frequencies.shape, k.shape)
assert k.total == 1 and k.bins[0].tolist() == [0.0, 1.0]
