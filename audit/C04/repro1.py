"""float32 values are lost by adaptive histograms (ND fill_n / fill, 1D fill)."""
import numpy as np
from physt import h1, h2

v = np.float32(100000.5)            # exactly representable in float32 (and float64)
assert float(v) == 100000.5

# 2D: fill_n with a float32 array (the everyday dtype of many data sources)
h = h2(None, None, "fixed_width", bin_width=0.001, adaptive=True)
h.fill_n(np.array([[100000.5, 1.0]], dtype=np.float32))
e0 = h.edges[0]
assert e0[0] <= 100000.5 < e0[-1], f"value outside the grown bins {e0}"
assert h.total == 1 and h.missed == 0, (h.total, h.missed)

# 2D: fill with a float32 point
h = h2(None, None, "fixed_width", bin_width=0.001, adaptive=True)
h.fill(np.array([100000.5, 1.0], dtype=np.float32))
assert h.total == 1 and h.missed == 0, (h.total, h.missed)

# 1D: fill with a float32 scalar
g = h1(None, "fixed_width", bin_width=0.001, adaptive=True)
g.fill(v)
assert g.total == 1 and g.underflow == 0 and g.overflow == 0, (g.total, g._missed)
assert g.bins[0, 0] <= 100000.5 < g.bins[-1, 1]
