"""Weighted HistogramND.fill_n reports a non-zero `missed` for data that are all inside the bins."""
from physt import h2

a = h2(None, None, "fixed_width", bin_width=1, adaptive=True)
a.fill_n([[2.5, 2.5], [1.5, 1.5], [0.5, 0.5]], weights=[0.1, 0.2, 0.3])
assert a.shape == (3, 3) and abs(a.total - 0.6) < 1e-12      # every point is in a bin
assert a.missed == 0, f"missed = {a.missed!r}"

# consequence: the histogram cannot be added to another adaptive one any more
b = h2([7.5], [7.5], "fixed_width", bin_width=1, adaptive=True)
c = b + a     # ValueError: Cannot adapt histogram with missed values.
assert abs(c.total - 1.6) < 1e-12 and c.missed == 0
