"""C06 - scaling, division and normalisation are exactly linear.

E2: BFS over chains of scalings (state = exact rational cumulative factor + dtype kind) on a set of
base histograms; E1: single operations with inexact scalars, normalisations, refusals.
"""
from __future__ import annotations

import itertools
import math
import re
from fractions import Fraction

import numpy as np

from mc import histories as H
from mc.core import Partial, V
from mc.outcome import call
from mc.refmodel import eq_exact, frac, ulp_close
from mc.snapshot import content_snap, diff, fl, snap

ID = "C06"
LEVEL = "model_checking"
RULE = (
    "Base histograms: 1D int (with under/overflow), 1D float weights, 1D custom errors2 + inner_missed, 1D adaptive, 2D and 3D with "
    "missed values, polar. (1) BFS over chains of <= D scalings h*c, c*h, h/c, h*=c, h/=c with exact scalars {2,3,4,0.5,0.25,1.5} "
    "given as int/float/np.int64/np.float32/np.float64: state = (rational factor, dtype kind); every state is compared with "
    "contents*f, errors2*f^2, missed*f, statistics (weight*f, mean/variance/min/max invariant), bins and operand untouched, "
    "confluence over all chains with equal factor. (2) single operations with inexact scalars {0.1, 7.3, 1e-3, 1/3}: correctly "
    "rounded products (<= 2 ulp for errors2), commutation, (h*c)/c. (3) normalize(inplace, percent), partial_normalize(axis, "
    "by index/name, inplace), collection normalize_bins / normalize_all. (4) refusals: h*h, h/h, c/h, negative factor, array / "
    "list / str operand, with the operand unchanged. Non-trivial: every case except multiplication by 1."
)
ASSUMPTIONS = [
    "exact scalars are dyadic so every product in a chain is exact; inexact scalars are checked for one step only",
    "h/0 and normalize() of an empty histogram are left open (C18 judges the state after the exception)",
    "a negative factor on an all-zero histogram produces no negative content and may be accepted",
]
BOUNDS = {"quick": "chains <= 3 on 8 base histograms, 21 typed scalars x 5 operations", "thorough": "chains <= 6 (7 on the int and 2D bases), float16/32/128 base dtypes"}
BUDGET = {"quick": 240, "thorough": 3000}


def exc_sig(e):
    msg = re.sub(r"[^A-Za-z ]+", "", str(e))[:40].strip()
    return f"{type(e).__name__}:{msg}"


# scalar alphabet: (tag, value factory)
def scalar(tag):
    kind, val = tag
    v = {"2": 2, "3": 3, "4": 4, "0.5": 0.5, "0.25": 0.25, "1.5": 1.5, "1": 1, "0.1": 0.1, "7.3": 7.3, "1e-3": 1e-3, "third": 1.0 / 3.0}[val]
    if kind == "py":
        return v
    if kind == "np.int64":
        return np.int64(v)
    if kind == "np.float32":
        return np.float32(v)
    if kind == "np.float64":
        return np.float64(v)
    raise ValueError(kind)


EXACT = [("py", "2"), ("py", "3"), ("py", "4"), ("py", "0.5"), ("py", "0.25"), ("py", "1.5"),
         ("np.int64", "2"), ("np.int64", "3"), ("np.float32", "0.5"), ("np.float32", "2"), ("np.float64", "0.25"), ("np.float64", "4"), ("py", "1")]
INEXACT = [("py", "0.1"), ("py", "7.3"), ("py", "1e-3"), ("py", "third"), ("np.float64", "0.1"), ("np.float64", "7.3")]
OPS = ["mul", "rmul", "div", "imul", "idiv"]


def is_int_scalar(tag):
    return tag[0] == "np.int64" or (tag[0] == "py" and tag[1] in ("1", "2", "3", "4"))


def bases():
    from physt import h1, h2, h3, polar
    from physt.types import Histogram1D

    rng = None
    out = {}
    out["1d_int"] = lambda: h1(np.array([-1.0, 0.5, 0.5, 1.5, 2.25, 2.5, 2.5, 2.5, 7.0, 8.0]), np.array([0.0, 1.0, 2.0, 4.0]))
    out["1d_float"] = lambda: h1(np.array([-1.0, 0.5, 0.5, 1.5, 2.25, 7.0]), np.array([0.0, 1.0, 2.0, 4.0]), weights=np.array([0.5, 0.25, 1.0, 2.0, 0.125, 4.0]))
    out["1d_custom_err"] = lambda: Histogram1D(np.array([0.0, 1.0, 3.0, 3.5]), [4, 0, 6], errors2=[1, 16, 2.5], underflow=3, overflow=1, inner_missed=2, dtype=float)
    out["1d_adaptive"] = lambda: h1(np.array([0.5, 2.5, 2.75, 4.0]), "fixed_width", bin_width=1.0, adaptive=True)
    out["1d_float32"] = lambda: h1(np.array([0.5, 1.5, 1.5]), np.array([0.0, 1.0, 2.0]), dtype=np.float32)
    out["2d"] = lambda: h2(np.array([0.5, 0.5, 1.5, 9.0, 1.0]), np.array([0.25, 2.5, 1.0, 1.0, -4.0]), [np.array([0.0, 1.0, 2.0]), np.array([0.0, 0.5, 2.0, 3.0])])
    out["2d_w"] = lambda: h2(np.array([0.5, 0.5, 1.5, 9.0]), np.array([0.25, 2.5, 1.0, 1.0]), [np.array([0.0, 1.0, 2.0]), np.array([0.0, 0.5, 2.0, 3.0])], weights=np.array([0.5, 2.0, 0.25, 8.0]))
    out["3d"] = lambda: h3(np.array([[0.5, 0.5, 0.5], [1.5, 0.5, 2.5], [1.5, 0.5, 2.5], [5.0, 5.0, 5.0]]), [np.array([0.0, 1.0, 2.0]), np.array([0.0, 1.0]), np.array([0.0, 1.0, 2.0, 3.0])])
    out["polar"] = lambda: polar(np.array([1.0, 0.0, -1.0, 3.0]), np.array([0.0, 1.0, 1.0, 4.0]), radial_bins=np.array([0.0, 1.5, 3.0]), phi_bins=4)
    return out


def base_exact(h):
    """exact rational description of a histogram: contents, errors2, missed list, stats."""
    d = {
        "c": [frac(x) for x in h.frequencies.ravel().tolist()],
        "e2": [frac(x) for x in h.errors2.ravel().tolist()],
    }
    if h.ndim == 1 and hasattr(h, "underflow"):
        d["missed"] = [frac(float(h.underflow)), frac(float(h.overflow)), frac(float(h.inner_missed))]
    else:
        d["missed"] = [frac(float(h.missed))]
    st = getattr(h, "statistics", None)
    d["stats"] = None
    if st is not None and not math.isnan(st.weight):
        d["stats"] = {"sum": frac(st.sum), "sum2": frac(st.sum2), "weight": frac(st.weight), "min": st.min, "max": st.max}
    return d


def observed_missed(h):
    if h.ndim == 1 and hasattr(h, "underflow"):
        return [h.underflow, h.overflow, h.inner_missed]
    return [h.missed]


class ScaleSystem(H.System):
    def __init__(self, base_name, depth, scalars=EXACT):
        self.base_name = base_name
        self.depth = depth
        self.scalars = scalars
        self.factory = bases()[base_name]
        h0 = self.factory()
        self.exact = base_exact(h0)
        self.kind0 = "f" if np.dtype(h0.dtype).kind == "f" else "i"
        self.bins0 = snap(h0)["binnings"]

    def init(self):
        return (Fraction(1), self.kind0, 0), self.factory()

    def key(self, model):
        return (model[0], model[1])

    def ops(self, model):
        if model[2] >= self.depth:
            return []
        # division is exact only for powers of two
        return [(op, tag) for op in OPS for tag in self.scalars if not (op in ("div", "idiv") and tag[1] in ("3", "1.5"))]

    def describe(self, hist, op):
        return {"base": self.base_name, "history": H.listify(hist), "op": H.listify(op)}

    def confluence_signature(self, model, a, b):
        return f"confluence|{self.base_name}|{'+'.join(sorted(diff(a, b)))}"

    def snap(self, obj):
        s = snap(obj, meta=False, stats=False)
        s.pop("dtype")  # float32 bases: the concrete float type depends on the path, the kind does not
        s["frequencies"] = s["frequencies"][1:]
        s["errors2"] = s["errors2"][1:]
        return s

    def nontrivial(self, model, op, model2):
        return op[1][1] != "1"

    def check_state(self, obj, factor, kind):
        probs = []
        ex = self.exact
        c = [x * factor for x in ex["c"]]
        e2 = [x * factor * factor for x in ex["e2"]]
        ms = [x * factor for x in ex["missed"]]
        freq = obj.frequencies.ravel().tolist()
        err = obj.errors2.ravel().tolist()
        if not all(eq_exact(o, e) for o, e in zip(freq, c)):
            probs.append(("frequencies", [float(x) for x in c], freq))
        if not all(eq_exact(o, e) for o, e in zip(err, e2)):
            probs.append(("errors2", [float(x) for x in e2], err))
        om = observed_missed(obj)
        if not all(eq_exact(o, e) for o, e in zip(om, ms)):
            probs.append(("missed", [float(x) for x in ms], [fl(x) for x in om]))
        if snap(obj)["binnings"] != self.bins0:
            probs.append(("bins", "unchanged", "changed"))
        k = np.dtype(obj.dtype).kind
        if (k == "f") != (kind == "f"):
            probs.append(("dtype_kind", kind, str(obj.dtype)))
        if obj.frequencies.dtype != np.dtype(obj.dtype) or obj.errors2.dtype != np.dtype(obj.dtype):
            probs.append(("dtype_consistency", str(obj.dtype), [str(obj.frequencies.dtype), str(obj.errors2.dtype)]))
        if ex["stats"] is not None:
            st = obj.statistics
            s = ex["stats"]
            if not (eq_exact(st.weight, s["weight"] * factor) and st.min == s["min"] and st.max == s["max"]):
                probs.append(("statistics_weight_min_max", [float(s["weight"] * factor), s["min"], s["max"]], [st.weight, st.min, st.max]))
            elif s["weight"] > 0:
                mean = s["sum"] / s["weight"]
                var = s["sum2"] / s["weight"] - mean * mean
                if not ulp_close(st.mean(), mean, 4):
                    probs.append(("statistics_mean", float(mean), st.mean()))
                got = st.variance()
                if not (abs(frac(got) - var) <= abs(var) * Fraction(1, 10 ** 12) + Fraction(1, 10 ** 15)):
                    probs.append(("statistics_variance", float(var), got))
        return probs

    def step(self, model, obj, op, hist):
        factor, kind, depth = model
        name, tag = op
        c = scalar(tag)
        fc = frac(float(c))
        before = snap(obj)
        newobj = None
        if name == "mul":
            res = call(lambda: obj * c)
        elif name == "rmul":
            res = call(lambda: c * obj)
        elif name == "div":
            res = call(lambda: obj / c)
        elif name == "imul":
            def f():
                o = obj
                o *= c
                return o
            res = call(f)
        else:
            def f():
                o = obj
                o /= c
                return o
            res = call(f)
        sb = f"{self.base_name}|{name}|{tag[0]}"

        def mk(oracle, sig, e, o):
            return V(oracle, sig, self.describe(hist, op), e, o)

        if not res.ok:
            return None, [mk("must_succeed", f"must_succeed|{sb}|{exc_sig(res.exc)}", "a scaled histogram", res.describe())], False
        result = res.value
        vs = []
        if not (hasattr(result, "frequencies") and hasattr(result, "binnings")):
            return None, [mk("returns_histogram", f"not_a_histogram|{sb}", "a histogram", f"{type(result).__name__}: {result!r}"[:200])], False
        if name in ("mul", "rmul", "div"):
            if result is obj:
                vs.append(mk("returns_new", f"returns_self|{sb}", "a new object", "self"))
            if snap(obj) != before:
                vs.append(mk("operand_untouched", f"operand_modified|{sb}", "unchanged", diff(before, snap(obj))))
            newobj = result
        else:
            if result is not obj:
                vs.append(mk("inplace_returns_self", f"inplace_not_self|{sb}", "self", "another object"))
            newobj = obj
        if type(newobj) is not type(obj):
            vs.append(mk("class_kept", f"class|{sb}", type(obj).__name__, type(newobj).__name__))
        div = name in ("div", "idiv")
        factor2 = factor / fc if div else factor * fc
        kind2 = "f" if (kind == "f" or div or not is_int_scalar(tag)) else "i"
        for field, e, o in self.check_state(newobj, factor2, kind2):
            vs.append(mk("linear", f"linear|{sb}|{field}", {field: e}, {field: o}))
        model2 = (factor2, kind2, depth + 1)
        return model2, vs, False, newobj


# ---------------------------------------------------------------------------------------------
# single operations with inexact scalars
# ---------------------------------------------------------------------------------------------


def eval_inexact(case):
    sysm = ScaleSystem(case["base"], 1)
    h = sysm.factory()
    tag = tuple(case["scalar"])
    c = scalar(tag)
    fc = frac(float(c))
    out = []
    ex = sysm.exact
    a = h * c
    b = c * h
    d = h / c
    sb = f"{case['base']}|{tag[1]}"
    if not hasattr(b, "frequencies"):
        return [V("returns_histogram", f"not_a_histogram|{sb}|rmul", case, "a histogram", type(b).__name__)]
    if content_snap(a) != content_snap(b):
        out.append(V("commutes", f"commutes|{sb}", case, content_snap(a), content_snap(b)))
    for name, r, f in (("mul", a, fc), ("div", d, 1 / fc)):
        freq = r.frequencies.ravel().tolist()
        want = [x * f for x in ex["c"]]
        if not all(ulp_close(o, e, 1) for o, e in zip(freq, want)):
            out.append(V("rounded_product", f"inexact|{sb}|{name}|frequencies", case, [float(x) for x in want], freq))
        err = r.errors2.ravel().tolist()
        wante = [x * f * f for x in ex["e2"]]
        if not all(ulp_close(o, e, 3) for o, e in zip(err, wante)):
            out.append(V("rounded_product", f"inexact|{sb}|{name}|errors2", case, [float(x) for x in wante], err))
        om = observed_missed(r)
        wm = [x * f for x in ex["missed"]]
        if not all(ulp_close(o, e, 1) for o, e in zip(om, wm)):
            out.append(V("rounded_product", f"inexact|{sb}|{name}|missed", case, [float(x) for x in wm], [fl(x) for x in om]))
    back = (h * c) / c
    f0 = h.frequencies.ravel().tolist()
    fb = back.frequencies.ravel().tolist()
    if not all(ulp_close(o, frac(e), 2) for o, e in zip(fb, f0)):
        out.append(V("inverse", f"inverse|{sb}", case, f0, fb))
    return out


# ---------------------------------------------------------------------------------------------
# normalisation
# ---------------------------------------------------------------------------------------------


def eval_normalize(case):
    sysm = ScaleSystem(case["base"], 1)
    h = sysm.factory()
    ex = sysm.exact
    inplace, percent = case["inplace"], case["percent"]
    before = snap(h)
    out = []
    sb = f"{case['base']}|inplace={int(inplace)}|percent={int(percent)}"
    tot = sum(ex["c"])
    if tot == 0:
        return out
    res = call(h.normalize, inplace=inplace, percent=percent)
    if not res.ok:
        return [V("must_succeed", f"normalize_raises|{sb}|{exc_sig(res.exc)}", case, "normalized histogram", res.describe())]
    r = res.value
    if inplace and r is not h:
        out.append(V("inplace_returns_self", f"normalize_not_self|{sb}", case, "self", "other"))
    if not inplace:
        if r is h:
            out.append(V("returns_new", f"normalize_returns_self|{sb}", case, "new", "self"))
        if snap(h) != before:
            out.append(V("operand_untouched", f"normalize_modified_operand|{sb}", case, "unchanged", diff(before, snap(h))))
    scale = Fraction(100 if percent else 1) / tot
    freq = r.frequencies.ravel().tolist()
    want = [x * scale for x in ex["c"]]
    if not all(ulp_close(o, e, 3) for o, e in zip(freq, want)):
        out.append(V("proportions", f"normalize|{sb}|frequencies", case, [float(x) for x in want], freq))
    if not ulp_close(r.total, Fraction(100 if percent else 1), 8):
        out.append(V("total_one", f"normalize|{sb}|total", case, 100 if percent else 1, r.total))
    wante = [x * scale * scale for x in ex["e2"]]
    if not all(ulp_close(o, e, 6) for o, e in zip(r.errors2.ravel().tolist(), wante)):
        out.append(V("errors_scaled", f"normalize|{sb}|errors2", case, [float(x) for x in wante], r.errors2.ravel().tolist()))
    wm = [x * scale for x in ex["missed"]]
    if not all(ulp_close(o, e, 3) for o, e in zip(observed_missed(r), wm)):
        out.append(V("missed_scaled", f"normalize|{sb}|missed", case, [float(x) for x in wm], [fl(x) for x in observed_missed(r)]))
    if np.dtype(r.dtype).kind != "f":
        out.append(V("dtype_float", f"normalize|{sb}|dtype", case, "float", str(r.dtype)))
    if snap(r)["binnings"] != before["binnings"]:
        out.append(V("bins", f"normalize|{sb}|bins", case, "unchanged", "changed"))
    return out


def eval_partial(case):
    from physt import h2

    rows = case["rows"]
    arr = np.array(rows, dtype=float)
    kw = {}
    if case.get("weights"):
        kw["weights"] = np.array(case["weights"])
    h = h2(arr[:, 0], arr[:, 1], [np.array([0.0, 1.0, 2.0]), np.array([0.0, 0.5, 2.0, 3.0])], axis_names=["x", "y"], **kw)
    axis = case["axis"]
    inplace = case["inplace"]
    before = snap(h)
    f0 = np.array(h.frequencies, dtype=float)
    e0 = np.array(h.errors2, dtype=float)
    res = call(h.partial_normalize, axis, inplace=inplace)
    sb = f"partial|axis={axis}|inplace={int(inplace)}"
    if not res.ok:
        return [V("must_succeed", f"{sb}|raises|{exc_sig(res.exc)}", case, "ok", res.describe())]
    r = res.value
    out = []
    if not inplace and snap(h) != before:
        out.append(V("operand_untouched", f"{sb}|operand_modified", case, "unchanged", diff(before, snap(h))))
    if inplace and r is not h:
        out.append(V("inplace_returns_self", f"{sb}|not_self", case, "self", "other"))
    ax = 0 if axis in (0, "x") else 1
    f = np.asarray(r.frequencies)
    # numpy sense: axis=0 sums over axis 0, i.e. every column (fixed y) sums to 1
    for j in range(f0.shape[1 - ax]):
        line0 = f0[:, j] if ax == 0 else f0[j, :]
        line = f[:, j] if ax == 0 else f[j, :]
        eline0 = e0[:, j] if ax == 0 else e0[j, :]
        eline = (np.asarray(r.errors2)[:, j] if ax == 0 else np.asarray(r.errors2)[j, :])
        s = sum(frac(x) for x in line0.tolist())
        if s == 0:
            if any(x != 0 for x in line.tolist()):
                out.append(V("zero_line", f"{sb}|zero_line_changed", case, line0.tolist(), line.tolist()))
            continue
        if not ulp_close(float(sum(line.tolist())), Fraction(1), 8):
            out.append(V("line_sums_to_one", f"{sb}|line_sum", case, 1, float(sum(line.tolist()))))
        want = [frac(x) / s for x in line0.tolist()]
        if not all(ulp_close(o, e, 2) for o, e in zip(line.tolist(), want)):
            out.append(V("proportions", f"{sb}|proportions", case, [float(x) for x in want], line.tolist()))
        wante = [frac(x) / (s * s) for x in eline0.tolist()]
        if not all(ulp_close(o, e, 4) for o, e in zip(eline.tolist(), wante)):
            out.append(V("errors_scaled", f"{sb}|errors2", case, [float(x) for x in wante], eline.tolist()))
    if snap(r)["binnings"] != before["binnings"]:
        out.append(V("bins", f"{sb}|bins", case, "unchanged", "changed"))
    return out


def eval_collection(case):
    from physt import h1
    from physt.types import HistogramCollection

    edges = np.array([0.0, 1.0, 2.0, 4.0])
    hs = [h1(np.array(d, dtype=float), edges.copy(), name=f"m{i}") for i, d in enumerate(case["members"])]
    col = HistogramCollection(*hs, name="col")
    befores = [snap(h) for h in hs]
    method = case["method"]
    inplace = case["inplace"]
    res = call(getattr(col, method), inplace=inplace)
    sb = f"collection|{method}|inplace={int(inplace)}|n={len(hs)}"
    if not res.ok:
        return [V("must_succeed", f"{sb}|raises|{exc_sig(res.exc)}", case, "ok", res.describe())]
    r = res.value
    out = []
    if not inplace and [snap(h) for h in hs] != befores:
        out.append(V("operand_untouched", f"{sb}|members_modified", case, "unchanged", "changed"))
    f0 = [[frac(x) for x in np.asarray(eval_f).tolist()] for eval_f in [np.array(b["frequencies"][2], dtype=float) for b in befores]]
    members = list(r.histograms) if hasattr(r, "histograms") else list(r)
    if len(members) != len(hs):
        out.append(V("member_count", f"{sb}|member_count", case, len(hs), len(members)))
        return out
    if method == "normalize_bins":
        for b in range(3):
            s = sum(f[b] for f in f0)
            if s == 0:
                continue
            shares = [m.frequencies.tolist()[b] for m in members]
            if not ulp_close(float(sum(shares)), Fraction(1), 8):
                out.append(V("shares_sum_to_one", f"{sb}|share_sum", case, 1, shares))
            want = [f[b] / s for f in f0]
            if not all(ulp_close(o, e, 2) for o, e in zip(shares, want)):
                out.append(V("shares", f"{sb}|shares", case, [float(x) for x in want], shares))
    else:
        for f, m in zip(f0, members):
            s = sum(f)
            if s == 0:
                continue
            if not ulp_close(m.total, Fraction(1), 8):
                out.append(V("total_one", f"{sb}|total", case, 1, m.total))
            want = [x / s for x in f]
            if not all(ulp_close(o, e, 3) for o, e in zip(m.frequencies.tolist(), want)):
                out.append(V("proportions", f"{sb}|proportions", case, [float(x) for x in want], m.frequencies.tolist()))
    return out


# ---------------------------------------------------------------------------------------------
# refusals
# ---------------------------------------------------------------------------------------------

REFUSALS = ["mul_hist", "div_hist", "rdiv_scalar", "mul_negative", "imul_negative", "div_negative", "mul_list", "mul_array", "div_array",
            "mul_str", "imul_array", "idiv_list", "rmul_negative", "mul_neg_np", "mul_none"]


def eval_refusal(case):
    sysm = ScaleSystem(case["base"], 1)
    h = sysm.factory()
    other = sysm.factory()
    n = case["name"]
    before = content_snap(h)
    shape = h.frequencies.shape
    arr = np.full(shape, 2.0)

    def do():
        nonlocal h
        if n == "mul_hist":
            return h * other
        if n == "div_hist":
            return h / other
        if n == "rdiv_scalar":
            return 2 / h
        if n == "mul_negative":
            return h * -1
        if n == "rmul_negative":
            return -0.5 * h
        if n == "mul_neg_np":
            return h * np.float64(-2.0)
        if n == "imul_negative":
            h *= -0.5
            return h
        if n == "div_negative":
            return h / -2
        if n == "mul_list":
            return h * arr.tolist()
        if n == "mul_array":
            return h * arr
        if n == "div_array":
            return h / arr
        if n == "mul_str":
            return h * "2"
        if n == "imul_array":
            h *= arr
            return h
        if n == "idiv_list":
            h /= arr.tolist()
            return h
        if n == "mul_none":
            return h * None
        raise ValueError(n)

    hh = h
    res = call(do)
    out = []
    sb = f"refusal|{case['base']}|{n}"
    if res.ok:
        out.append(V("must_raise", sb, case, "refused", res.describe()))
    if content_snap(hh) != before:
        out.append(V("operand_untouched", f"{sb}|operand_modified", case, before, content_snap(hh)))
    return out


# ---------------------------------------------------------------------------------------------


# numpy scalars of narrow types: the factor is exact, so must the result be (contents x c, squared errors x c*c, missed x c,
# recorded weight x c) - c*c leaves the scalar's own range in most of these
NARROW = [("int8", 16), ("int8", 100), ("uint8", 20), ("int16", 200), ("int32", 70000), ("uint16", 300), ("float16", 2.0), ("float16", 300.0),
          ("float32", 0.5), ("float32", 1e20)]


def eval_narrow(case):
    b, (tname, val), op = case["base"], case["scalar"], case["op"]
    sysm = ScaleSystem(b, 1)
    h = sysm.factory()
    c = np.dtype(tname).type(val)
    fc = frac(float(c))
    before = content_snap(h)

    def do():
        nonlocal h
        if op == "mul":
            return h * c
        if op == "rmul":
            return c * h
        if op == "div":
            return h / c
        if op == "imul":
            h *= c
            return h
        h /= c
        return h

    hh = h
    res = call(do)
    sb = f"narrow|{tname}|{op}"
    out = []
    if not res.ok:
        out.append(V("must_succeed", f"{sb}|{exc_sig(res.exc)}", case, "scaled histogram", res.describe()))
        return out
    r = res.value
    if not hasattr(r, "frequencies"):
        return [V("returns_histogram", f"{sb}|not_a_histogram", case, "a histogram", type(r).__name__)]
    ex = sysm.exact
    mulf = (lambda x: x * fc) if op in ("mul", "rmul", "imul") else (lambda x: x / fc)
    mule = (lambda x: x * fc * fc) if op in ("mul", "rmul", "imul") else (lambda x: x / (fc * fc))
    exact_div = op in ("mul", "rmul", "imul") or (fc.numerator == 1 or (fc.denominator == 1 and (fc.numerator & (fc.numerator - 1)) == 0))

    def cmp(name, got, want):
        got = [float(x) for x in got]
        want = [float(x) for x in want]
        for g, w in zip(got, want):
            if not (g == w or (math.isfinite(g) and abs(g - w) <= (0 if exact_div else 1e-12) * abs(w)) or (not exact_div and math.isfinite(g) and abs(g - w) <= 1e-12 * max(abs(w), 1e-300))):
                return [V(name, f"{sb}|{name}", case, want, got)]
        return []

    out += cmp("contents", r.frequencies.ravel().tolist(), [mulf(x) for x in ex["c"]])
    out += cmp("errors2", r.errors2.ravel().tolist(), [mule(x) for x in ex["e2"]])
    out += cmp("missed", observed_missed(r), [mulf(x) for x in ex["missed"]])
    st = getattr(r, "statistics", None)
    if st is not None and ex["stats"] is not None:
        out += cmp("stats_weight", [st.weight, st.sum], [mulf(ex["stats"]["weight"]), mulf(ex["stats"]["sum"])])
        m0 = float(ex["stats"]["sum"] / ex["stats"]["weight"]) if ex["stats"]["weight"] else None
        if m0 is not None and not (abs(st.mean() - m0) <= 1e-9 * max(1.0, abs(m0))):
            out.append(V("mean_invariant", f"{sb}|mean", case, m0, fl(st.mean())))
    if op in ("mul", "rmul", "div") and content_snap(hh) != before:
        out.append(V("operand_untouched", f"{sb}|operand_modified", case, before, content_snap(hh)))
    return out


def eval_empty_refusal(case):
    """Negative factors are refused also when there is nothing in the bins (missed counters and the recorded weight scale too)."""
    from physt.types import Histogram1D, Histogram2D

    if case["base"] == "1d_zero_bins_some_missed":
        h = Histogram1D(np.array([0.0, 1.0, 2.0]), [0, 0], underflow=1, overflow=2)
    elif case["base"] == "1d_all_zero":
        h = Histogram1D(np.array([0.0, 1.0, 2.0]), [0, 0])
    else:
        h = Histogram2D([np.array([0.0, 1.0]), np.array([0.0, 1.0, 2.0])], np.zeros((1, 2)), missed=3)
    n = case["name"]
    before = content_snap(h)

    def do():
        nonlocal h
        if n == "mul_negative":
            return h * -1
        if n == "rmul_negative":
            return -0.5 * h
        if n == "mul_neg_np":
            return h * np.float64(-2.0)
        if n == "imul_negative":
            h *= -0.5
            return h
        if n == "div_negative":
            return h / -2
        h /= np.int64(-2)
        return h

    hh = h
    res = call(do)
    out = []
    sb = f"refusal|{case['base']}|{n}"
    if res.ok:
        out.append(V("must_raise", sb, case, "refused", res.describe() + " missed now " + str([fl(x) for x in observed_missed(res.value)])))
    if content_snap(hh) != before:
        out.append(V("operand_untouched", f"{sb}|operand_modified", case, before, content_snap(hh)))
    return out


def units(tier, seed):
    thorough = tier == "thorough"
    us = []
    for b in bases():
        us.append({"kind": "chains", "base": b, "depth": (7 if b in ("1d_int", "2d") else 6) if thorough else (4 if b in ("1d_int", "1d_float", "2d") else 3)})
    us.append({"kind": "inexact"})
    us.append({"kind": "normalize"})
    us.append({"kind": "partial"})
    us.append({"kind": "collection"})
    us.append({"kind": "refusals"})
    us.append({"kind": "narrow"})
    return us


PARTIAL_ROWS = [
    [[0.5, 0.25], [0.5, 1.0], [1.5, 1.0], [1.5, 2.5], [1.5, 2.5]],
    [[0.5, 0.25], [0.5, 0.25], [0.5, 0.3]],
    [[1.5, 2.5]],
    [[0.5, 0.25], [1.5, 0.25], [0.5, 1.0], [1.5, 1.0], [0.5, 2.5], [1.5, 2.5], [1.5, 2.5]],
]
COLLECTIONS = [
    [[0.5, 1.5, 3.0]],
    [[0.5, 1.5, 3.0], [0.5, 0.5, 1.5]],
    [[0.5, 0.5], [1.5], [0.5, 3.0, 3.0, 3.0]],
    [[0.5, 1.5, 3.0], [0.25, 1.75, 2.0, 9.0], [0.5]],
]


def run_unit(unit, ctx):
    p = Partial()
    kind = unit["kind"]
    if kind == "chains":
        sysm = ScaleSystem(unit["base"], unit["depth"])
        seen = H.bfs(sysm, p, ctx)
        H.dfs_validate(sysm, p, seen, 2, ctx, op_filter=lambda op: op[1][0] == "py")
        p.outcome(unit["base"])
        p.sample({"base": unit["base"], "a_state_history": H.listify(list(seen.values())[-1][3])})
    elif kind == "inexact":
        for b in bases():
            for tag in INEXACT:
                case = {"base": b, "scalar": list(tag)}
                vs = eval_inexact(case)
                p.ev(True)
                p.extend(vs)
        p.sample(case)
    elif kind == "normalize":
        for b in bases():
            for inplace in (False, True):
                for percent in (False, True):
                    case = {"base": b, "inplace": inplace, "percent": percent}
                    vs = eval_normalize(case)
                    p.ev(True)
                    p.extend(vs)
        p.sample(case)
    elif kind == "partial":
        for rows in PARTIAL_ROWS:
            for weights in (None, [0.5 * (i + 1) for i in range(len(rows))]):
                for axis in (0, 1, "x", "y"):
                    for inplace in (False, True):
                        case = {"rows": rows, "weights": weights, "axis": axis, "inplace": inplace}
                        vs = eval_partial(case)
                        p.ev(True)
                        p.extend(vs)
        p.sample(case)
    elif kind == "collection":
        for members in COLLECTIONS:
            for method in ("normalize_bins", "normalize_all"):
                for inplace in (False, True):
                    case = {"members": members, "method": method, "inplace": inplace}
                    vs = eval_collection(case)
                    p.ev(True)
                    p.extend(vs)
        p.sample(case)
    elif kind == "narrow":
        for b in bases():
            for sc in NARROW:
                if b == "1d_float32" and sc[1] in (1e20, 70000, 300.0, 300):
                    continue  # the products leave the range of the histogram's own (user-chosen) float32: not the scalar's fault
                for op in OPS:
                    case = {"narrow": True, "base": b, "scalar": list(sc), "op": op}
                    vs = eval_narrow(case)
                    p.ev(True)
                    p.states += 1
                    p.extend(vs)
                    p.outcome("narrow:" + ("viol" if vs else "ok"))
        for b in ("1d_zero_bins_some_missed", "1d_all_zero", "2d_all_zero_some_missed"):
            for n in ("mul_negative", "rmul_negative", "mul_neg_np", "imul_negative", "div_negative", "idiv_negative_np"):
                case = {"empty_refusal": True, "base": b, "name": n}
                vs = eval_empty_refusal(case)
                p.ev(True)
                p.extend(vs)
                p.outcome("refusal:" + ("viol" if vs else "ok"))
        p.sample(case)
    elif kind == "refusals":
        for b in bases():
            for n in REFUSALS:
                case = {"base": b, "name": n}
                vs = eval_refusal(case)
                p.ev(True)
                p.extend(vs)
                p.outcome("refusal:" + ("viol" if vs else "ok"))
        p.sample(case)
    return p


def replay(case):
    if case.get("narrow"):
        return eval_narrow(case)
    if case.get("empty_refusal"):
        return eval_empty_refusal(case)
    if "name" in case:
        return eval_refusal(case)
    if "scalar" in case:
        return eval_inexact(case)
    if "percent" in case:
        return eval_normalize(case)
    if "rows" in case:
        return eval_partial(case)
    if "members" in case:
        return eval_collection(case)
    sysm = ScaleSystem(case["base"], 99)
    vs, model, obj = H.replay_history(sysm, case["history"], case.get("op"))
    if vs or "other_history" not in case:
        return vs
    vs2, m2, obj2 = H.replay_history(sysm, case["other_history"])
    if vs2:
        return vs2
    if sysm.snap(obj) != sysm.snap(obj2):
        return [V("confluence", sysm.confluence_signature(model, sysm.snap(obj2), sysm.snap(obj)), case, sysm.snap(obj2), sysm.snap(obj))]
    return []
