"""C17 - every supported input container gives the same histogram as its array.

Engine E1 (product enumerator) + E3 (dask chunk-task orders through physt's dask_method seam).
Every case is one call of the real code with a container, compared with the same call on the
equivalent numpy array (differential oracle), or one conversion round trip compared with the
histogram it started from.
"""
from __future__ import annotations

import itertools
import math
import os
import re
import shutil
import tempfile

import numpy as np

from mc import alphabet as A
from mc.core import Partial, V
from mc.outcome import call
from mc.refmodel import frac
from mc.snapshot import content_snap, diff, fl, snap, stats_snap

ID = "C17"
LEVEL = "exploration"
RULE = (
    "(c1) every ordered data tuple of <= L values over {inside, inner edge, last edge, under, over, NaN} x ~40 1-D containers "
    "(list, tuple, iterator, generator, int list, int / float32 / 2-D / 3-D ndarray, pandas Series float / int / nullable Int64 / "
    "Float64 with NA / named / unnamed / foreign index, Series.physt.h1 / histogram, DataFrame.physt.h1 / histogram with weights as "
    "array / Series / column name, polars Series / namespaces, weights as list / tuple / Series) x configurations (explicit edges or "
    "data-dependent fixed_width bins x weights none / 2^i / 2^-(i+1) x dropna x plain or name/title/axis_name/keep_missed/dtype "
    "keywords): full public snapshot equal to h1(np.asarray(data)) with the same arguments, axis name by the naming rule; "
    "(nd) every ordered tuple of <= L rows (2-D, 3-D; NaN in any coordinate) x h(rows) containers (nested lists / tuples, int array, "
    "pandas / polars DataFrames, accessors and namespaces, column selections) and h2(x, y) containers (lists, tuples, iterators, "
    "Series pairs) against h / h2 of the numpy columns; (refuse) non-numeric, null-containing, wrongly shaped inputs must raise; "
    "(dask) every chunking (composition of n) x every execution order of the chunk tasks of compat.dask h1 / h2 / h3 / histogramdd via "
    "dask_method, plus dask arrays handed to h1 / h2 / h directly (synchronous scheduler), against the adaptive / plain array result; "
    "(conv) to_xarray/from_xarray, to_dataframe, to_series, binning_to_index/index_to_binning over the bin-set family x data tuples "
    "over the edge alphabet x weight modes, Geant4 CSV (shipped files + generated files, 1-D and 2-D). "
    "Non-trivial: a NaN entry / row, weights, a name-bearing or dtype-converting container, >= 2 chunks, missed weight."
)
ASSUMPTIONS = [
    "h1 / h / h2 on the equivalent float64 numpy array (C01 / C02) is the reference",
    "when the array call is refused because of NaN with dropna=False the container call must be refused too; "
    "when it is refused for another reason (e.g. no data for data-dependent bins) the container outcome is left open",
    "axis names: explicit names win; else string Series / column names; unnamed (or integer default columns, dask arrays) are not compared beyond the array result",
    "weights handed over as polars Series are compared by value only (physt converts them to float64)",
    "an IntervalIndex closed 'right' / 'neither' cannot be represented by physt bins and must be refused; closed 'both' is left open",
    "Geant4 2-D CSV: a cell's frequency belongs to the cell that contains the mean position (Sxw/Sw) recorded on the same line; "
    "generated files use the bin order of the shipped file (x index fastest)",
    "dask statistics sums are compared within 8 ulp of the summands' magnitude (chunk sums are added in a different order)",
]
BOUNDS = {
    "quick": "c1: tuples <= 4 over 6 values x 7 configurations (all 41 container / weight-container pairs up to length 3, 14 representative ones for length 4); nd: 2-D rows <= 3 over 7 rows, 3-D rows <= 2 over 5 rows x 6 configurations; "
    "dask: 1-D n <= 4 (all chunkings x orders), 2-D n <= 3 with independent x / y chunkings, 3-D n <= 3; conv: 9 bin sets x tuples <= 2 over the edge alphabet x 3 weight modes",
    "thorough": "c1: tuples <= 5 (all pairs up to length 4), all 30 configurations; nd: 2-D rows <= 4 (thin), 3-D rows <= 3; dask 1-D n <= 5 fully and 48 data sets of n = 6 (1631 executions each), 2-D n <= 4",
}
BUDGET = {"quick": 240, "thorough": 3000}

NAN = float("nan")


def isnan(v):
    return isinstance(v, float) and math.isnan(v)


def exc_sig(e):
    msg = re.sub(r"'[^']*'", "", str(e))  # quoted parts carry data (column names, bins)
    msg = re.sub(r"[^A-Za-z ]+", "", msg)
    msg = re.sub(r"\s+", " ", msg)[:44].strip()
    return f"{type(e).__name__}:{msg}"


def jrow(r):
    return [A.jf(x) for x in r]


def unjrow(r):
    return [A.unjf(x) for x in r]


def strip_names(s):
    """Snapshot without the axis names (they follow the naming rule, judged separately)."""
    d = dict(s)
    d.pop("axis_names", None)
    if "meta" in d:
        d["meta"] = tuple(kv for kv in d["meta"] if kv[0] != "axis_names")
    return d


def relaxed(s):
    """Values only: no dtype strings (used when weights come in a container that physt converts to float)."""
    d = dict(s)
    d.pop("dtype", None)
    for k in ("frequencies", "errors2"):
        if k in d:
            d[k] = d[k][1:]
    return d


_CATEGORY = {
    "frequencies": "contents", "errors2": "contents", "missed": "contents", "underflow": "contents", "overflow": "contents",
    "inner_missed": "contents", "errors": "contents", "binnings": "bins", "bins": "bins", "nbins": "bins", "statistics": "statistics",
    "dtype": "dtype", "meta": "meta", "name": "meta", "title": "meta", "axis_names": "axis_names", "class": "class", "keep_missed": "keep_missed",
}


def diff_label(dd):
    """Coarse label of the differing snapshot keys (one root cause -> one label)."""
    cats = sorted({_CATEGORY.get(k, k) for k in dd})
    if "contents" in cats:
        for c in ("dtype", "statistics"):  # dtype strings are part of the contents entries; statistics follow the entries
            if c in cats:
                cats.remove(c)
    return "+".join(cats)


_REF = {}


def cached(key, fn):
    r = _REF.get(key)
    if r is None:
        if len(_REF) > 4000:
            _REF.clear()
        r = fn()
        _REF[key] = r
    return r


def np_weights(wmode, n):
    w = A.weights_for(wmode, n)
    if w is None:
        return None
    return np.array(w, dtype=(np.int64 if wmode == "int" else np.float64))


# =============================================================================================
# (c1) one-dimensional containers
# =============================================================================================

E1 = [0.0, 1.0, 2.0, 3.0]
VALS1 = [0.5, NAN, 3.0, -1.0, 7.0, 2.0]
KW1 = {
    "plain": {},
    "full": {"name": "N", "title": "T", "axis_name": "ax", "keep_missed": False, "dtype": "float64"},
}
CONFIGS1_QUICK = [
    ("edges", None, True, "plain"),
    ("edges", "int", True, "plain"),
    ("edges", "float", True, "full"),
    ("edges", "int", False, "full"),
    ("fw", "float", True, "plain"),
    ("fw", None, True, "full"),
    ("fw", "int", False, "plain"),
]
CONFIGS1_THOROUGH = [
    (b, w, d, k) for b in ("edges", "fw", "n3") for w in (None, "int", "float") for d in (True, False) for k in ("plain", "full")
    if not (b == "n3" and k == "full")
]


def bins1(name):
    if name == "edges":
        return (np.array(E1),), {}
    if name == "fw":
        return ("fixed_width",), {"bin_width": 1.0}
    if name == "n3":
        return (3,), {}
    raise ValueError(name)


# container -> (class used in signatures, carries the name 'x')
CONT1 = {
    "list": ("seq", False),
    "tuple": ("seq", False),
    "iter": ("seq", False),
    "gen": ("seq", False),
    "list_int": ("seq", False),
    "np_int": ("ndarray", False),
    "np_f32": ("ndarray", False),
    "nd_col": ("ndarray", False),
    "nd_row": ("ndarray", False),
    "nd_2xk": ("ndarray", False),
    "nd_3d": ("ndarray", False),
    # the same 2 x k block in other memory layouts and as nested sequences (a 2-tuple of rows is data, not a (name, data) pair)
    "nd_2xk_F": ("ndarray_layout", False),
    "nd_kx2_T": ("ndarray_layout", False),
    "nd_2xk_strided": ("ndarray_layout", False),
    "named_pair": ("named_pair", False),
    "named_pair_series": ("named_pair", True),
    "tuple_2tuples": ("nested_seq", False),
    "tuple_2lists": ("nested_seq", False),
    "tuple_2arrays": ("nested_seq", False),
    "list_2tuples": ("nested_seq", False),
    "pd_series": ("pandas_series", False),
    "pd_named": ("pandas_series", True),
    "pd_int": ("pandas_series", True),
    "pd_Int64": ("pandas_series", True),
    "pd_Float64": ("pandas_series", True),
    "pd_index": ("pandas_series", True),
    "pd_acc_h1": ("pandas_series_acc", True),
    "pd_acc_histogram": ("pandas_series_acc", True),
    "pd_df_h1": ("pandas_frame_acc_h1", True),
    "pd_df_h1_1col": ("pandas_frame_acc_h1", True),
    "pd_df_hist_str": ("pandas_frame_acc_histogram", True),
    "pd_df_hist_1col": ("pandas_frame_acc_histogram_1col", True),
    "pl_series": ("polars_series", True),
    "pl_unnamed": ("polars_series", False),
    "pl_int": ("polars_series", True),
    "pl_f32": ("polars_series", True),
    "pl_ns_h1": ("polars_ns_series", True),
    "pl_df_h_1col": ("polars_ns_frame_1col", True),
}
# (container, weights container) pairs on top of every container with array weights
WCONT_EXTRA = [
    ("list", "list"),
    ("tuple", "tuple"),
    ("pd_named", "list"),
    ("pd_named", "pd_series"),
    ("pd_index", "pd_series"),
    ("pd_acc_h1", "pd_series"),
    ("pd_df_h1", "column"),
    ("pd_df_h1", "pd_series"),
    ("pd_df_h1_1col", "pd_series"),
    ("list", "pl_series"),
    ("pl_series", "pl_series"),
    ("pl_ns_h1", "pl_series"),
]


BLOCK2 = ("nd_2xk", "nd_2xk_F", "nd_kx2_T", "nd_2xk_strided", "tuple_2tuples", "tuple_2lists", "tuple_2arrays", "list_2tuples")


def layout(block, cont):
    """The 2 x k block `block` (C order) with the same logical contents in another memory layout."""
    if cont == "nd_2xk_F":
        return np.asfortranarray(block)
    if cont == "nd_kx2_T":
        return np.ascontiguousarray(block.T).T
    if cont == "nd_2xk_strided":
        big = np.zeros((2, 2 * block.shape[1]), dtype=block.dtype)
        big[:, ::2] = block
        return big[:, ::2]
    return block


class Src1:
    """One data tuple and (memoised) containers built from it."""

    def __init__(self, data):
        self.data = [float(x) for x in data]
        self.n = len(self.data)
        self.hasnan = any(isnan(x) for x in self.data)
        self.integral = all(isnan(x) or x == int(x) for x in self.data)
        self._c = {}

    def memo(self, key, fn):
        if key not in self._c:
            self._c[key] = fn()
        return self._c[key]

    def arr(self):
        return self.memo("arr", lambda: np.array(self.data, dtype=float))

    def ints(self):
        return [int(x) for x in self.data]

    def applicable(self, cont, wmode, wcont):
        if cont in ("list_int", "np_int", "pd_int", "pl_int") and not (self.integral and not self.hasnan):
            return False
        if cont == "pd_Int64" and not self.integral:
            return False
        if cont in BLOCK2 and (self.n < 2 or self.n % 2):
            return False
        if wcont != "array" and (wmode is None or self.n == 0):
            return False  # an empty list / Series of weights carries no integer dtype: no equivalent array
        return True

    def shape(self, cont):
        n = self.n
        if cont in BLOCK2:
            return (2, n // 2)
        return {"nd_col": (n, 1), "nd_row": (1, n), "nd_3d": (1, n, 1)}.get(cont)

    def weights(self, wmode, wcont, cont):
        if wmode is None:
            return None
        if wcont == "column":
            return "w"
        w = np_weights(wmode, self.n)
        shp = self.shape(cont)
        if shp is not None:
            return layout(w.reshape(shp), cont)
        if wcont == "array":
            return w
        if wcont == "list":
            return w.tolist()
        if wcont == "tuple":
            return tuple(w.tolist())
        if wcont == "pd_series":
            import pandas as pd

            return self.memo(("wpd", wmode), lambda: pd.Series(w, name="w"))
        if wcont == "pl_series":
            import polars as pl

            return self.memo(("wpl", wmode), lambda: pl.Series("w", w))
        raise ValueError(wcont)

    def pd_series(self, kind):
        import pandas as pd

        def mk():
            d = self.data
            if kind == "pd_series":
                return pd.Series(d, dtype="float64")
            if kind == "pd_named":
                return pd.Series(d, dtype="float64", name="x")
            if kind == "pd_int":
                return pd.Series(self.ints(), dtype="int64", name="x")
            if kind == "pd_Int64":
                return pd.Series(pd.array([pd.NA if isnan(x) else int(x) for x in d], dtype="Int64"), name="x")
            if kind == "pd_Float64":
                return pd.Series(pd.array([pd.NA if isnan(x) else x for x in d], dtype="Float64"), name="x")
            if kind == "pd_index":
                return pd.Series(d, dtype="float64", name="x", index=[10 * (self.n - i) + (i % 2) * 100 for i in range(self.n)])
            raise ValueError(kind)

        return self.memo(kind, mk)

    def pd_frame(self, wmode):
        import pandas as pd

        def mk():
            w = np_weights(wmode, self.n)
            if w is None:
                w = np.ones(self.n, dtype=np.int64)
            return pd.DataFrame({"e": np.arange(self.n, dtype=float), "x": np.array(self.data, dtype=float), "w": w})

        return self.memo(("pdf", wmode), mk)

    def pl_series(self, kind):
        import polars as pl

        def mk():
            if kind == "pl_series":
                return pl.Series("x", self.data, dtype=pl.Float64)
            if kind == "pl_unnamed":
                return pl.Series(self.data, dtype=pl.Float64)
            if kind == "pl_int":
                return pl.Series("x", self.ints(), dtype=pl.Int64)
            if kind == "pl_f32":
                return pl.Series("x", self.data, dtype=pl.Float32)
            raise ValueError(kind)

        return self.memo(kind, mk)

    def pl_frame(self, wmode):
        import polars as pl

        def mk():
            w = np_weights(wmode, self.n)
            if w is None:
                w = np.ones(self.n, dtype=np.int64)
            return pl.DataFrame({"s": ["a"] * self.n, "x": pl.Series(self.data, dtype=pl.Float64), "w": w})

        return self.memo(("plf", wmode), mk)


def call_c1(src, cont, bins, wmode, wcont, dropna, kwname):
    """Run h1 (or the accessor / namespace equivalent) on one container."""
    from physt import h1

    bargs, bkw = bins1(bins)
    kw = dict(bkw)
    kw.update(KW1[kwname])
    if not dropna:
        kw["dropna"] = False
    w = src.weights(wmode, wcont, cont)
    if w is not None:
        kw["weights"] = w
    d = src.data
    if cont in ("named_pair", "named_pair_series"):
        # the (name, values) item of a groupby: every argument applies to the values, the name goes to the histogram
        values = src.arr() if cont == "named_pair" else src.pd_series("pd_named")

        def f():
            kw2 = {k: v for k, v in kw.items() if k != "name"}
            r = h1(("grp", values), *bargs, **kw2)
            if r.name != "grp":
                raise AssertionError(f"name of the pair not taken: {r.name!r}")
            r.name = kw.get("name")
            return r

        return call(f)
    if cont == "list":
        return call(h1, list(d), *bargs, **kw)
    if cont == "tuple":
        return call(h1, tuple(d), *bargs, **kw)
    if cont == "iter":
        return call(h1, iter(list(d)), *bargs, **kw)
    if cont == "gen":
        return call(h1, (x for x in list(d)), *bargs, **kw)
    if cont == "list_int":
        return call(h1, src.ints(), *bargs, **kw)
    if cont == "np_int":
        return call(h1, np.array(src.ints(), dtype=np.int64), *bargs, **kw)
    if cont == "np_f32":
        return call(h1, np.array(d, dtype=np.float32), *bargs, **kw)
    if cont in ("nd_col", "nd_row", "nd_2xk", "nd_3d"):
        return call(h1, src.arr().reshape(src.shape(cont)), *bargs, **kw)
    if cont in ("nd_2xk_F", "nd_kx2_T", "nd_2xk_strided"):
        block = layout(src.arr().reshape(src.shape(cont)), cont)
        if w is not None and cont == "nd_2xk_F":
            kw["weights"] = np.ascontiguousarray(kw["weights"])  # data and weights laid out differently
        return call(h1, block, *bargs, **kw)
    if cont in ("tuple_2tuples", "tuple_2lists", "tuple_2arrays", "list_2tuples"):
        k = src.n // 2
        rows = (d[:k], d[k:])
        if cont == "tuple_2tuples":
            value = (tuple(rows[0]), tuple(rows[1]))
        elif cont == "tuple_2lists":
            value = (list(rows[0]), list(rows[1]))
        elif cont == "tuple_2arrays":
            value = (np.array(rows[0], dtype=float), np.array(rows[1], dtype=float))
        else:
            value = [tuple(rows[0]), tuple(rows[1])]
        return call(h1, value, *bargs, **kw)
    if cont in ("pd_series", "pd_named", "pd_int", "pd_Int64", "pd_Float64", "pd_index"):
        return call(h1, src.pd_series(cont), *bargs, **kw)
    if cont == "pd_acc_h1":
        s = src.pd_series("pd_named")
        return call(lambda: s.physt.h1(*bargs, **kw))
    if cont == "pd_acc_histogram":
        s = src.pd_series("pd_named")
        return call(lambda: s.physt.histogram(*bargs, **kw))
    if cont == "pd_df_h1":
        df = src.pd_frame(wmode)
        if wcont == "pd_series":
            kw["weights"] = df["w"]
        return call(lambda: df.physt.h1("x", *bargs, **kw))
    if cont == "pd_df_h1_1col":
        df = src.pd_frame(wmode)[["x"]]
        return call(lambda: df.physt.h1(None, *bargs, **kw))
    if cont == "pd_df_hist_str":
        df = src.pd_frame(wmode)
        return call(lambda: df.physt.histogram("x", *bargs, **kw))
    if cont == "pd_df_hist_1col":
        df = src.pd_frame(wmode)
        return call(lambda: df.physt.histogram(["x"], *bargs, **kw))
    if cont in ("pl_series", "pl_unnamed", "pl_int", "pl_f32"):
        return call(h1, src.pl_series(cont), *bargs, **kw)
    if cont == "pl_ns_h1":
        s = src.pl_series("pl_series")
        return call(lambda: s.physt.h1(*bargs, **kw))
    if cont == "pl_df_h_1col":
        df = src.pl_frame(wmode)
        return call(lambda: df.physt.h("x", bins=bargs[0], **kw))
    raise ValueError(cont)


def ref_c1(src, bins, wmode, dropna, kwname):
    from physt import h1

    def mk():
        bargs, bkw = bins1(bins)
        kw = dict(bkw)
        kw.update(KW1[kwname])
        w = np_weights(wmode, src.n)
        if w is not None:
            kw["weights"] = w
        res = call(h1, np.array(src.data, dtype=float), *bargs, dropna=dropna, **kw)
        if res.ok:
            return ("ok", snap(res.value))
        return ("raise", res.exc)

    return cached(("c1", tuple(jrow(src.data)), bins, wmode, dropna, kwname), mk)


def eval_c1(case, src=None):
    """-> (violations, outcome label, nontrivial)"""
    data = unjrow(case["data"])
    if src is None:
        src = Src1(data)
    cont, bins, wmode, wcont, dropna, kwname = case["cont"], case["bins"], case["wmode"], case.get("wcont", "array"), case["dropna"], case["kw"]
    cls, named = CONT1[cont]
    kind, ref = ref_c1(src, bins, wmode, dropna, kwname)
    res = call_c1(src, cont, bins, wmode, wcont, dropna, kwname)
    nontrivial = src.n > 0 and (src.hasnan or wmode is not None or named or cls != "seq")
    sb = f"h1|{cls}"
    out = []
    if kind == "raise":
        if src.hasnan and not dropna:
            if res.ok:
                out.append(V("refused_like_array", f"refused_like_array|{sb}", case, "refused (NaN with dropna=False), as for the array", res.describe()))
            return out, "both_refuse_nan", nontrivial
        return out, ("array_refused:" + res.label), False
    if not res.ok:
        out.append(V("must_succeed", f"must_succeed|{sb}|{exc_sig(res.exc)}", case, "the histogram of the array", res.describe()))
        return out, "raise:" + type(res.exc).__name__, nontrivial
    got = snap(res.value)
    a, b = strip_names(ref), strip_names(got)
    if wcont == "pl_series":
        a, b = relaxed(a), relaxed(b)
    if a != b:
        dd = diff(a, b)
        out.append(V("equals_array", f"equals_array|{sb}|{diff_label(dd)}", case, {k: v[0] for k, v in dd.items()}, {k: v[1] for k, v in dd.items()}))
    explicit = "axis_name" in KW1[kwname]
    want = ("ax",) if explicit else (("x",) if named else ref["axis_names"])
    if tuple(got["axis_names"]) != tuple(want):
        out.append(V("axis_name", f"axis_name|{sb}|explicit={int(explicit)}", case, list(want), list(got["axis_names"])))
    return out, "ok", nontrivial


# one representative per conversion path: used for the longest tuples of the quick tier
CORE1 = [
    ("list", "array"), ("iter", "array"), ("nd_2xk", "array"), ("pd_named", "array"), ("pd_Int64", "array"), ("pd_index", "array"),
    ("pd_acc_h1", "array"), ("pd_df_h1", "array"), ("pd_df_h1", "column"), ("pd_df_hist_str", "array"), ("pl_series", "array"),
    ("pl_ns_h1", "array"), ("pd_named", "pd_series"), ("pl_series", "pl_series"), ("nd_2xk_F", "array"), ("nd_kx2_T", "array"), ("tuple_2tuples", "array"),
    ("named_pair", "array"),
]


def c1_pairs(core=False):
    if core:
        return list(CORE1)
    pairs = [(c, "array") for c in CONT1]
    pairs += WCONT_EXTRA
    return pairs


def run_c1(unit, ctx, p):
    L = unit["L"]
    configs = CONFIGS1_THOROUGH if unit["configs"] == "thorough" else CONFIGS1_QUICK
    all_pairs, core_pairs = c1_pairs(), c1_pairs(core=True)
    full_upto = unit.get("full_upto", L)
    datasets = list(A.tuples_upto(VALS1, L))
    case = None
    for k, data in enumerate(datasets):
        if k % unit["of"] != unit["shard"]:
            continue
        if ctx.expired():
            p.capped = True
            p.notes.append(f"c1 shard {unit['shard']}: stopped at data set {k} of {len(datasets)}")
            break
        src = Src1(data)
        jd = jrow(data)
        pairs = all_pairs if len(data) <= full_upto else core_pairs
        for bins, wmode, dropna, kwname in configs:
            for cont, wcont in pairs:
                if not src.applicable(cont, wmode, wcont):
                    continue
                case = {"fam": "c1", "data": jd, "cont": cont, "bins": bins, "wmode": wmode, "wcont": wcont, "dropna": dropna, "kw": kwname}
                vs, label, nt = eval_c1(case, src)
                p.ev(nt)
                p.count("c1_conversions")
                p.outcome(f"c1:{CONT1[cont][0]}:{label}")
                if vs:
                    p.extend(vs)
        if k == unit["shard"] + 5 * unit["of"] and case:
            p.sample(case)
    if case and not p.samples:
        p.sample(case)


# =============================================================================================
# (nd) containers of rows / columns: h(rows), h2(x, y)
# =============================================================================================

EDGES_ND = [[0.0, 1.0, 2.0, 3.0], [0.0, 1.0, 2.0], [0.0, 1.0, 2.0, 4.0]]
ROWS2 = [(0.5, 0.5), (NAN, 1.0), (3.0, 2.0), (1.0, NAN), (-1.0, 0.5), (2.0, 5.0), (NAN, NAN)]
ROWS3 = [(0.5, 0.5, 0.5), (NAN, 1.0, 1.0), (3.0, 2.0, 4.0), (1.0, 1.0, NAN), (-1.0, 0.5, 0.5)]
COLS = ["x", "y", "z"]
CONFIGS_ND = [
    ("edges", None, True, "plain"),
    ("edges", "int", True, "plain"),
    ("edges", "float", True, "full"),
    ("edges", None, False, "plain"),
    ("edges", "int", False, "full"),
    ("fw", None, True, "plain"),
]
CONFIGS_ND_THOROUGH = [(b, w, d, k) for b in ("edges", "fw") for w in (None, "int", "float") for d in (True, False) for k in ("plain", "full")]

# container -> (function, class for signatures, carries column names, needs a shape (usable with 0 rows))
CONTND = {
    "h:list_rows": ("h", "seq", False, False),
    "h:tuple_rows": ("h", "seq", False, False),
    "h:list_of_tuples": ("h", "seq", False, False),
    "h:list_of_arrays": ("h", "seq", False, False),
    "h:iter_rows": ("h", "seq", False, False),
    "h:gen_rows": ("h", "seq", False, False),
    "h:np_int": ("h", "ndarray", False, True),
    "h:np_f32": ("h", "ndarray", False, True),
    "h:np_F": ("h", "ndarray_layout", False, True),
    "h:pd_df": ("h", "frame", True, True),
    "h:pd_df_defaultcols": ("h", "frame", None, True),
    "h:pd_df_int": ("h", "frame", True, True),
    "h:pd_df_Int64": ("h", "frame", True, True),
    "h:pd_df_index": ("h", "frame", True, True),
    "h:pd_acc_histogram": ("h", "frame", True, True),
    "h:pd_acc_histogram_cols": ("h", "frame", True, True),
    "h:pd_acc_h2": ("h", "frame", True, True),
    "h:pd_acc_h2_cols": ("h", "frame", True, True),
    "h:pl_df": ("h", "frame", True, True),
    "h:pl_df_int": ("h", "frame", True, True),
    "h:pl_ns_h": ("h", "frame", True, True),
    "h:pl_ns_h_sel": ("h", "frame", True, True),
    "h2:lists": ("h2", "seq", False, True),
    "h2:tuples": ("h2", "seq", False, True),
    "h2:iters": ("h2", "seq", False, True),
    "h2:gens": ("h2", "seq", False, True),
    "h2:mixed": ("h2", "seq", False, True),
    "h2:np_int": ("h2", "ndarray", False, True),
    "h2:nd_mixed_layout": ("h2", "ndarray_layout", False, True),
    "h2:pd_series": ("h2", "pandas_series", True, True),
    "h2:pd_series_unnamed": ("h2", "pandas_series", False, True),
    "h2:pd_series_Int64": ("h2", "pandas_series", True, True),
    "h2:pl_series": ("h2", "polars_series", True, True),
}


def binsnd(name, d):
    if name == "edges":
        return ([np.array(e) for e in EDGES_ND[:d]],), {}
    if name == "fw":
        return ("fixed_width",), {"bin_width": 1.0}
    raise ValueError(name)


def kwnd(name, d):
    if name == "plain":
        return {}
    return {"name": "N", "title": "T", "axis_names": ["p", "q", "r"][:d]}


class SrcND:
    def __init__(self, rows, d):
        self.rows = [tuple(float(x) for x in r) for r in rows]
        self.d = d
        self.n = len(self.rows)
        flat = [x for r in self.rows for x in r]
        self.hasnan = any(isnan(x) for x in flat)
        self.integral = all(isnan(x) or x == int(x) for x in flat)
        self._c = {}

    def memo(self, key, fn):
        if key not in self._c:
            self._c[key] = fn()
        return self._c[key]

    def arr(self):
        return self.memo("arr", lambda: np.array(self.rows, dtype=float).reshape(self.n, self.d))

    def applicable(self, cont):
        func, cls, named, shaped = CONTND[cont]
        if func == "h2" and self.d != 2:
            return False
        if cont in ("h:pd_acc_h2", "h:pd_acc_h2_cols") and self.d != 2:
            return False
        if not shaped and self.n == 0:
            return False
        if cont in ("h:np_int", "h2:np_int", "h:pd_df_int", "h:pl_df_int") and not (self.integral and not self.hasnan):
            return False
        if cont in ("h:pd_df_Int64", "h2:pd_series_Int64") and not self.integral:
            return False
        return True

    def pd_df(self, kind):
        import pandas as pd

        def mk():
            a = self.arr()
            cols = COLS[: self.d]
            if kind == "pd_df":
                return pd.DataFrame({c: a[:, i] for i, c in enumerate(cols)})
            if kind == "pd_df_defaultcols":
                return pd.DataFrame(a.copy())
            if kind == "pd_df_int":
                return pd.DataFrame({c: a[:, i].astype(np.int64) for i, c in enumerate(cols)})
            if kind == "pd_df_Int64":
                return pd.DataFrame({c: pd.array([pd.NA if isnan(x) else int(x) for x in a[:, i].tolist()], dtype="Int64") for i, c in enumerate(cols)})
            if kind == "pd_df_index":
                return pd.DataFrame({c: a[:, i] for i, c in enumerate(cols)}, index=[10 * (self.n - i) + (i % 2) * 100 for i in range(self.n)])
            if kind == "pd_wide":
                dd = {"e": np.arange(self.n, dtype=float)}
                for i, c in enumerate(cols):
                    dd[c] = a[:, i]
                    if i == 0:
                        dd["s"] = ["a"] * self.n
                return pd.DataFrame(dd)
            raise ValueError(kind)

        return self.memo(kind, mk)

    def pl_df(self, kind):
        import polars as pl

        def mk():
            a = self.arr()
            cols = COLS[: self.d]
            if kind == "pl_df":
                return pl.DataFrame({c: pl.Series(a[:, i].tolist(), dtype=pl.Float64) for i, c in enumerate(cols)})
            if kind == "pl_df_int":
                return pl.DataFrame({c: pl.Series(a[:, i].astype(np.int64).tolist(), dtype=pl.Int64) for i, c in enumerate(cols)})
            if kind == "pl_wide":
                dd = {"e": pl.Series(np.arange(self.n, dtype=float).tolist(), dtype=pl.Float64)}
                for i, c in enumerate(cols):
                    dd[c] = pl.Series(a[:, i].tolist(), dtype=pl.Float64)
                    if i == 0:
                        dd["s"] = pl.Series(["a"] * self.n, dtype=pl.String)
                return pl.DataFrame(dd)
            raise ValueError(kind)

        return self.memo(kind, mk)


def call_nd(src, cont, bins, wmode, dropna, kwname):
    from physt import h, h2

    d = src.d
    bargs, bkw = binsnd(bins, d)
    kw = dict(bkw)
    kw.update(kwnd(kwname, d))
    if not dropna:
        kw["dropna"] = False
    w = np_weights(wmode, src.n)
    if w is not None:
        kw["weights"] = w
    a = src.arr()
    rows = src.rows
    cols = COLS[:d]
    name = cont.split(":", 1)[1]
    if cont == "h:list_rows":
        return call(h, [list(r) for r in rows], *bargs, **kw)
    if cont == "h:tuple_rows":
        return call(h, tuple(tuple(r) for r in rows), *bargs, **kw)
    if cont == "h:list_of_tuples":
        return call(h, [tuple(r) for r in rows], *bargs, **kw)
    if cont == "h:list_of_arrays":
        return call(h, [np.array(r) for r in rows], *bargs, **kw)
    if cont == "h:iter_rows":
        return call(h, iter([list(r) for r in rows]), *bargs, **kw)
    if cont == "h:gen_rows":
        return call(h, (tuple(r) for r in rows), *bargs, **kw)
    if cont == "h:dask_unnamed":
        import dask.array as da

        # (a dask array always has a .name - the key of its task graph - which is no axis name)
        if d == 2 and src.n:
            return call(h2, da.from_array(a[:, 0].copy(), chunks=max(1, src.n)), da.from_array(a[:, 1].copy(), chunks=max(1, src.n)), *bargs, **kw)
        return call(h, a, *bargs, **kw)
    if cont == "h:np_int":
        return call(h, a.astype(np.int64), *bargs, **kw)
    if cont == "h:np_f32":
        return call(h, a.astype(np.float32), *bargs, **kw)
    if cont == "h:np_F":
        return call(h, np.asfortranarray(a), *bargs, **kw)
    if cont in ("h:pd_df", "h:pd_df_defaultcols", "h:pd_df_int", "h:pd_df_Int64", "h:pd_df_index"):
        return call(h, src.pd_df(name), *bargs, **kw)
    if cont == "h:pd_acc_histogram":
        df = src.pd_df("pd_df")
        return call(lambda: df.physt.histogram(None, *bargs, **kw))
    if cont == "h:pd_acc_histogram_cols":
        df = src.pd_df("pd_wide")
        return call(lambda: df.physt.histogram(list(cols), *bargs, **kw))
    if cont == "h:pd_acc_h2":
        df = src.pd_df("pd_df")
        return call(lambda: df.physt.h2(None, None, *bargs, **kw))
    if cont == "h:pd_acc_h2_cols":
        df = src.pd_df("pd_wide")
        return call(lambda: df.physt.h2("x", "y", *bargs, **kw))
    if cont in ("h:pl_df", "h:pl_df_int"):
        return call(h, src.pl_df(name), *bargs, **kw)
    if cont == "h:pl_ns_h":
        df = src.pl_df("pl_df")
        return call(lambda: df.physt.h(bins=bargs[0], **kw))
    if cont == "h:pl_ns_h_sel":
        df = src.pl_df("pl_wide")
        return call(lambda: df.physt.h(*cols, bins=bargs[0], **kw))
    x, y = a[:, 0], a[:, 1]
    if cont == "h2:lists":
        return call(h2, x.tolist(), y.tolist(), *bargs, **kw)
    if cont == "h2:tuples":
        return call(h2, tuple(x.tolist()), tuple(y.tolist()), *bargs, **kw)
    if cont == "h2:iters":
        return call(h2, iter(x.tolist()), iter(y.tolist()), *bargs, **kw)
    if cont == "h2:gens":
        return call(h2, (v for v in x.tolist()), (v for v in y.tolist()), *bargs, **kw)
    if cont == "h2:mixed":
        return call(h2, x.tolist(), y.copy(), *bargs, **kw)
    if cont == "h2:np_int":
        return call(h2, x.astype(np.int64), y.astype(np.int64), *bargs, **kw)
    if cont == "h2:nd_mixed_layout":
        # two-dimensional columns with the same logical contents, x in Fortran and y in C order
        shp = (2, src.n // 2) if (src.n >= 2 and src.n % 2 == 0) else (src.n, 1)
        x2 = np.asfortranarray(np.ascontiguousarray(x).reshape(shp))
        y2 = np.ascontiguousarray(y).reshape(shp)
        return call(h2, x2, y2, *bargs, **kw)  # weights stay flat: one per (logical, row-major) position
    if cont in ("h2:pd_series", "h2:pd_series_unnamed", "h2:pd_series_Int64"):
        import pandas as pd

        def mk():
            if name == "pd_series":
                return pd.Series(x, name="x"), pd.Series(y, name="y")
            if name == "pd_series_unnamed":
                return pd.Series(x), pd.Series(y)
            return tuple(pd.Series(pd.array([pd.NA if isnan(v) else int(v) for v in c.tolist()], dtype="Int64"), name=nm) for c, nm in ((x, "x"), (y, "y")))

        sx, sy = src.memo(cont, mk)
        return call(h2, sx, sy, *bargs, **kw)
    if cont == "h2:pl_series":
        import polars as pl

        sx, sy = src.memo(cont, lambda: (pl.Series("x", x.tolist(), dtype=pl.Float64), pl.Series("y", y.tolist(), dtype=pl.Float64)))
        return call(h2, sx, sy, *bargs, **kw)
    raise ValueError(cont)


def ref_nd(src, func, bins, wmode, dropna, kwname):
    from physt import h, h2

    def mk():
        d = src.d
        bargs, bkw = binsnd(bins, d)
        kw = dict(bkw)
        kw.update(kwnd(kwname, d))
        w = np_weights(wmode, src.n)
        if w is not None:
            kw["weights"] = w
        a = src.arr().copy()
        if func == "h":
            res = call(h, a, *bargs, dropna=dropna, **kw)
        else:
            res = call(h2, a[:, 0].copy(), a[:, 1].copy(), *bargs, dropna=dropna, **kw)
        if res.ok:
            return ("ok", snap(res.value))
        return ("raise", res.exc)

    return cached(("nd", func, src.d, tuple(tuple(jrow(r)) for r in src.rows), bins, wmode, dropna, kwname), mk)


def eval_nd(case, src=None):
    rows = [unjrow(r) for r in case["rows"]]
    d = case["d"]
    if src is None:
        src = SrcND(rows, d)
    cont, bins, wmode, dropna, kwname = case["cont"], case["bins"], case["wmode"], case["dropna"], case["kw"]
    func, cls, named, _ = CONTND[cont]
    kind, ref = ref_nd(src, func, bins, wmode, dropna, kwname)
    res = call_nd(src, cont, bins, wmode, dropna, kwname)
    nontrivial = src.n > 0 and (src.hasnan or wmode is not None or bool(named) or cls != "seq")
    sb = f"{func}|{cls}"
    out = []
    if kind == "raise":
        if src.hasnan and not dropna:
            if res.ok:
                out.append(V("refused_like_array", f"refused_like_array|{sb}", case, "refused (NaN with dropna=False), as for the array", res.describe()))
            return out, "both_refuse_nan", nontrivial
        return out, ("array_refused:" + res.label), False
    if not res.ok:
        out.append(V("must_succeed", f"must_succeed|{sb}|{exc_sig(res.exc)}", case, "the histogram of the array", res.describe()))
        return out, "raise:" + type(res.exc).__name__, nontrivial
    got = snap(res.value)
    a, b = strip_names(ref), strip_names(got)
    if a != b:
        dd = diff(a, b)
        out.append(V("equals_array", f"equals_array|{sb}|{diff_label(dd)}", case, {k: v[0] for k, v in dd.items()}, {k: v[1] for k, v in dd.items()}))
    explicit = kwname == "full"
    if explicit:
        want = tuple(["p", "q", "r"][:d])
    elif named:
        want = tuple(COLS[:d])
    elif named is None:
        want = None  # integer default column labels: not judged
    else:
        want = tuple(ref["axis_names"])
    if want is not None and tuple(got["axis_names"]) != want:
        out.append(V("axis_names", f"axis_names|{sb}|explicit={int(explicit)}", case, list(want), list(got["axis_names"])))
    return out, "ok", nontrivial


def nd_datasets(d, L, thin=False):
    rows = ROWS2 if d == 2 else ROWS3
    if thin:
        rows = rows[:5]
    return list(A.tuples_upto(rows, L))


def run_nd(unit, ctx, p):
    d = unit["d"]
    configs = CONFIGS_ND_THOROUGH if unit["configs"] == "thorough" else CONFIGS_ND
    datasets = nd_datasets(d, unit["L"], unit.get("thin", False))
    case = None
    for k, rows in enumerate(datasets):
        if k % unit["of"] != unit["shard"]:
            continue
        if ctx.expired():
            p.capped = True
            p.notes.append(f"nd d={d} shard {unit['shard']}: stopped at data set {k} of {len(datasets)}")
            break
        src = SrcND(rows, d)
        jr = [jrow(r) for r in rows]
        for bins, wmode, dropna, kwname in configs:
            for cont in CONTND:
                if not src.applicable(cont):
                    continue
                case = {"fam": "nd", "d": d, "rows": jr, "cont": cont, "bins": bins, "wmode": wmode, "dropna": dropna, "kw": kwname}
                vs, label, nt = eval_nd(case, src)
                p.ev(nt)
                p.count("nd_conversions")
                p.outcome(f"nd:{CONTND[cont][1]}:{label}")
                if vs:
                    p.extend(vs)
        if k == unit["shard"] + 3 * unit["of"] and case:
            p.sample(case)
    if case and not p.samples:
        p.sample(case)


# =============================================================================================
# (refuse) non-numeric, null-containing, wrongly shaped inputs
# =============================================================================================


def refusal_table():
    """name -> thunk that must raise.  Built lazily (imports pandas / polars)."""
    import pandas as pd
    import polars as pl
    from physt import h, h1, h2

    e1 = np.array(E1)

    def e2():
        return [np.array(e) for e in EDGES_ND[:2]]

    nums = [0.5, 1.5, 2.5]
    t = {}
    # non-numeric
    t["h1_list_str"] = lambda: h1(["a", "b"], e1)
    t["h1_tuple_str"] = lambda: h1(("a", "b"), e1)
    t["h1_iter_str"] = lambda: h1(iter(["a", "b"]), e1)
    t["h1_list_mixed_str"] = lambda: h1([0.5, "b"], e1)
    t["h1_np_str"] = lambda: h1(np.array(["a", "b"]), e1)
    t["h1_pd_series_str"] = lambda: h1(pd.Series(["a", "b"], name="x"), e1)
    t["h1_pd_series_object"] = lambda: h1(pd.Series(["a", 1.0], dtype=object, name="x"), e1)
    t["h1_pd_series_datetime"] = lambda: h1(pd.Series(pd.to_datetime(["2020-01-01", "2020-01-02"])), e1)
    t["h1_pd_acc_str"] = lambda: pd.Series(["a", "b"], name="x").physt.h1(e1)
    t["h1_pd_df_acc_str_column"] = lambda: pd.DataFrame({"x": nums, "s": ["a", "b", "c"]}).physt.h1("s", e1)
    t["h1_pl_series_str"] = lambda: h1(pl.Series("x", ["a", "b"]), e1)
    t["h1_pl_ns_str"] = lambda: pl.Series("x", ["a", "b"]).physt.h1(e1)
    t["h_list_str"] = lambda: h([["a", "b"], ["c", "d"]], e2())
    t["h_pd_df_str_column"] = lambda: h(pd.DataFrame({"x": nums, "s": ["a", "b", "c"]}), e2())
    t["h_pd_acc_str_column"] = lambda: pd.DataFrame({"x": nums, "s": ["a", "b", "c"]}).physt.histogram(["x", "s"], e2())
    t["h_pd_acc_h2_str_column"] = lambda: pd.DataFrame({"x": nums, "s": ["a", "b", "c"]}).physt.h2("x", "s", e2())
    t["h_pl_df_str_column"] = lambda: h(pl.DataFrame({"x": nums, "s": ["a", "b", "c"]}), e2())
    t["h_pl_ns_str_column"] = lambda: pl.DataFrame({"x": nums, "s": ["a", "b", "c"]}).physt.h("x", "s", bins=e2())
    t["h2_list_str"] = lambda: h2(nums, ["a", "b", "c"], e2())
    t["h2_pd_series_str"] = lambda: h2(pd.Series(nums), pd.Series(["a", "b", "c"]), e2())
    t["h2_pl_series_str"] = lambda: h2(pl.Series("x", nums), pl.Series("s", ["a", "b", "c"]), e2())
    # null-containing (polars nulls are not NaN)
    t["h1_pl_series_null_float"] = lambda: h1(pl.Series("x", [0.5, None, 1.5]), e1)
    t["h1_pl_series_null_int"] = lambda: h1(pl.Series("x", [1, None, 2]), e1)
    t["h1_pl_series_null_dropna_false"] = lambda: h1(pl.Series("x", [0.5, None]), e1, dropna=False)
    t["h1_pl_ns_null"] = lambda: pl.Series("x", [0.5, None]).physt.h1(e1)
    t["h_pl_df_null"] = lambda: h(pl.DataFrame({"x": [0.5, None, 1.5], "y": [0.5, 1.5, 0.5]}), e2())
    t["h_pl_ns_null"] = lambda: pl.DataFrame({"x": [0.5, None, 1.5], "y": [0.5, 1.5, 0.5]}).physt.h(bins=e2())
    t["h2_pl_series_null"] = lambda: h2(pl.Series("x", [0.5, None, 1.5]), pl.Series("y", nums), e2())
    t["h1_pl_weights_null"] = lambda: h1(nums, e1, weights=pl.Series("w", [1.0, None, 2.0]))
    # wrongly shaped
    t["h1_scalar"] = lambda: h1(1.5, e1)
    t["h1_np_scalar"] = lambda: h1(np.float64(1.5), e1)
    t["h1_ragged"] = lambda: h1([[0.5, 1.5], [2.5]], e1)
    t["h1_pd_df_2cols"] = lambda: h1(pd.DataFrame({"x": nums, "y": nums}), e1)
    t["h1_pl_df_2cols"] = lambda: h1(pl.DataFrame({"x": nums, "y": nums}), e1)
    t["h1_weights_short"] = lambda: h1(nums, e1, weights=[1.0, 2.0])
    t["h1_weights_long"] = lambda: h1(np.array(nums), e1, weights=np.array([1.0, 2.0, 3.0, 4.0]))
    t["h1_pd_weights_short"] = lambda: h1(pd.Series(nums), e1, weights=pd.Series([1.0, 2.0]))
    t["h1_pl_weights_short"] = lambda: h1(pl.Series("x", nums), e1, weights=pl.Series("w", [1.0, 2.0]))
    t["h1_weights_short_with_nan"] = lambda: h1([0.5, NAN, 2.5], e1, weights=[1.0, 2.0])
    t["h_flat_list"] = lambda: h(nums, e2())
    t["h_flat_array"] = lambda: h(np.array(nums), e2())
    t["h_ragged"] = lambda: h([[0.5, 1.5], [2.5]], e2())
    t["h_3d_array"] = lambda: h(np.zeros((2, 2, 2)) + 0.5, e2())
    t["h_pd_series"] = lambda: h(pd.Series(nums, name="x"), e2())
    t["h_pl_series"] = lambda: h(pl.Series("x", nums), e2())
    t["h_dim_mismatch_array"] = lambda: h(np.array([[0.5, 0.5]]), 2, dim=3)
    t["h_dim_mismatch_pd_df"] = lambda: h(pd.DataFrame({"x": nums, "y": nums}), 2, dim=3)
    t["h_dim_mismatch_pl_df"] = lambda: h(pl.DataFrame({"x": nums, "y": nums}), 2, dim=3)
    t["h_bins_list_mismatch"] = lambda: h(np.array([[0.5, 0.5, 0.5]]), e2())
    t["h_weights_short"] = lambda: h(np.array([[0.5, 0.5], [1.5, 1.5]]), e2(), weights=np.array([1.0]))
    t["h_weights_long"] = lambda: h([[0.5, 0.5], [1.5, 1.5]], e2(), weights=[1.0, 2.0, 3.0])
    t["h_pd_acc_h2_one_column"] = lambda: pd.DataFrame({"x": nums}).physt.h2(bins=e2())
    t["h2_length_mismatch_lists"] = lambda: h2(nums, [0.5, 1.5], e2())
    t["h2_length_mismatch_arrays"] = lambda: h2(np.array(nums), np.array([0.5, 1.5]), e2())
    t["h2_length_mismatch_pd"] = lambda: h2(pd.Series(nums), pd.Series([0.5, 1.5]), e2())
    t["h2_length_mismatch_pl"] = lambda: h2(pl.Series("x", nums), pl.Series("y", [0.5, 1.5]), e2())
    t["h2_weights_short"] = lambda: h2(nums, nums, e2(), weights=[1.0, 2.0])
    t["h2_one_none"] = lambda: h2(nums, None, e2())
    return t


def eval_refusal(case):
    name = case["name"]
    thunk = refusal_table()[name]
    res = call(thunk)
    if res.ok:
        return [V("must_raise", f"must_raise|{name}", case, "refused with an exception", res.describe())], "accepted"
    return [], "refused:" + type(res.exc).__name__


def run_refusals(unit, ctx, p):
    case = None
    for name in refusal_table():
        case = {"fam": "refuse", "name": name}
        vs, label = eval_refusal(case)
        p.ev(True)
        p.count("refusals")
        p.outcome("refuse:" + label)
        p.extend(vs)
    p.sample(case)


# =============================================================================================
# (dask) every chunking x every execution order of the chunk tasks
# =============================================================================================

VALS_DASK = [0.5, NAN, 3.0, -1.25]
ROWS_DASK2 = [(0.5, 0.5), (NAN, 1.0), (3.0, -2.0), (1.5, NAN), (-1.25, 4.5)]
ROWS_DASK3 = [(0.5, 0.5, 0.5), (NAN, 1.0, 1.0), (3.0, -2.0, 4.0), (1.5, 1.0, NAN)]
KWD1 = {"plain": {}, "named": {"name": "N", "title": "T", "axis_name": "q"}}


def stats_close(st, entries):
    """statistics object vs exact rational sums of entries [(x, w)] (as in C05)."""
    if not entries:
        return st.weight == 0
    s1 = sum(frac(x) * frac(w) for x, w in entries)
    s2 = sum(frac(x) * frac(x) * frac(w) for x, w in entries)
    m1 = sum(abs(frac(x) * frac(w)) for x, w in entries)
    ww = sum(frac(w) for _, w in entries)

    def close(obs, exact, mag):
        o = float(obs)
        if math.isnan(o) or math.isinf(o):
            return False
        return abs(frac(o) - exact) <= 8 * frac(math.ulp(float(mag))) if mag else frac(o) == exact

    return (
        close(st.sum, s1, m1)
        and close(st.sum2, s2, s2)
        and frac(st.weight) == ww
        and st.min == min(x for x, _ in entries)
        and st.max == max(x for x, _ in entries)
    )


def dask_bins(name, d=1):
    if name == "fw":
        return ("fixed_width",), {"bin_width": 1.0}
    if name == "edges":
        if d == 1:
            return (np.array(E1),), {}
        return ([np.array(e) for e in EDGES_ND[:d]],), {}
    raise ValueError(name)


def chunk_slices(chunks):
    out, s = [], 0
    for c in chunks:
        out.append((s, s + c))
        s += c
    return out


def dask_compare(case, sb, ref, res, nan_no_drop, weights_given, allnan_chunk, entries, names_explicit):
    """Common judgement of a compat.dask result against the array result."""
    out = []
    if not ref.ok:
        if nan_no_drop:
            if res.ok:
                out.append(V("refused_like_array", f"refused_like_array|{sb}", case, "refused (NaN with dropna=False), as for the array", res.describe()))
            return out, "both_refuse_nan"
        return out, "array_refused:" + res.label
    if not res.ok:
        if weights_given:
            return out, "weights_refused"  # compat.dask does not split weights over chunks: left open
        out.append(V("must_succeed", f"must_succeed|{sb}|allnan_chunk={int(allnan_chunk)}|{exc_sig(res.exc)}", case, "the histogram of the array", res.describe()))
        return out, "raise:" + type(res.exc).__name__
    r, c = ref.value, res.value
    if not hasattr(c, "binnings"):
        out.append(V("equals_array", f"equals_array|{sb}|not_a_histogram", case, "a histogram", repr(c)[:100]))
        return out, "not_a_histogram"
    cr, cc = content_snap(r), content_snap(c)
    cr["dtype"], cc["dtype"] = str(np.dtype(r.dtype)), str(np.dtype(c.dtype))
    cr["class"], cc["class"] = type(r).__name__, type(c).__name__
    cr["name"], cc["name"] = r.name, c.name
    cr["title"], cc["title"] = r.title, c.title
    if names_explicit:
        cr["axis_names"], cc["axis_names"] = tuple(r.axis_names), tuple(c.axis_names)
    if cr != cc:
        dd = diff(cr, cc)
        out.append(V("equals_array", f"equals_array|{sb}|{diff_label(dd)}", case, {k: v[0] for k, v in dd.items()}, {k: v[1] for k, v in dd.items()}))
    elif entries is not None and not stats_close(c.statistics, entries):
        out.append(V("equals_array", f"equals_array|{sb}|statistics", case, stats_snap(r), stats_snap(c)))
    return out, "ok"


def eval_dask1(case):
    import dask.array as da
    from physt import h1
    from physt.compat import dask as pdask
    from mc.sched_dask import enumerating_method

    data = np.array(unjrow(case["data"]), dtype=float)
    chunks = tuple(case["chunks"])
    order = list(case["order"])
    bins, wmode, dropna, kwname = case["bins"], case.get("wmode"), case.get("dropna", True), case.get("kw", "plain")
    bargs, bkw = dask_bins(bins)
    kw = dict(bkw)
    kw.update(KWD1[kwname])
    if not dropna:
        kw["dropna"] = False
    w = np_weights(wmode, len(data))
    if w is not None:
        kw["weights"] = w
    ref = call(h1, data.copy(), *bargs, adaptive=True, **kw)
    arr = da.from_array(data, chunks=(chunks,))
    res = call(pdask.h1, arr, *bargs, dask_method=enumerating_method(order), **kw)
    hasnan = bool(np.isnan(data).any())
    allnan_chunk = any(np.isnan(data[a:b]).all() for a, b in chunk_slices(chunks))
    ww = [1] * len(data) if w is None else w.tolist()
    entries = [(x, wi) for x, wi in zip(data.tolist(), ww) if not isnan(x)]
    sb = f"dask.h1|bins={bins}"
    return dask_compare(case, sb, ref, res, hasnan and not dropna, w is not None, allnan_chunk, entries, kwname == "named")


def eval_dask2(case):
    import dask.array as da
    from physt import h2
    from physt.compat import dask as pdask
    from mc.sched_dask import enumerating_method

    rows = np.array([unjrow(r) for r in case["rows"]], dtype=float).reshape(len(case["rows"]), 2)
    cx, cy = tuple(case["cx"]), tuple(case["cy"])
    order = list(case["order"])
    bins, dropna, names = case["bins"], case.get("dropna", True), case.get("names", True)
    bargs, bkw = dask_bins(bins, 2)
    kw = dict(bkw)
    if names:
        kw["axis_names"] = ["a", "b"]
    if not dropna:
        kw["dropna"] = False
    x, y = rows[:, 0].copy(), rows[:, 1].copy()
    ref = call(h2, x, y, *bargs, adaptive=True, **kw)
    dx = da.from_array(x, chunks=(cx,))
    dy = da.from_array(y, chunks=(cy,))
    res = call(pdask.h2, dx, dy, *bargs, dask_method=enumerating_method(order), **kw)
    bounds = sorted({b for _, b in chunk_slices(cx)} | {b for _, b in chunk_slices(cy)})
    sl = list(zip([0] + bounds[:-1], bounds))
    allnan_chunk = any(np.isnan(rows[a:b]).any(axis=1).all() for a, b in sl)
    hasnan = bool(np.isnan(rows).any())
    sb = f"dask.nd|bins={bins}"
    return dask_compare(case, sb, ref, res, hasnan and not dropna, False, allnan_chunk, None, names)


def eval_daskdd(case):
    import dask.array as da
    from physt import h
    from physt.compat import dask as pdask
    from mc.sched_dask import enumerating_method

    d = case["d"]
    rows = np.array([unjrow(r) for r in case["rows"]], dtype=float).reshape(len(case["rows"]), d)
    crow, ccol = tuple(case["crow"]), tuple(case["ccol"])
    order = list(case["order"])
    func, bins, names = case["func"], case["bins"], case.get("names", True)
    bargs, bkw = dask_bins(bins, d)
    kw = dict(bkw)
    if names:
        kw["axis_names"] = ["a", "b", "c"][:d]
    ref = call(h, rows.copy(), *bargs, adaptive=True, **kw)
    arr = da.from_array(rows, chunks=(crow, ccol))
    f = pdask.h3 if func == "h3" else pdask.histogramdd
    res = call(f, arr, *bargs, dask_method=enumerating_method(order), **kw)
    allnan_chunk = any(np.isnan(rows[a:b]).any(axis=1).all() for a, b in chunk_slices(crow))
    sb = f"dask.nd|bins={bins}"
    return dask_compare(case, sb, ref, res, False, False, allnan_chunk, None, names)


def eval_daskf(case):
    """A dask array handed directly to the facade functions (converted by numpy, synchronous scheduler)."""
    import dask
    import dask.array as da
    from physt import h, h1, h2

    func = case["func"]
    bins, wmode, dropna = case["bins"], case.get("wmode"), case.get("dropna", True)
    out = []
    with dask.config.set(scheduler="synchronous"):
        if func == "h1":
            data = np.array(unjrow(case["data"]), dtype=float)
            bargs, bkw = bins1(bins)
            kw = dict(bkw)
            w = np_weights(wmode, len(data))
            if w is not None:
                kw["weights"] = w
            if not dropna:
                kw["dropna"] = False
            ref = call(h1, data.copy(), *bargs, **kw)
            res = call(h1, da.from_array(data, chunks=(tuple(case["chunks"]),)), *bargs, **kw)
            hasnan = bool(np.isnan(data).any())
        else:
            rows = np.array([unjrow(r) for r in case["rows"]], dtype=float).reshape(len(case["rows"]), 2)
            bargs, bkw = binsnd(bins, 2)
            kw = dict(bkw)
            w = np_weights(wmode, len(rows))
            if w is not None:
                kw["weights"] = w
            if not dropna:
                kw["dropna"] = False
            hasnan = bool(np.isnan(rows).any())
            if func == "h":
                ref = call(h, rows.copy(), *bargs, **kw)
                res = call(h, da.from_array(rows, chunks=(tuple(case["chunks"]), tuple(case.get("ccol", [2])))), *bargs, **kw)
            else:
                ref = call(h2, rows[:, 0].copy(), rows[:, 1].copy(), *bargs, **kw)
                ch = (tuple(case["chunks"]),)
                res = call(h2, da.from_array(rows[:, 0].copy(), chunks=ch), da.from_array(rows[:, 1].copy(), chunks=ch), *bargs, **kw)
    sb = f"{func}|dask_array"
    if not ref.ok:
        if hasnan and not dropna:
            if res.ok:
                out.append(V("refused_like_array", f"refused_like_array|{sb}", case, "refused (NaN with dropna=False), as for the array", res.describe()))
            return out, "both_refuse_nan"
        return out, "array_refused:" + res.label
    if not res.ok:
        out.append(V("must_succeed", f"must_succeed|{sb}|{exc_sig(res.exc)}", case, "the histogram of the array", res.describe()))
        return out, "raise:" + type(res.exc).__name__
    a, b = strip_names(snap(ref.value)), strip_names(snap(res.value))
    if a != b:
        dd = diff(a, b)
        out.append(V("equals_array", f"equals_array|{sb}|{diff_label(dd)}", case, {k: v[0] for k, v in dd.items()}, {k: v[1] for k, v in dd.items()}))
    return out, "ok"


def dask1_configs(thorough):
    cfg = [("fw", None, True, "plain")]
    side = [("edges", None, True, "named"), ("fw", None, False, "plain"), ("fw", "int", True, "plain"), ("fw", None, True, "named")]
    return cfg, side


def run_dask1(unit, ctx, p):
    from mc.sched_dask import compositions

    n = unit["n"]
    main, side = dask1_configs(ctx.thorough)
    if unit.get("select"):
        datasets = [d for d in itertools.product(VALS_DASK, repeat=n)][:: unit["select"]]
    else:
        datasets = list(itertools.product(VALS_DASK, repeat=n))
    comps = list(compositions(n))
    case = None
    for k, data in enumerate(datasets):
        if k % unit["of"] != unit["shard"]:
            continue
        if ctx.expired():
            p.capped = True
            p.notes.append(f"dask1 n={n} shard {unit['shard']}: stopped at data set {k} of {len(datasets)}")
            break
        jd = jrow(data)
        for comp in comps:
            orders = list(itertools.permutations(range(len(comp))))
            for oi, order in enumerate(orders):
                cfgs = list(main)
                if oi == 0 or oi == len(orders) - 1:
                    cfgs += side  # refusal / weights / names do not depend on the order: first and last order only
                for bins, wmode, dropna, kwname in cfgs:
                    case = {"fam": "dask1", "data": jd, "chunks": list(comp), "order": list(order), "bins": bins, "wmode": wmode, "dropna": dropna, "kw": kwname}
                    vs, label = eval_dask1(case)
                    p.ev(len(comp) >= 2 or any(isnan(x) for x in data))
                    p.schedules += 1
                    p.count("dask_executions")
                    p.outcome("dask1:" + label)
                    if vs:
                        p.extend(vs)
            # the same chunking handed to the facade directly
            for bins, wmode, dropna in (("edges", "int", True), ("fw", None, True), ("edges", None, False)):
                fc = {"fam": "daskf", "func": "h1", "data": jd, "chunks": list(comp), "bins": bins, "wmode": wmode, "dropna": dropna}
                vs, label = eval_daskf(fc)
                p.ev(len(comp) >= 2)
                p.count("dask_facade_calls")
                p.outcome("daskf:" + label)
                if vs:
                    p.extend(vs)
    if case:
        p.sample(case)


def unified(cx, cy):
    bounds = sorted({b for _, b in chunk_slices(cx)} | {b for _, b in chunk_slices(cy)})
    return len(bounds)


def run_dask2(unit, ctx, p):
    from mc.sched_dask import compositions

    n = unit["n"]
    datasets = list(itertools.product(ROWS_DASK2, repeat=n))
    comps = list(compositions(n))
    case = None
    for k, rows in enumerate(datasets):
        if k % unit["of"] != unit["shard"]:
            continue
        if ctx.expired():
            p.capped = True
            p.notes.append(f"dask2 n={n} shard {unit['shard']}: stopped at data set {k} of {len(datasets)}")
            break
        jr = [jrow(r) for r in rows]
        for cx in comps:
            for cy in (comps if unit["cross"] else [cx]):
                kk = unified(cx, cy)
                for oi, order in enumerate(itertools.permutations(range(kk))):
                    for bins, dropna, names in ((("fw", True, True), ("edges", True, False), ("fw", False, True)) if oi == 0 else (("fw", True, True),)):
                        case = {"fam": "dask2", "rows": jr, "cx": list(cx), "cy": list(cy), "order": list(order), "bins": bins, "dropna": dropna, "names": names}
                        vs, label = eval_dask2(case)
                        p.ev(kk >= 2 or any(isnan(x) for r in rows for x in r))
                        p.schedules += 1
                        p.count("dask_executions")
                        p.outcome("dask2:" + label)
                        if vs:
                            p.extend(vs)
            for func in ("h", "h2"):
                fc = {"fam": "daskf", "func": func, "rows": jr, "chunks": list(cx), "bins": "edges", "wmode": "int", "dropna": True}
                if func == "h":
                    fc["ccol"] = [1, 1]
                vs, label = eval_daskf(fc)
                p.ev(len(cx) >= 2)
                p.count("dask_facade_calls")
                p.outcome("daskf:" + label)
                if vs:
                    p.extend(vs)
    if case:
        p.sample(case)


def run_daskdd(unit, ctx, p):
    from mc.sched_dask import compositions

    n = unit["n"]
    d = 3
    datasets = list(itertools.product(ROWS_DASK3, repeat=n))
    case = None
    for k, rows in enumerate(datasets):
        if k % unit["of"] != unit["shard"]:
            continue
        if ctx.expired():
            p.capped = True
            p.notes.append(f"daskdd shard {unit['shard']}: stopped at data set {k}")
            break
        jr = [jrow(r) for r in rows]
        for crow in compositions(n):
            for ci, ccol in enumerate(((3,), (1, 2), (1, 1, 1))):
                for order in itertools.permutations(range(len(crow))):
                    func = "h3" if ci != 1 else "histogramdd"
                    case = {"fam": "daskdd", "d": d, "rows": jr, "crow": list(crow), "ccol": list(ccol), "order": list(order), "func": func, "bins": "fw", "names": ci != 2}
                    vs, label = eval_daskdd(case)
                    p.ev(len(crow) >= 2)
                    p.schedules += 1
                    p.count("dask_executions")
                    p.outcome("daskdd:" + label)
                    if vs:
                        p.extend(vs)
    if case:
        p.sample(case)


# =============================================================================================
# (conv) conversions to / from other representations
# =============================================================================================

CONV_BINSETS = ["regular", "irregular", "negative", "single", "gapped", "gapped_irregular", "tiny", "offset", "tinygap"]


def conv_hist(case):
    from physt import h1

    pairs = A.BINSETS[case["binset"]]
    data = unjrow(case["data"])
    wmode = case["wmode"]
    kw = {}
    w = np_weights(wmode, len(data))
    if w is not None:
        kw["weights"] = w
    if not A.is_consecutive(pairs) and wmode != "float":
        kw["dtype"] = float  # integer contents cannot hold the NaN under/overflow markers of gapped bins (known finding C01)
    if case.get("meta"):
        kw.update({"name": "N", "title": "T", "axis_name": "ax"})
    if case.get("km") is False:
        kw["keep_missed"] = False
    return h1(np.array(data, dtype=float), np.array(pairs), **kw)


def preserved(h):
    """What the statement asks conversions to keep: bins, contents, errors, under/overflow (values)."""
    return {
        "bins": tuple(fl(v) for v in np.asarray(h.bins).ravel().tolist()),
        "nbins": int(np.asarray(h.bins).shape[0]),
        "frequencies": tuple(fl(v) for v in np.asarray(h.frequencies).tolist()),
        "errors2": tuple(fl(v) for v in np.asarray(h.errors2).tolist()),
        "underflow": fl(h.underflow),
        "overflow": fl(h.overflow),
    }


def eval_conv(case):
    """xarray round trip + DataFrame / Series / IntervalIndex views of one histogram."""
    from physt.compat import pandas as ppd  # noqa: F401 - registers to_dataframe / to_series
    from physt.compat import xarray as pxr  # noqa: F401 - registers to_xarray / from_xarray
    from physt.types import Histogram1D

    out = []
    hh = conv_hist(case)
    want = preserved(hh)
    gapped = not A.is_consecutive(A.BINSETS[case["binset"]])
    sb = f"{'gapped' if gapped else 'cons'}|w={case['wmode']}"
    kind = case["conv"]
    if kind == "xarray":
        r1 = call(hh.to_xarray)
        if not r1.ok:
            return [V("must_succeed", f"must_succeed|to_xarray|{sb}|{exc_sig(r1.exc)}", case, "a Dataset", r1.describe())], "raise"
        ds = r1.value
        got_ds = {
            "bins": tuple(fl(v) for v in np.asarray(ds["bins"].values).ravel().tolist()),
            "nbins": int(np.asarray(ds["bins"].values).shape[0]),
            "frequencies": tuple(fl(v) for v in np.asarray(ds["frequencies"].values).tolist()),
            "errors2": tuple(fl(v) for v in np.asarray(ds["errors2"].values).tolist()),
            "underflow": fl(ds.attrs.get("underflow")),
            "overflow": fl(ds.attrs.get("overflow")),
        }
        if got_ds != want:
            dd = diff(want, got_ds)
            out.append(V("conversion_preserves", f"to_xarray|{diff_label(dd)}", case, {k: v[0] for k, v in dd.items()}, {k: v[1] for k, v in dd.items()}))
        r2 = call(Histogram1D.from_xarray, ds)
        if not r2.ok:
            out.append(V("must_succeed", f"must_succeed|from_xarray|{sb}|{exc_sig(r2.exc)}", case, "a histogram", r2.describe()))
            return out, "raise"
        got = preserved(r2.value)
        if got != want:
            dd = diff(want, got)
            out.append(V("conversion_preserves", f"xarray_round_trip|{diff_label(dd)}", case, {k: v[0] for k, v in dd.items()}, {k: v[1] for k, v in dd.items()}))
        if snap(hh, stats=False) != snap(conv_hist(case), stats=False):
            out.append(V("source_untouched", f"xarray_modified_source|{sb}", case, "unchanged", "changed"))
        return out, "ok"
    if kind == "frame":
        r1 = call(hh.to_dataframe)
        r2 = call(hh.to_series)
        for nm, r in (("to_dataframe", r1), ("to_series", r2)):
            if not r.ok:
                out.append(V("must_succeed", f"must_succeed|{nm}|{sb}|{exc_sig(r.exc)}", case, "a pandas object", r.describe()))
        if out:
            return out, "raise"
        df, se = r1.value, r2.value
        for nm, obj in (("to_dataframe", df), ("to_series", se)):
            ix = obj.index
            got = {
                "nbins": len(ix),
                "bins": tuple(fl(v) for pair in zip(np.asarray(ix.left).tolist(), np.asarray(ix.right).tolist()) for v in pair),
                "frequencies": tuple(fl(v) for v in np.asarray(obj["frequency"] if nm == "to_dataframe" else obj).tolist()),
            }
            w = {k: want[k] for k in got}
            if nm == "to_dataframe":
                got["errors"] = tuple(fl(v) for v in np.asarray(obj["error"]).tolist())
                w["errors"] = tuple(fl(math.sqrt(v)) for v in want["errors2"])
            if got != w:
                dd = diff(w, got)
                out.append(V("conversion_preserves", f"{nm}|{diff_label(dd)}", case, {k: v[0] for k, v in dd.items()}, {k: v[1] for k, v in dd.items()}))
            r3 = call(ppd.index_to_binning, ix)
            if not r3.ok:
                out.append(V("must_succeed", f"must_succeed|index_to_binning|{sb}|{exc_sig(r3.exc)}", case, "a binning", r3.describe()))
            else:
                back = tuple(fl(v) for v in np.asarray(r3.value.bins).ravel().tolist())
                if back != want["bins"]:
                    out.append(V("conversion_preserves", f"index_round_trip|histogram_index|bins", case, want["bins"], back))
        return out, "ok"
    raise ValueError(kind)


INDEX_BINNINGS = {
    "static_cons": ("Static", "regular", False),
    "static_cons_right": ("Static", "regular", True),
    "static_gapped": ("Static", "gapped", False),
    "static_gapped_right": ("Static", "gapped_irregular", True),
    "static_tinygap": ("Static", "tinygap", True),
    "static_single": ("Static", "single", True),
    "numpy_irregular": ("Numpy", "irregular", True),
    "numpy_negative_open": ("Numpy", "negative", False),
    "numpy_tiny": ("Numpy", "tiny", True),
    "numpy_offset": ("Numpy", "offset", True),
    "fixed_width": ("FixedWidth", "regular", False),
    "fixed_width_tenth": ("FixedWidthTenth", None, False),
    "exponential": ("Exponential", None, False),
}
INDEX_DIRECT = {
    "breaks_left": ("breaks", [0.0, 1.0, 2.5, 4.0], "left", "ok"),
    "arrays_gapped_left": ("arrays", [[0.0, 1.0], [2.0, 3.0]], "left", "ok"),
    "arrays_tinygap_left": ("arrays", [[0.0, 1.0], [1.0 + 2.0 ** -20, 2.0]], "left", "ok"),
    "single_left": ("arrays", [[-1.0, 1.0]], "left", "ok"),
    "int_breaks_left": ("breaks", [0, 1, 2, 3], "left", "ok"),
    "breaks_right": ("breaks", [0.0, 1.0, 2.5, 4.0], "right", "raise"),
    "arrays_gapped_right": ("arrays", [[0.0, 1.0], [2.0, 3.0]], "right", "raise"),
    "single_right": ("arrays", [[-1.0, 1.0]], "right", "raise"),
    "breaks_neither": ("breaks", [0.0, 1.0, 2.5, 4.0], "neither", "raise"),
    "arrays_gapped_neither": ("arrays", [[0.0, 1.0], [2.0, 3.0]], "neither", "raise"),
    "arrays_gapped_both": ("arrays", [[0.0, 1.0], [2.0, 3.0]], "both", "either"),
}


def eval_index(case):
    import pandas as pd
    from physt.binnings import ExponentialBinning, FixedWidthBinning, NumpyBinning, StaticBinning
    from physt.compat import pandas as ppd

    out = []
    name = case["name"]
    if case["kind"] == "binning":
        cls, bs, right = INDEX_BINNINGS[name]
        if cls == "Static":
            b = StaticBinning(np.array(A.BINSETS[bs]), includes_right_edge=right)
        elif cls == "Numpy":
            pairs = A.BINSETS[bs]
            b = NumpyBinning(np.array([pairs[0][0]] + [q[1] for q in pairs]), includes_right_edge=right)
        elif cls == "FixedWidth":
            b = FixedWidthBinning(bin_width=1.0, bin_count=3, bin_times_min=0)
        elif cls == "FixedWidthTenth":
            b = FixedWidthBinning(bin_width=0.1, bin_count=7, bin_times_min=-3)
        else:
            b = ExponentialBinning(log_min=-1.0, log_width=0.5, bin_count=4)
        want = tuple(fl(v) for v in np.asarray(b.bins).ravel().tolist())
        r = call(ppd.binning_to_index, b, case.get("index_name"))
        if not r.ok:
            return [V("must_succeed", f"must_succeed|binning_to_index|{cls}|{exc_sig(r.exc)}", case, "an IntervalIndex", r.describe())], "raise"
        ix = r.value
        got = tuple(fl(v) for pair in zip(np.asarray(ix.left).tolist(), np.asarray(ix.right).tolist()) for v in pair)
        if got != want or not isinstance(ix, pd.IntervalIndex):
            out.append(V("conversion_preserves", f"binning_to_index|{cls}|bins", case, want, got))
        r2 = call(ppd.index_to_binning, ix)
        if not r2.ok:
            out.append(V("must_succeed", f"must_succeed|index_to_binning|{cls}|{exc_sig(r2.exc)}", case, "a binning", r2.describe()))
            return out, "raise"
        back = tuple(fl(v) for v in np.asarray(r2.value.bins).ravel().tolist())
        if back != want:
            out.append(V("conversion_preserves", f"index_round_trip|{cls}|bins", case, want, back))
        if tuple(fl(v) for v in np.asarray(b.bins).ravel().tolist()) != want:
            out.append(V("source_untouched", f"binning_modified|{cls}", case, want, "changed"))
        return out, "ok"
    how, spec, closed, expect = INDEX_DIRECT[name]
    if how == "breaks":
        ix = pd.IntervalIndex.from_breaks(spec, closed=closed)
        want = tuple(fl(float(v)) for i in range(len(spec) - 1) for v in (spec[i], spec[i + 1]))
    else:
        ix = pd.IntervalIndex.from_arrays([q[0] for q in spec], [q[1] for q in spec], closed=closed)
        want = tuple(fl(float(v)) for q in spec for v in q)
    r = call(ppd.index_to_binning, ix)
    if expect == "raise":
        if r.ok:
            out.append(V("must_raise", f"must_raise|index_to_binning|closed={closed}", case, "refused: intervals that are not left-closed cannot be kept", r.describe()))
        return out, "refused" if not r.ok else "accepted"
    if not r.ok:
        if expect == "ok":
            out.append(V("must_succeed", f"must_succeed|index_to_binning|closed={closed}|{exc_sig(r.exc)}", case, "a binning", r.describe()))
        return out, "raise"
    back = tuple(fl(float(v)) for v in np.asarray(r.value.bins).ravel().tolist())
    if back != want:
        out.append(V("conversion_preserves", f"index_to_binning|closed={closed}|bins", case, want, back))
    return out, "ok"


# ---------------------------------------------------------------------------------------------
# Geant4 CSV
# ---------------------------------------------------------------------------------------------

G4_SHIPPED = {"h1": "/repo/tests/data/geant-h1.csv", "h2": "/repo/tests/data/geant-h2.csv"}
G4_AXES = [(1, 0.0, 1.0), (2, 0.0, 2.0), (3, 0.0, 3.0), (4, 0.0, 1.0), (100, 0.0, 800.0), (10, 0.0, 1.0), (3, 0.0, 1.0), (7, 0.0, 0.7),
           (2, -1.0, 1.0), (4, -2.0, 2.0), (3, -1.5, 0.0),
           # lower edge not a multiple of the bin width (Geant4's usual integer-centred axes)
           (3, 0.5, 3.5), (100, 0.5, 100.5), (2, -1.0, 2.0), (3, -1.0, 1.0), (5, -0.3, 0.7), (1, -1.0, 1.0), (4, 0.25, 0.75)]
G4_AXES2 = [((2, 0.0, 2.0), (3, 0.0, 3.0)), ((3, 0.0, 3.0), (2, 0.0, 2.0)), ((2, 0.0, 2.0), (2, 0.0, 1.0)), ((1, 0.0, 1.0), (4, -2.0, 2.0)),
            ((3, 0.0, 1.5), (3, 0.0, 3.0)), ((2, 0.5, 2.5), (3, 0.0, 3.0)), ((4, 0.0, 4.0), (1, 0.0, 1.0))]


def g4_parse(path):
    meta, rows = [], []
    with open(path, encoding="ascii") as f:
        for line in f:
            line = line.strip()
            if not line:
                continue
            if line.startswith("#"):
                parts = line[1:].split(" ", 1)
                meta.append((parts[0], parts[1] if len(parts) > 1 else ""))
            elif line[0].isalpha():
                continue
            else:
                rows.append([float(x) for x in line.split(",")])
    axes = []
    for k, v in meta:
        if k == "axis":
            _, n, lo, hi = v.split()
            axes.append((int(n), float(lo), float(hi)))
    return axes, rows


def g4_write1(path, axis):
    n, lo, hi = axis
    w = (hi - lo) / n
    with open(path, "w", encoding="ascii") as f:
        f.write(f"#class tools::histo::h1d\n#title Generated one\n#dimension 1\n#axis fixed {n} {lo!r} {hi!r}\n#annotation axis_x.title\n#bin_number {n + 2}\n")
        f.write("entries,Sw,Sw2,Sxw0,Sx2w0\n")
        for k in range(n + 2):
            kk = k % 40
            sw = float(2 ** kk) + 0.5
            sw2 = float(4 ** (kk % 20)) + 0.25
            x = lo + (k - 0.5) * w
            f.write(f"{k + 1},{sw!r},{sw2!r},{sw * x!r},{sw * x * x!r}\n")


def g4_write2(path, ax, ay):
    nx, xlo, xhi = ax
    ny, ylo, yhi = ay
    wx, wy = (xhi - xlo) / nx, (yhi - ylo) / ny
    with open(path, "w", encoding="ascii") as f:
        f.write("#class tools::histo::h2d\n#title Generated two\n#dimension 2\n")
        f.write(f"#axis fixed {nx} {xlo!r} {xhi!r}\n#axis fixed {ny} {ylo!r} {yhi!r}\n#planes_Sxyw 0\n#annotation axis_x.title\n#annotation axis_y.title\n#bin_number {(nx + 2) * (ny + 2)}\n")
        f.write("entries,Sw,Sw2,Sxw0,Sx2w0,Sxw1,Sx2w1\n")
        for j in range(ny + 2):
            for i in range(nx + 2):  # x index runs fastest, as in the shipped file
                k = i + (nx + 2) * j
                sw = float(2 ** k)
                sw2 = float(2 ** k) + 0.5
                x = xlo + (i - 0.5) * wx
                y = ylo + (j - 0.5) * wy
                f.write(f"{k + 1},{sw!r},{sw2!r},{sw * x!r},{sw * x * x!r},{sw * y!r},{sw * y * y!r}\n")


def g4_edges_ok(bins, axis):
    n, lo, hi = axis
    bins = np.asarray(bins)
    if bins.shape != (n, 2):
        return False
    w = (hi - lo) / n
    tol = 1e-12 * max(abs(lo), abs(hi), hi - lo)
    for k in range(n):
        if abs(bins[k, 0] - (lo + k * w)) > tol or abs(bins[k, 1] - (lo + (k + 1) * w)) > tol:
            return False
    return True


def g4_aligned(axis):
    n, lo, hi = axis
    w = (hi - lo) / n
    q = lo / w
    return abs(q - round(q)) < 1e-9


def g4_judge(case, path, dim):
    from physt.compat import geant4

    out = []
    axes, rows = g4_parse(path)
    aligned = int(all(g4_aligned(a) for a in axes))
    r = call(geant4.load_csv, path)
    sb = f"geant4|h{dim}"
    if not r.ok:
        return [V("must_succeed", f"must_succeed|{sb}|grid_aligned={aligned}|{exc_sig(r.exc)}", case, "the histogram stored in the file", r.describe())], "raise"
    hh = r.value
    if hh.ndim != dim:
        return [V("conversion_preserves", f"{sb}|ndim", case, dim, hh.ndim)], "ok"
    for a, (ax, b) in enumerate(zip(axes, [hh.bins] if dim == 1 else hh.bins)):
        if not g4_edges_ok(b, ax):
            out.append(V("conversion_preserves", f"{sb}|bins|grid_aligned={aligned}", case, {"axis": a, "declared": list(ax)}, np.asarray(b)))
            return out, "ok"
    if dim == 1:
        n = axes[0][0]
        want = {
            "frequencies": tuple(fl(rw[1]) for rw in rows[1:-1]),
            "errors2": tuple(fl(rw[2]) for rw in rows[1:-1]),
            "underflow": fl(rows[0][1]),
            "overflow": fl(rows[-1][1]),
        }
        got = {
            "frequencies": tuple(fl(v) for v in np.asarray(hh.frequencies).tolist()),
            "errors2": tuple(fl(v) for v in np.asarray(hh.errors2).tolist()),
            "underflow": fl(hh.underflow),
            "overflow": fl(hh.overflow),
        }
        if len(rows) != n + 2:
            return out, "malformed_file"
        if got != want:
            dd = diff(want, got)
            out.append(V("conversion_preserves", f"{sb}|{diff_label(dd)}", case, {k: v[0] for k, v in dd.items()}, {k: v[1] for k, v in dd.items()}))
        return out, "ok"
    # 2-D: a line's content belongs to the cell that contains the line's own mean position
    (nx, xlo, xhi), (ny, ylo, yhi) = axes
    bx, by = np.asarray(hh.bins[0]), np.asarray(hh.bins[1])
    bad = []
    placed = 0
    for k, rw in enumerate(rows):
        sw = rw[1]
        if sw == 0:
            continue
        mx, my = rw[3] / sw, rw[5] / sw
        if not (xlo < mx < xhi and ylo < my < yhi):
            continue  # an under / overflow line
        i = int(np.searchsorted(bx[:, 0], mx, side="right")) - 1
        j = int(np.searchsorted(by[:, 0], my, side="right")) - 1
        placed += 1
        if fl(hh.frequencies[i, j]) != fl(sw) or fl(hh.errors2[i, j]) != fl(rw[2]):
            bad.append({"line": k, "mean": [mx, my], "cell": [i, j], "Sw": sw, "Sw2": rw[2], "found": [fl(hh.frequencies[i, j]), fl(hh.errors2[i, j])]})
    total_in = sum(rw[1] for rw in rows if rw[1] and xlo < rw[3] / rw[1] < xhi and ylo < rw[5] / rw[1] < yhi)
    if bad:
        out.append(V("conversion_preserves", f"{sb}|cell_placement", case, "every line's Sw / Sw2 in the cell containing its mean position", bad[:4]))
    elif fl(float(np.asarray(hh.frequencies).sum())) != fl(float(total_in)):
        out.append(V("conversion_preserves", f"{sb}|total", case, total_in, float(np.asarray(hh.frequencies).sum())))
    return out, "ok"


def eval_g4(case):
    src = case["source"]
    if src == "shipped":
        path = G4_SHIPPED[case["file"]]
        if not os.path.exists(path):
            return [], "file_missing"
        return g4_judge(case, path, 1 if case["file"] == "h1" else 2)
    tmp = tempfile.mkdtemp(prefix="c17-g4-", dir="/var/tmp")
    try:
        path = os.path.join(tmp, "gen.csv")
        if src == "gen1":
            g4_write1(path, tuple(case["axis"]))
            return g4_judge(case, path, 1)
        g4_write2(path, tuple(case["ax"]), tuple(case["ay"]))
        return g4_judge(case, path, 2)
    finally:
        shutil.rmtree(tmp, ignore_errors=True)


# =============================================================================================
# units / run / replay
# =============================================================================================


def units(tier, seed):
    thorough = tier == "thorough"
    us = []
    us.append({"fam": "refuse"})
    us.append({"fam": "g4"})
    us.append({"fam": "index"})
    for bs in CONV_BINSETS:
        us.append({"fam": "conv", "binset": bs, "L": 2})
    k1 = 48 if thorough else 24
    for s in range(k1):
        us.append({"fam": "c1", "L": 5 if thorough else 4, "full_upto": 4 if thorough else 3, "configs": tier, "shard": s, "of": k1})
    k2 = 24 if thorough else 12
    for s in range(k2):
        us.append({"fam": "nd", "d": 2, "L": 4 if thorough else 3, "thin": thorough, "configs": tier, "shard": s, "of": k2})
    k3 = 8 if thorough else 2
    for s in range(k3):
        us.append({"fam": "nd", "d": 3, "L": 3 if thorough else 2, "configs": tier, "shard": s, "of": k3})
    for n in (1, 2):
        us.append({"fam": "dask1", "n": n, "shard": 0, "of": 1})
    for s in range(2):
        us.append({"fam": "dask1", "n": 3, "shard": s, "of": 2})
    for s in range(16):
        us.append({"fam": "dask1", "n": 4, "shard": s, "of": 16})
    for n in (1, 2):
        us.append({"fam": "dask2", "n": n, "cross": True, "shard": 0, "of": 1})
    for s in range(12):
        us.append({"fam": "dask2", "n": 3, "cross": True, "shard": s, "of": 12})
    for n in (1, 2):
        us.append({"fam": "daskdd", "n": n, "shard": 0, "of": 1})
    for s in range(2):
        us.append({"fam": "daskdd", "n": 3, "shard": s, "of": 2})
    if thorough:
        for s in range(32):
            us.append({"fam": "dask1", "n": 5, "shard": s, "of": 32})
        for s in range(48):
            us.append({"fam": "dask1", "n": 6, "select": 85, "shard": s, "of": 48})
        for s in range(32):
            us.append({"fam": "dask2", "n": 4, "cross": False, "shard": s, "of": 32})
    return us


def run_conv(unit, ctx, p):
    pairs = A.BINSETS[unit["binset"]]
    vals = A.edge_alphabet(pairs, nan=True)
    case = None
    for k, data in enumerate(A.tuples_upto(vals, unit["L"])):
        if (k & 63) == 0 and ctx.expired():
            p.capped = True
            p.notes.append(f"conv {unit['binset']}: stopped after {k} data sets")
            break
        for wmode in (None, "int", "float"):
            for conv in ("xarray", "frame"):
                case = {"fam": "conv", "conv": conv, "binset": unit["binset"], "data": jrow(data), "wmode": wmode, "meta": bool(k % 2), "km": (k % 3 != 2)}
                vs, label = eval_conv(case)
                p.ev(any(A.classify(x, pairs) != "inside" for x in data) or wmode is not None)
                p.count("round_trips")
                p.outcome(f"conv:{conv}:{label}")
                if vs:
                    p.extend(vs)
        if k == 30:
            p.sample(case)


def run_unit(unit, ctx):
    p = Partial()
    fam = unit["fam"]
    if fam == "c1":
        run_c1(unit, ctx, p)
    elif fam == "nd":
        run_nd(unit, ctx, p)
    elif fam == "refuse":
        run_refusals(unit, ctx, p)
    elif fam == "dask1":
        run_dask1(unit, ctx, p)
    elif fam == "dask2":
        run_dask2(unit, ctx, p)
    elif fam == "daskdd":
        run_daskdd(unit, ctx, p)
    elif fam == "conv":
        run_conv(unit, ctx, p)
    elif fam == "index":
        case = None
        for name in INDEX_BINNINGS:
            for nm in (None, "nm"):
                case = {"fam": "index", "kind": "binning", "name": name, "index_name": nm}
                vs, label = eval_index(case)
                p.ev(True)
                p.count("round_trips")
                p.outcome("index:" + label)
                p.extend(vs)
        for name in INDEX_DIRECT:
            case = {"fam": "index", "kind": "direct", "name": name}
            vs, label = eval_index(case)
            p.ev(True)
            p.count("round_trips")
            p.outcome("index:" + label)
            p.extend(vs)
        p.sample(case)
    elif fam == "g4":
        cases = [{"fam": "g4", "source": "shipped", "file": "h1"}, {"fam": "g4", "source": "shipped", "file": "h2"}]
        cases += [{"fam": "g4", "source": "gen1", "axis": list(a)} for a in G4_AXES]
        cases += [{"fam": "g4", "source": "gen2", "ax": list(a), "ay": list(b)} for a, b in G4_AXES2]
        for case in cases:
            vs, label = eval_g4(case)
            if label == "file_missing":
                p.notes.append(f"shipped Geant4 file {case['file']} not found: skipped")
                continue
            p.ev(True)
            p.count("geant4_files")
            p.outcome("g4:" + label)
            p.extend(vs)
        p.sample(cases[1])
    else:
        raise ValueError(fam)
    return p


def replay(case):
    fam = case["fam"]
    if fam == "c1":
        return eval_c1(case)[0]
    if fam == "nd":
        return eval_nd(case)[0]
    if fam == "refuse":
        return eval_refusal(case)[0]
    if fam == "dask1":
        return eval_dask1(case)[0]
    if fam == "dask2":
        return eval_dask2(case)[0]
    if fam == "daskdd":
        return eval_daskdd(case)[0]
    if fam == "daskf":
        return eval_daskf(case)[0]
    if fam == "conv":
        return eval_conv(case)[0]
    if fam == "index":
        return eval_index(case)[0]
    if fam == "g4":
        return eval_g4(case)[0]
    raise ValueError(fam)
