"""C03 - incremental filling (fill / fill_n) equals batch construction.

Engine E2: explicit-state BFS.  State = multiset of entries entered so far (+ 'a float weight was
seen').  Oracles: reference model after every transition, batch construction for every state,
confluence (every path to a multiset gives the same snapshot), return values of fill / find_bin,
keep_missed=False frame condition.
"""
from __future__ import annotations

import itertools
import math
import re

import numpy as np

from mc import alphabet as A
from mc import histories as H
from mc.core import Partial, V
from mc.outcome import call
from mc.refmodel import Ref1D, RefND, eq_exact
from fractions import Fraction

from mc.snapshot import content_snap, diff, fl, snap

ID = "C03"
LEVEL = "model_checking"
RULE = (
    "Explicit-state BFS over histories of fill(v[,w]) / h << v / fill_n(batch[,weights]) / find_bin(v) on live 1D, 2D and 3D "
    "histograms (regular, irregular, gapped bins; Static/Numpy/FixedWidth binnings; right-inclusive or not; keep_missed on/off; "
    "int/float start dtype). State = multiset of entries (value, weight) + float-weight flag; values from the edge alphabet of "
    "each axis (below, edges, midpoints, gap, last edge and its ulp neighbours, above, NaN). Every transition is compared with "
    "the entry-list reference model; every state with batch construction; every second path to a state with the first "
    "(confluence). A transition is non-trivial when its values include an edge, ulp neighbour, gap, outside value or NaN, or "
    "when it is a batch of >= 2 entries."
)
ASSUMPTIONS = [
    "state abstraction = multiset of entries + float flag; validated by path-exhaustive DFS on fresh objects",
    "weights are dyadic so that all sums are exact in every summation order",
    "for non-consecutive bins underflow/overflow may read NaN ('unknown') or the exact count, never a wrong number",
    "return value of fill for a NaN value, and for an outside value with keep_missed=False, is not fixed by the statement",
]
BOUNDS = {
    "quick": "1D: multisets<=3 over 8 values x 2 weights, batches<=2; ND: multisets<=2 over 12-14 rows x 2 weights, batches<=2; DFS depth 2-3",
    "thorough": "1D: multisets<=4 over 12 values x 3 weights, batches<=3; ND: multisets<=3, batches<=2; DFS depth 3-4",
}
BUDGET = {"quick": 240, "thorough": 3000}

NAN = float("nan")


def isnan(v):
    return isinstance(v, float) and math.isnan(v)


def vkey(v):
    if isinstance(v, tuple):
        return tuple(vkey(x) for x in v)
    return "nan" if isnan(v) else float(v)


def exc_sig(e):
    msg = re.sub(r"[^A-Za-z ]+", "", str(e))[:40].strip()
    return f"{type(e).__name__}:{msg}"


# ---------------------------------------------------------------------------------------------
# configurations
# ---------------------------------------------------------------------------------------------

AX = {
    "regular": A.pairs_from_edges([0, 1, 2, 3]),
    "irregular": A.pairs_from_edges([0, 1, 2.5, 4]),
    "gapped": [(0.0, 1.0), (2.0, 3.0)],
    "two": A.pairs_from_edges([0, 1, 2]),
    "one": A.pairs_from_edges([-1, 1]),
    "three_irr": A.pairs_from_edges([0, 0.5, 2, 3]),
}


def axis_values(pairs, level):
    edges = A.distinct_edges(pairs)
    first, last = edges[0], edges[-1]
    span = last - first
    vals = [first - span, first, (pairs[0][0] + pairs[0][1]) / 2]
    if len(edges) > 2:
        vals.append(edges[1])
    if not A.is_consecutive(pairs):
        for i in range(len(pairs) - 1):
            if pairs[i][1] != pairs[i + 1][0]:
                vals.append((pairs[i][1] + pairs[i + 1][0]) / 2)
                if level >= 2:
                    vals.append(pairs[i][1])
                    vals.append(pairs[i + 1][0])
                break
    vals += [last, A.nxt(last, True), last + span]
    if level >= 2:
        vals += [A.nxt(last, False), A.nxt(first, False), (pairs[-1][0] + pairs[-1][1]) / 2]
        if len(edges) > 3:
            vals.append(edges[2])
    out = []
    for v in vals:
        if v not in out:
            out.append(v)
    out.append(NAN)
    return out


def nd_rows(axes, level):
    """Rows covering every class of each axis while the others are inside, plus a few combinations."""
    per_axis = [axis_values(ax, 1) for ax in axes]
    inside = [(ax[0][0] + ax[0][1]) / 2 for ax in axes]
    rows = []
    for a, vals in enumerate(per_axis):
        for v in vals:
            r = list(inside)
            r[a] = v
            rows.append(tuple(r))
    # combinations: all outside, last edges everywhere, first edges everywhere
    rows.append(tuple(ax[-1][1] for ax in axes))
    rows.append(tuple(ax[0][0] for ax in axes))
    rows.append(tuple(ax[-1][1] + 1 for ax in axes))
    if level >= 2:
        rows.append(tuple(ax[0][0] - 1 for ax in axes))
        rows.append(tuple(A.nxt(ax[-1][1], False) for ax in axes))
    out = []
    seen = set()
    for r in rows:
        k = vkey(r)
        if k not in seen:
            seen.add(k)
            out.append(r)
    return out


def configs(tier):
    thorough = tier == "thorough"
    cs = []
    n1 = 4 if thorough else 3
    lvl = 2 if thorough else 1
    for axname in ("regular", "irregular", "gapped"):
        for km in (True, False):
            for start in ("int", "float"):
                if axname == "gapped" and start == "int":
                    continue
                for klass in ("Static", "Numpy", "FixedWidth"):
                    if klass == "Numpy" and axname == "gapped":
                        continue
                    if klass == "FixedWidth" and axname != "regular":
                        continue
                    if not thorough and klass != "Static" and not (km and start == "int"):
                        continue
                    cs.append({"dim": 1, "axes": [axname], "klass": klass, "right": [klass == "Numpy"], "keep_missed": km,
                               "start": start, "weights": [None, 0.5], "N": n1, "B": 3 if thorough else 2, "level": lvl,
                               "dfs": 3 if not thorough else 3})
    # integer weights keep the dtype integral
    cs.append({"dim": 1, "axes": ["regular"], "klass": "Static", "right": [False], "keep_missed": True, "start": "int",
               "weights": [None, 2], "N": n1, "B": 2, "level": lvl, "dfs": 2})
    # histories that start from copy(include_frequencies=False) of a filled histogram
    cs.append({"dim": 1, "axes": ["regular"], "klass": "Static", "right": [False], "keep_missed": True, "start": "int",
               "weights": [None, 2], "N": 2, "B": 2, "level": 1, "dfs": 2, "via_empty_copy": True})
    cs.append({"dim": 2, "axes": ["two", "three_irr"], "klass": "Static", "right": [True, False], "keep_missed": True, "start": "int",
               "weights": [None, 0.5], "N": 2, "B": 1, "level": 1, "dfs": 1, "via_empty_copy": True})
    # integer contents on gapped bins (was the known defect region before repair 932e147), tiny bound
    cs.append({"dim": 1, "axes": ["gapped"], "klass": "Static", "right": [False], "keep_missed": True, "start": "int",
               "weights": [None], "N": 1, "B": 1, "level": 1, "dfs": 1})
    n2 = 3 if thorough else 2
    for axes, right in (
        (["two", "three_irr"], [True, True]),
        (["two", "three_irr"], [False, False]),
        (["gapped", "two"], [True, False]),
    ):
        for km in (True, False):
            for start in ("int", "float"):
                if not thorough and start == "float" and km:
                    continue
                cs.append({"dim": 2, "axes": axes, "klass": "Static", "right": right, "keep_missed": km, "start": start,
                           "weights": [None, 0.5], "N": n2, "B": 2, "level": lvl, "dfs": 2})
    cs.append({"dim": 2, "axes": ["two", "regular"], "klass": "Numpy", "right": [True, False], "keep_missed": True, "start": "int",
               "weights": [None, 0.5], "N": n2, "B": 2, "level": lvl, "dfs": 2})
    for km in (True, False):
        cs.append({"dim": 3, "axes": ["two", "one", "three_irr"], "klass": "Static", "right": [True, False, True], "keep_missed": km,
                   "start": "int", "weights": [None, 0.5], "N": 2, "B": 2 if thorough else 1, "level": 1, "dfs": 2})
    return cs


def make_binning(pairs, klass, right):
    from physt.binnings import FixedWidthBinning, NumpyBinning, StaticBinning

    if klass == "Static":
        return StaticBinning(np.array(pairs), includes_right_edge=right)
    if klass == "Numpy":
        return NumpyBinning(np.array([pairs[0][0]] + [p[1] for p in pairs]), includes_right_edge=right)
    if klass == "FixedWidth":
        w = pairs[0][1] - pairs[0][0]
        return FixedWidthBinning(bin_width=w, bin_count=len(pairs), bin_times_min=int(round(pairs[0][0] / w)), includes_right_edge=right)
    raise ValueError(klass)


class FillSystem(H.System):
    def __init__(self, cfg):
        self.cfg = cfg
        self.dim = cfg["dim"]
        self.axes = [AX[a] for a in cfg["axes"]]
        self.km = cfg["keep_missed"]
        self.N = cfg["N"]
        self.B = cfg["B"]
        self.gapped = any(not A.is_consecutive(ax) for ax in self.axes)
        if self.dim == 1:
            self.values = axis_values(self.axes[0], cfg["level"])
        else:
            self.values = nd_rows(self.axes, cfg["level"])
        self.entries = [(v, w) for v in self.values for w in cfg["weights"]]
        self._ops_cache = {}

    # -- construction ------------------------------------------------------------------------
    def binnings(self):
        return [make_binning(ax, self.cfg["klass"], r) for ax, r in zip(self.axes, self.cfg["right"])]

    def init(self):
        from physt.types import Histogram1D, Histogram2D, HistogramND

        dtype = np.int64 if self.cfg["start"] == "int" else np.float64
        b = self.binnings()
        if self.dim == 1:
            obj = Histogram1D(b[0], keep_missed=self.km, dtype=dtype)
        elif self.dim == 2:
            obj = Histogram2D(b, keep_missed=self.km, dtype=dtype)
        else:
            obj = HistogramND(b, dimension=self.dim, keep_missed=self.km, dtype=dtype)
        if self.cfg.get("via_empty_copy"):
            # start from the emptied copy of a filled histogram instead of a freshly constructed one
            inside = [(ax[0][0] + ax[0][1]) / 2 for ax in self.axes]
            obj.fill(inside[0] if self.dim == 1 else np.array(inside))
            obj.fill(inside[0] if self.dim == 1 else np.array(inside))
            obj = obj.copy(include_frequencies=False)
        return ((), self.cfg["start"] == "float"), obj

    def key(self, model):
        return model

    # -- alphabet of operations ------------------------------------------------------------------
    def ops(self, model):
        size = len(model[0])
        room = self.N - size
        if room not in self._ops_cache:
            ops = []
            for v in self.values:
                ops.append(("find_bin", vkey(v)))
            for v, w in self.entries:
                if room >= 1 or isnan_row(v):
                    ops.append(("fill", vkey(v), w))
            for v in self.values:
                if room >= 1 or isnan_row(v):
                    ops.append(("lshift", vkey(v)))
            ops.append(("fill_n", (), None))
            ops.append(("fill_n", (), ()))
            for n in range(1, self.B + 1):
                for combo in itertools.product(self.entries, repeat=n):
                    ws = [w for _, w in combo]
                    if any(w is None for w in ws) and not all(w is None for w in ws):
                        continue
                    real = sum(0 if isnan_row(v) else 1 for v, _ in combo)
                    if real > room:
                        continue
                    vals = tuple(vkey(v) for v, _ in combo)
                    ops.append(("fill_n", vals, None if ws[0] is None else tuple(ws)))
            self._ops_cache[room] = ops
        return self._ops_cache[room]

    # -- reference model -------------------------------------------------------------------------
    def ref(self, entries):
        if self.dim == 1:
            r = Ref1D(self.axes[0])
        else:
            r = RefND(self.axes, self.cfg["right"])
        for v, w in entries:
            r.add(unkey(v), w)
        return r

    def expected(self, model):
        entries, flt = model
        r = self.ref(entries)
        if self.dim == 1:
            c, e2, under, over, gap = r.contents()
            return {"c": c, "e2": e2, "under": under, "over": over, "float": flt}
        c, e2, missed = r.dense()
        return {"c": c, "e2": e2, "missed": missed, "float": flt}

    def observe_problems(self, obj, model):
        """Compare the live object with the reference model; list of (field, expected, observed)."""
        exp = self.expected(model)
        probs = []
        freq = obj.frequencies.ravel().tolist()
        err = obj.errors2.ravel().tolist()
        if len(freq) != len(exp["c"]) or not all(eq_exact(o, e) for o, e in zip(freq, exp["c"])):
            probs.append(("frequencies", [float(x) for x in exp["c"]], freq))
        if len(err) != len(exp["e2"]) or not all(eq_exact(o, e) for o, e in zip(err, exp["e2"])):
            probs.append(("errors2", [float(x) for x in exp["e2"]], err))
        if self.dim == 1:
            for name, e in (("underflow", exp["under"]), ("overflow", exp["over"])):
                o = getattr(obj, name)
                if not self.km:
                    if not np.isnan(o):
                        probs.append((name, "nan (keep_missed=False)", fl(o)))
                elif self.gapped:
                    if not (np.isnan(o) or eq_exact(o, e)):
                        probs.append((name, f"nan or {float(e)}", fl(o)))
                elif not eq_exact(o, e):
                    probs.append((name, float(e), fl(o)))
        else:
            o = obj.missed
            e = exp["missed"] if self.km else 0
            if not eq_exact(o, e):
                probs.append(("missed", float(e), fl(o)))
        kind = np.dtype(obj.dtype).kind
        want = "f" if exp["float"] else "i"
        if (kind == "f") != (want == "f"):
            probs.append(("dtype", want, str(obj.dtype)))
        if obj.frequencies.dtype != np.dtype(obj.dtype) or obj.errors2.dtype != np.dtype(obj.dtype):
            probs.append(("dtype_consistency", str(obj.dtype), [str(obj.frequencies.dtype), str(obj.errors2.dtype)]))
        return probs

    def index(self, v):
        r = self.ref(())
        return r.index(unkey(v))

    COARSE = {"under": "under", "under-ulp": "under", "over": "over", "over-ulp": "over", "gap": "gap", "ulp-gap": "gap",
              "last-edge": "last-edge", "first-edge": "edge", "inner-edge": "edge", "gap-left-edge": "gap-left-edge",
              "gap-right-edge": "edge", "inside": "inside", "ulp-inside": "inside", "nan": "nan"}

    def vclass(self, v):
        """Coarse class of a value / row (used in signatures and for non-triviality)."""
        v = unkey(v)
        if self.dim == 1:
            return self.COARSE[A.classify(v, self.axes[0])]
        cls = [self.COARSE[A.classify(x, ax)] for x, ax in zip(v, self.axes)]
        if "nan" in cls:
            return "nan"
        if any(c in ("under", "over", "gap", "gap-left-edge") for c in cls):
            return "outside"
        for a, c in enumerate(cls):
            if c == "last-edge":
                return "last-edge-closed" if self.cfg["right"][a] and all(
                    cc != "last-edge" or self.cfg["right"][aa] for aa, cc in enumerate(cls)) else "last-edge-open"
        if "edge" in cls:
            return "edge"
        return "inside"

    def sigbase(self):
        c = self.cfg
        return f"{self.dim}D|{'gapped' if self.gapped else 'cons'}|right={''.join(str(int(r)) for r in c['right'])}|km={int(self.km)}|start={c['start']}"

    def describe(self, hist, op):
        return {"config": self.cfg, "history": H.listify(hist), "op": H.listify(op)}

    def confluence_signature(self, model, s_old, s_new):
        from mc.snapshot import diff

        return f"confluence|{self.sigbase()}|fields={'+'.join(sorted(diff(s_old, s_new)))}"

    def snap(self, obj):
        s = snap(obj, meta=False, stats=False)
        if self.dim == 1 and self.gapped:
            # 'unknown' vs exact is left open for non-consecutive bins
            s["underflow"] = s["overflow"] = "gapped"
        return s

    def nontrivial(self, model, op, model2):
        kind = op[0]
        if kind == "fill_n":
            return len(op[1]) >= 2 or any(self.vclass(v) != "inside" for v in op[1])
        return self.vclass(op[1]) != "inside"

    # -- one transition on the real code ---------------------------------------------------------
    def step(self, model, obj, op, hist):
        entries, flt = model
        kind = op[0]
        case = None
        vs = []
        sb = self.sigbase()

        def mk(oracle, sig, expected, observed):
            return V(oracle, sig, self.describe(hist, op), expected, observed)

        if kind == "find_bin":
            v = unkey(op[1])
            before = self.snap(obj)
            arg = v if self.dim == 1 else np.array(v)
            res = call(obj.find_bin, arg)
            cl = self.vclass(op[1])
            if "nan" in cl:
                return model, [], True  # not fixed by the statement
            if not res.ok:
                return model, [mk("find_bin_succeeds", f"find_bin_raises|{sb}|{cl}|{exc_sig(res.exc)}", "an index", res.describe())], True
            want = self.index(op[1])
            got = res.value
            if not same_index(got, want):
                vs.append(mk("find_bin_index", f"find_bin_index|{sb}|{cl}", want, got))
            if self.snap(obj) != before:
                vs.append(mk("find_bin_pure", f"find_bin_pure|{sb}|{cl}", "unchanged", "changed"))
            return model, vs, True

        # --- mutating ops
        if kind in ("fill", "lshift"):
            v = unkey(op[1])
            w = op[2] if kind == "fill" else None
            new_entries = entries if isnan_row(v) else tuple(sorted(entries + ((op[1], 1 if w is None else w),), key=repr))
            flt2 = flt or isinstance(w, float)
            cl = self.vclass(op[1])
            arg = v if self.dim == 1 else np.array(v)
            if kind == "lshift":
                res = call(obj.__lshift__, arg)
            elif w is None:
                res = call(obj.fill, arg)
            else:
                res = call(obj.fill, arg, w)
            opsig = f"{kind}{'_w' if w is not None else ''}"
        else:
            vals = [unkey(v) for v in op[1]]
            ws = op[2]
            add = tuple((k, 1 if ws is None else ws[i]) for i, k in enumerate(op[1]) if not isnan_row(unkey(k)))
            new_entries = tuple(sorted(entries + add, key=repr))
            flt2 = flt or (ws is not None and (len(ws) == 0 or any(isinstance(x, float) for x in ws)))
            cl = "+".join(sorted({self.vclass(k) for k in op[1]})) or "empty"
            if self.dim == 1:
                arr = np.array(vals, dtype=float)
            else:
                arr = np.array(vals, dtype=float).reshape(len(vals), self.dim)
            if ws is None:
                res = call(obj.fill_n, arr)
            else:
                warr = np.array(ws, dtype=(float if (len(ws) == 0 or any(isinstance(x, float) for x in ws)) else np.int64))
                res = call(obj.fill_n, arr, warr)
            opsig = f"fill_n{len(vals)}{'_w' if ws is not None else ''}"
        model2 = (new_entries, flt2)
        if not res.ok:
            return None, [mk("must_succeed", f"must_succeed|{sb}|{opsig}|{cl}|{exc_sig(res.exc)}", "accepted", res.describe())], False
        if new_entries == entries:
            # nothing was entered (NaN value, empty or all-NaN batch): whether the weight type still
            # promotes the dtype is left open by the statement
            flt2 = flt or np.dtype(obj.dtype).kind == "f"
            model2 = (new_entries, flt2)
        probs = self.observe_problems(obj, model2)
        for field, e, o in probs:
            vs.append(mk("model", f"model|{sb}|{opsig}|{cl}|{field}", {field: e}, {field: o}))
        if kind == "fill" and not vs:
            want = self.index(op[1])
            got = res.value
            outside = want in (-1, len(self.axes[0])) if self.dim == 1 else want is None
            if "nan" in cl or (outside and not self.km):
                pass  # left open by the statement
            elif not same_index(got, want):
                vs.append(mk("fill_return", f"fill_return|{sb}|{opsig}|{cl}", want, got))
        loop = model2 == model
        return model2, vs, loop


def same_index(got, want):
    if want is None:
        return got is None
    if got is None:
        return False
    if isinstance(want, tuple):
        try:
            return tuple(int(x) for x in got) == tuple(want)
        except (TypeError, ValueError):
            return False
    try:
        return int(got) == want and not isinstance(got, bool)
    except (TypeError, ValueError):
        return False


def isnan_row(v):
    if isinstance(v, (tuple, list)):
        return any(isnan_row(x) for x in v)
    return v == "nan" or isnan(v)


def unkey(v):
    if isinstance(v, (tuple, list)):
        return tuple(unkey(x) for x in v)
    return NAN if v == "nan" else v


# ---------------------------------------------------------------------------------------------


def batch_check(sys_):
    """on_new_state hook: batch construction of the state's entries must give the same contents."""
    from physt import h1
    from physt.types import Histogram2D, HistogramND

    def hook(model, obj, hist):
        entries, flt = model
        vals = [unkey(v) for v, _ in entries]
        ws = [w for _, w in entries]
        weighted = any(w != 1 for w in ws)
        b = sys_.binnings()
        out = []
        if sys_.dim == 1:
            kw = {"weights": np.array(ws)} if weighted else {}
            if sys_.cfg["start"] == "float":
                kw["dtype"] = float
            res = call(h1, np.array(vals, dtype=float), b[0], keep_missed=sys_.km, **kw)
        else:
            klass = Histogram2D if sys_.dim == 2 else HistogramND
            arr = np.array(vals, dtype=float).reshape(len(vals), sys_.dim)
            kw = {"weights": np.array(ws)} if weighted else {}
            res = call(klass.from_calculate_frequencies, arr, b, keep_missed=sys_.km, **kw)
        case = {"config": sys_.cfg, "history": H.listify(hist), "op": ["construct_batch"]}
        sb = sys_.sigbase()
        if not res.ok:
            if sys_.dim == 1 and sys_.gapped and sys_.cfg["start"] == "int":
                return out
            cl = "+".join(sorted({sys_.vclass(v) for v, _ in entries})) or "empty"
            out.append(V("batch_constructs", f"batch_raises|{sb}|{cl}|{exc_sig(res.exc)}", case, "a histogram", res.describe()))
            return out
        hb = res.value
        a, c = obj, hb
        fa, fc = a.frequencies.ravel().tolist(), c.frequencies.ravel().tolist()
        ea, ec = a.errors2.ravel().tolist(), c.errors2.ravel().tolist()
        cl = "+".join(sorted({sys_.vclass(v) for v, _ in entries})) or "empty"
        if fa != fc:
            out.append(V("batch_equal", f"batch|{sb}|{cl}|frequencies", case, fc, fa))
        if ea != ec:
            out.append(V("batch_equal", f"batch|{sb}|{cl}|errors2", case, ec, ea))
        if sys_.dim == 1:
            if sys_.km and not sys_.gapped:
                if fl(a.underflow) != fl(c.underflow) or fl(a.overflow) != fl(c.overflow):
                    out.append(V("batch_equal", f"batch|{sb}|{cl}|underoverflow", case, [fl(c.underflow), fl(c.overflow)], [fl(a.underflow), fl(a.overflow)]))
        elif sys_.km:
            if fl(a.missed) != fl(c.missed):
                out.append(V("batch_equal", f"batch|{sb}|{cl}|missed", case, fl(c.missed), fl(a.missed)))
        return out

    return hook


# ---------------------------------------------------------------------------------------------
# E1 "entry paths" unit: dimensions of the input that the histories above hold fixed - the numeric TYPE of the
# weights, NaN asked of find_bin, tracking switched off through every constructor, contents and squared errors
# that were assigned from one array. Every case: all entry paths agree with the exact model.
# ---------------------------------------------------------------------------------------------

WEIGHT_TYPES = {
    "int8": [100, 100, 27], "int16": [200, 30000, 3], "int32": [70000, 5, 70000], "uint8": [200, 200, 1], "uint16": [60000, 2, 300],
    "float16": [300.0, 0.5, 300.0], "float32": [1e20, 0.5, 3.0], "bool": [True, True, False], "int64": [3, 2, 1], "float64": [0.5, 0.25, 3.0],
}
ENTRY_EDGES = [0.0, 1.0, 2.0, 3.0]
ENTRY_POINTS = {  # name -> points (1D values; ND rows repeat the value on every axis)
    "one_bin": [0.5, 0.5, 0.5], "spread": [0.5, 1.5, 2.5], "one_outside": [0.5, 7.5, 0.5], "all_outside": [-3.0, 7.5, 9.0],
}


def entry_cases():
    for dim in (1, 2, 3):
        for wt in WEIGHT_TYPES:
            for pts in ENTRY_POINTS:
                for path in ("fill", "fill_n", "fill_n_chunks", "facade", "class_facade"):
                    if wt == "bool" and path == "fill":
                        continue  # a single bool is not a weight (refused); arrays of them count as 0 / 1
                    yield {"entry": "weights", "dim": dim, "wtype": wt, "points": pts, "path": path}
    for dim in (1, 2, 3):
        for cls in ("plain", "gapped", "adaptive", "empty_bins"):
            yield {"entry": "find_bin_nan", "dim": dim, "cls": cls}
    for op in ("fill_gap", "fill_n_gap", "fill_below", "fill_above", "fill_n_outside", "fill_nan"):
        for start in ("empty", "filled"):
            yield {"entry": "nokeep", "dim": 1, "op": op, "start": start}
    for dim in (2, 3):
        for fn in ("facade", "facade_cols", "from_calculate_frequencies", "class_fill_n"):
            for after in ("nothing", "fill_outside", "fill_n_outside"):
                yield {"entry": "nd_nokeep", "dim": dim, "fn": fn, "after": after}
    for dim in (1, 2):
        for how in ("errors2_is_frequencies", "frequencies_is_errors2", "ctor_same_array", "both_from_other"):
            for op in ("fill", "fill_weighted", "fill_n"):
                yield {"entry": "alias", "dim": dim, "how": how, "op": op}


def eval_entry(case):
    from physt import h, h1, h2, h3
    from physt.binnings import StaticBinning
    from physt.types import Histogram1D, Histogram2D, HistogramND

    kind = case["entry"]
    dim = case["dim"]
    out = []
    edges = np.array(ENTRY_EDGES)

    def klass():
        return {1: Histogram1D, 2: Histogram2D, 3: HistogramND}[dim]

    def empty(bins=None, **kw):
        b = StaticBinning(edges if bins is None else np.array(bins))
        return Histogram1D(b, **kw) if dim == 1 else klass()([StaticBinning(edges if bins is None else np.array(bins)) for _ in range(dim)], **kw)

    def row(v):
        return v if dim == 1 else np.array([v] * dim)

    def rows(vs):
        return np.array(vs, dtype=float) if dim == 1 else np.array([[v] * dim for v in vs], dtype=float)

    def state(hh):
        d = {"f": [fl(x) for x in np.asarray(hh.frequencies).ravel().tolist()], "e2": [fl(x) for x in np.asarray(hh.errors2).ravel().tolist()]}
        if dim == 1:
            d["under"], d["over"] = fl(hh.underflow), fl(hh.overflow)
        else:
            d["missed"] = fl(hh.missed)
        return d

    if kind == "weights":
        wt, pts = case["wtype"], ENTRY_POINTS[case["points"]]
        wvals = WEIGHT_TYPES[wt]
        warr = np.array(wvals, dtype=np.bool_ if wt == "bool" else np.dtype(wt))
        exact = [Fraction(float(x)) for x in warr.tolist()]
        n = len(ENTRY_EDGES) - 1
        f = [Fraction(0)] * n
        e2 = [Fraction(0)] * n
        under = over = Fraction(0)
        for v, w in zip(pts, exact):
            if v < 0:
                under += w
            elif v > 3:
                over += w
            else:
                i = min(int(v), n - 1)
                f[i] += w
                e2[i] += w * w
        path = case["path"]

        def build():
            if path in ("fill", "fill_n", "fill_n_chunks"):
                hh = empty()
                if path == "fill":
                    for v, w in zip(pts, warr):
                        hh.fill(row(v), w)
                elif path == "fill_n":
                    hh.fill_n(rows(pts), warr)
                else:
                    hh.fill_n(rows(pts[:1]), warr[:1])
                    hh.fill_n(rows(pts[1:]), warr[1:])
                return hh
            bins = StaticBinning(edges) if path == "class_facade" else edges
            if dim == 1:
                return h1(np.array(pts), bins, weights=warr)
            if dim == 2:
                return h2(np.array(pts), np.array(pts), [bins, StaticBinning(edges) if path == "class_facade" else edges], weights=warr)
            return h(rows(pts), [StaticBinning(edges) if path == "class_facade" else edges for _ in range(3)], weights=warr)

        res = call(build)
        sig = f"entry|weights|{wt}|{1 if dim == 1 else "N"}D"
        if not res.ok:
            out.append(V("must_succeed", f"{sig}|{exc_sig(res.exc)}", case, "a histogram holding the weights", res.describe()))
            return out
        hh = res.value
        got_f = np.asarray(hh.frequencies)
        got_e = np.asarray(hh.errors2)
        idx = lambda i: i if dim == 1 else (i,) * dim  # noqa: E731
        approx = wt in ("float16", "float32")  # the weights themselves are exact, sums of a few of them as well
        for i in range(n):
            gf, ge = float(got_f[idx(i)]), float(got_e[idx(i)])
            if not math.isfinite(gf) or not math.isfinite(ge):
                out.append(V("bin_content", f"{sig}|not_finite", case, {"f": [float(x) for x in f], "e2": [float(x) for x in e2]}, {"f": got_f.tolist(), "e2": got_e.tolist()}))
                break
            if Fraction(gf) != f[i] and not (approx and abs(gf - float(f[i])) <= 1e-6 * abs(float(f[i]))):
                out.append(V("bin_content", f"{sig}|content", case, [float(x) for x in f], got_f.tolist()))
                break
            if Fraction(ge) != e2[i] and not (approx and math.isfinite(ge) and abs(ge - float(e2[i])) <= 1e-6 * abs(float(e2[i]))):
                out.append(V("squared_errors", f"{sig}|errors2", case, [float(x) for x in e2], got_e.tolist()))
                break
        off = got_f.sum() - sum(float(got_f[idx(i)]) for i in range(n))
        if dim > 1 and off != 0:
            out.append(V("bin_content", f"{sig}|off_diagonal", case, 0, float(off)))
        if dim == 1:
            uo = (float(hh.underflow), float(hh.overflow))
            if not all(math.isfinite(x) for x in uo) or (Fraction(uo[0]), Fraction(uo[1])) != (under, over):
                out.append(V("missed", f"{sig}|underflow_overflow", case, [float(under), float(over)], [fl(hh.underflow), fl(hh.overflow)]))
        else:
            m = float(hh.missed)
            want = float(under + over)
            if not (m == want or (approx and abs(m - want) <= 1e-6 * abs(want))):
                out.append(V("missed", f"{sig}|missed", case, want, fl(hh.missed)))
        return out

    if kind == "find_bin_nan":
        cls = case["cls"]
        if cls == "plain":
            hh = empty()
        elif cls == "gapped":
            hh = empty([[0.0, 1.0], [2.0, 3.0]])
        elif cls == "empty_bins":
            hh = empty()[0:0] if dim == 1 else empty()
        else:
            hh = (h1(np.array([0.5, 1.5]), "fixed_width", bin_width=1.0, adaptive=True) if dim == 1 else
                  h(rows([0.5, 1.5]), "fixed_width", bin_width=1.0, adaptive=True))
        before = snap(hh)
        points = [row(NAN)] if dim == 1 else [np.array([NAN] * dim), np.array([0.5] * (dim - 1) + [NAN]), np.array([NAN] + [0.5] * (dim - 1))]
        for pnt in points:
            r1 = call(hh.find_bin, pnt)
            c = hh.copy()
            r2 = call(c.fill, pnt)
            sig = f"entry|find_bin_nan|{cls}|{dim if dim == 1 else 'N'}D"
            if r1.ok != r2.ok or (r1.ok and r1.value != r2.value):
                out.append(V("find_bin_equals_fill", f"{sig}|differs", case, "fill: " + r2.describe(), "find_bin: " + r1.describe()))
            if snap(hh) != before:
                out.append(V("find_bin_pure", f"{sig}|changed", case, "unchanged", diff(before, snap(hh))))
            if r2.ok and content_snap(c) != content_snap(hh):
                out.append(V("nan_skipped", f"{sig}|fill_nan_changed_contents", case, content_snap(hh), content_snap(c)))
        return out

    if kind == "nokeep":
        hh = Histogram1D(StaticBinning(np.array([[0.0, 1.0], [2.0, 3.0]])), keep_missed=False)
        if case["start"] == "filled":
            hh.fill_n(np.array([0.5, 2.5, 2.5]))
        # (the dtype may be promoted by a float weight that is then not counted, and statistics are C14's subject)
        before = (content_snap(hh), repr(hh.to_dict().get("missed")), repr(hh.missed))
        op = case["op"]
        res = call({"fill_gap": lambda: hh.fill(1.5), "fill_n_gap": lambda: hh.fill_n(np.array([1.5, 1.25])), "fill_below": lambda: hh.fill(-4.0),
                    "fill_above": lambda: hh.fill(9.0, 2.5), "fill_n_outside": lambda: hh.fill_n(np.array([-4.0, 9.0]), np.array([0.5, 2.0])),
                    "fill_nan": lambda: hh.fill(NAN)}[op])
        after = (content_snap(hh), repr(hh.to_dict().get("missed")), repr(hh.missed))
        if not res.ok:
            out.append(V("must_succeed", f"entry|nokeep|{op}|{exc_sig(res.exc)}", case, "accepted, nothing changes", res.describe()))
        elif after != before:
            out.append(V("untracked_changes_nothing", f"entry|nokeep|{op}|changed", case, list(before[1:]), list(after[1:]) + [diff(before[0], after[0])]))
        return out

    if kind == "nd_nokeep":
        pts = rows([0.5, 1.5, 7.5])
        bins = [StaticBinning(edges) for _ in range(dim)]
        fn = case["fn"]

        def build():
            if fn == "facade":
                return h(pts, bins, keep_missed=False)
            if fn == "facade_cols":
                cols = [pts[:, i] for i in range(dim)]
                return h2(*cols, bins, keep_missed=False) if dim == 2 else h3(cols, bins, keep_missed=False)
            if fn == "from_calculate_frequencies":
                return klass().from_calculate_frequencies(pts, bins, keep_missed=False)
            hh = klass()(bins, keep_missed=False)
            hh.fill_n(pts)
            return hh

        res = call(build)
        sig = f"entry|nd_nokeep|{fn}"
        if not res.ok:
            out.append(V("must_succeed", f"{sig}|{exc_sig(res.exc)}", case, "a histogram", res.describe()))
            return out
        hh = res.value
        if case["after"] == "fill_outside":
            hh.fill(np.array([9.0] * dim), 2)
        elif case["after"] == "fill_n_outside":
            hh.fill_n(rows([9.0, -1.0]))
        if hh.keep_missed is not False:
            out.append(V("tracking_off", f"{sig}|keep_missed_ignored", case, False, hh.keep_missed))
        if float(hh.missed) != 0.0:
            out.append(V("untracked_changes_nothing", f"{sig}|missed_recorded|after={case['after']}", case, 0, fl(hh.missed)))
        if float(hh.total) != 2.0:
            out.append(V("bin_content", f"{sig}|total", case, 2, fl(hh.total)))
        return out

    if kind == "alias":
        how, op = case["how"], case["op"]
        src = empty()
        src.fill_n(rows([0.5, 1.5, 1.5]))
        if how == "errors2_is_frequencies":
            hh = src
            hh.errors2 = hh.frequencies
            others = []
        elif how == "frequencies_is_errors2":
            hh = src
            hh.frequencies = hh.errors2
            others = []
        elif how == "ctor_same_array":
            arr = np.array(src.frequencies)
            hh = klass()(src.binning if dim == 1 else src.binnings, frequencies=arr, errors2=arr)
            others = []
        else:
            hh = empty()
            hh.frequencies = src.frequencies
            hh.errors2 = src.errors2
            others = [(src, state(src))]
        f0 = [Fraction(x) for x in np.asarray(hh.frequencies).ravel().tolist()]
        e0 = [Fraction(x) for x in np.asarray(hh.errors2).ravel().tolist()]
        flat = 1 if dim == 1 else 1 * 3 + 1  # the cell of the value 1.5 (on every axis)
        if op == "fill":
            hh.fill(row(1.5))
            dw, dw2 = Fraction(1), Fraction(1)
        elif op == "fill_weighted":
            hh.fill(row(1.5), 3)
            dw, dw2 = Fraction(3), Fraction(9)
        else:
            hh.fill_n(rows([1.5, 1.5]), np.array([3, 2]))
            dw, dw2 = Fraction(5), Fraction(13)
        f0[flat] += dw
        e0[flat] += dw2
        gf = [Fraction(float(x)) if math.isfinite(float(x)) else None for x in np.asarray(hh.frequencies).ravel().tolist()]
        ge = [Fraction(float(x)) if math.isfinite(float(x)) else None for x in np.asarray(hh.errors2).ravel().tolist()]
        sig = f"entry|alias|{how}|{op}"
        if gf != f0 or ge != e0:
            out.append(V("bin_content", f"{sig}|one_entry_counted_twice", case, {"f": [float(x) for x in f0], "e2": [float(x) for x in e0]},
                         {"f": [fl(x) for x in np.asarray(hh.frequencies).ravel().tolist()], "e2": [fl(x) for x in np.asarray(hh.errors2).ravel().tolist()]}))
        for o, st0 in others:
            if state(o) != st0:
                out.append(V("source_untouched", f"{sig}|source_changed", case, st0, state(o)))
        return out
    raise ValueError(kind)


def units(tier, seed):
    return [{"config": c} for c in configs(tier)] + [{"entry_paths": True}]


def run_unit(unit, ctx):
    p = Partial()
    if unit.get("entry_paths"):
        case = None
        for case in entry_cases():
            vs = eval_entry(case)
            p.ev(True)
            p.states += 1
            p.outcome("entry:" + case["entry"])
            p.extend(vs)
        p.sample(case)
        return p
    sys_ = FillSystem(unit["config"])
    seen = H.bfs(sys_, p, ctx, on_new_state=batch_check(sys_))
    H.dfs_validate(sys_, p, seen, unit["config"]["dfs"], ctx, op_filter=lambda op: op[0] != "find_bin" and not (op[0] == "fill_n" and len(op[1]) > 1))
    p.count("configs")
    p.outcome(f"{sys_.sigbase()}")
    p.sample({"config": unit["config"], "a_state_history": H.listify(next(iter(reversed(list(seen.values()))))[3])})
    return p


def replay(case):
    if "entry" in case:
        return eval_entry(case)
    sys_ = FillSystem(case["config"])
    op = case.get("op")
    if op and op[0] == "construct_batch":
        vs, model, obj = H.replay_history(sys_, case["history"])
        if vs:
            return vs
        return batch_check(sys_)(model, obj, tuple(H._tuplify(case["history"])))
    vs, model, obj = H.replay_history(sys_, case["history"], op)
    if vs or "other_history" not in case:
        return vs
    vs2, model2, obj2 = H.replay_history(sys_, case["other_history"])
    if vs2:
        return vs2
    a, b = sys_.snap(obj), sys_.snap(obj2)
    if a != b:
        return [V("confluence", sys_.confluence_signature(model, b, a), case, b, a)]
    return []
