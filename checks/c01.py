"""C01 - 1D construction: each value counted once, in the bin that contains it.

Engine E1 (product enumerator).  Every case is one call of physt.h1 on the real code; the
oracle is the entry-list reference model Ref1D evaluated on the bins the histogram reports.
"""
from __future__ import annotations

import itertools
import math
import re

import numpy as np

from mc import alphabet as A
from mc.core import Partial, V
from mc.outcome import call
from mc.refmodel import Ref1D, eq_exact, frac

ID = "C01"
LEVEL = "exploration"
RULE = (
    "Cartesian product of bin specification (8 bin sets x the forms edges/pairs ndarray, list, tuple, "
    "NumpyBinning, StaticBinning, FixedWidthBinning, ExponentialBinning, method names) x every ordered data "
    "tuple of length 0..L over the edge alphabet V(B) (each edge, its two ulp neighbours, bin and gap midpoints, "
    "far values, NaN) x weight mode (none, 2^i, 2^-(i+1)); plus a configuration cross (dtype x keep_missed x "
    "dropna x container) at a smaller L. A case is non-trivial when at least one entry is on or within one ulp "
    "of an edge, in a gap, outside the bins or NaN."
)
ASSUMPTIONS = [
    "numpy searchsorted/argsort and float comparison are correct (observation channel)",
    "data sets of at most L entries; fingerprint weights make per-bin membership readable exactly",
    "bin edges restricted to the bin-set family of DESIGN 3.2 (+3 random sets when VERIF_SEED != 0)",
]
BOUNDS = {
    "quick": "L=3 on primary forms, L=2 on alternative forms, config cross L=2 on 3 bin sets, method specs L=2..3",
    "thorough": "L=4 on primary forms, L=3 on alternative forms, config cross L=2 on all bin sets, L=5 multisets",
}
BUDGET = {"quick": 240, "thorough": 3000}

DTYPES = [None, "int16", "int32", "int64", "float16", "float32", "float64", "float128"]
CONTAINERS = ["ndarray", "list", "tuple", "iterator", "ndarray2d"]
METHOD_GRID = [0.5, 1.0, 1.5, 2.0, 3.0, 4.25]
METHODS = [
    ["int", 1], ["int", 2], ["int", 3],
    ["fixed_width", 1.0], ["fixed_width", 0.5], ["integer", None], ["pretty", None],
    ["quantile", 2], ["exponential", 2], ["sturges", None], ["sqrt", None], ["rice", None], ["doane", None],
]


def all_binsets(seed):
    d = dict(A.BINSETS)
    d.update(A.seeded_binsets(seed))
    return d


def forms_for(pairs):
    cons = A.is_consecutive(pairs)
    f = ["pairs_array"]
    if cons:
        f = ["edges_array", "pairs_array", "edges_list", "edges_tuple", "NumpyBinning", "NumpyBinning_nr",
             "StaticBinning", "StaticBinning_r", "StaticBinning_selected"]
    else:
        f = ["pairs_array", "pairs_list", "StaticBinning", "StaticBinning_r", "StaticBinning_selected"]
    return f


def build_bins(pairs, form):
    from physt.binnings import NumpyBinning, StaticBinning

    edges = [pairs[0][0]] + [p[1] for p in pairs]
    if form == "edges_array":
        return np.array(edges)
    if form == "pairs_array":
        return np.array(pairs)
    if form == "edges_list":
        return list(edges)
    if form == "pairs_list":
        return [list(p) for p in pairs]
    if form == "edges_tuple":
        return tuple(edges)
    if form == "NumpyBinning":
        return NumpyBinning(np.array(edges))
    if form == "NumpyBinning_nr":
        return NumpyBinning(np.array(edges), includes_right_edge=False)
    if form == "StaticBinning":
        return StaticBinning(np.array(pairs), includes_right_edge=False)
    if form == "StaticBinning_r":
        return StaticBinning(np.array(pairs), includes_right_edge=True)
    if form == "StaticBinning_selected":
        # the bins are a selection from a parent binning whose consecutiveness differs and was already asked for
        if A.is_consecutive(pairs):
            last = pairs[-1][1]
            parent = StaticBinning(np.array(list(pairs) + [(last + 5.0, last + 6.0)]), includes_right_edge=False)
            parent.is_consecutive()
            return parent[0:len(pairs)]
        full = []
        idx = []
        for i, pr in enumerate(pairs):
            idx.append(len(full))
            full.append(pr)
            if i + 1 < len(pairs) and pr[1] != pairs[i + 1][0]:
                full.append((pr[1], pairs[i + 1][0]))
        parent = StaticBinning(np.array(full), includes_right_edge=False)
        parent.is_consecutive()
        return parent[np.array(idx)]
    raise ValueError(form)


def build_object_spec(name):
    """Binning objects whose bins are read from the object itself."""
    from physt.binnings import ExponentialBinning, FixedWidthBinning

    if name == "FixedWidth":
        return FixedWidthBinning(bin_width=0.5, bin_count=3, bin_times_min=-1)
    if name == "FixedWidth_shift":
        return FixedWidthBinning(bin_width=1.0, bin_count=2, bin_times_min=0, bin_shift=0.25)
    if name == "Exponential":
        return ExponentialBinning(log_min=0.0, log_width=1.0, bin_count=2)
    raise ValueError(name)


OBJECT_SPECS = ["FixedWidth", "FixedWidth_shift", "Exponential"]


def make_container(data, kind):
    if kind == "ndarray":
        return np.array(data, dtype=float)
    if kind == "list":
        return list(data)
    if kind == "tuple":
        # a tuple whose first item is a str has a special meaning in h1; ours never is
        return tuple(data)
    if kind == "iterator":
        return iter(list(data))
    if kind == "ndarray2d":
        return np.array(data, dtype=float).reshape(-1, 2) if len(data) % 2 == 0 and len(data) else np.array(data, dtype=float)
    raise ValueError(kind)


def make_weights(wmode, n, kind):
    w = A.weights_for(wmode, n)
    if w is None:
        return None
    arr = np.array(w, dtype=(np.int64 if wmode == "int" else np.float64))
    if kind == "ndarray2d" and n % 2 == 0 and n:
        return arr.reshape(-1, 2)
    if kind in ("list", "tuple", "iterator"):
        return list(w)
    return arr


def dtype_kind(name):
    return "f" if name and name.startswith("float") else ("i" if name else "none")


def exc_sig(e):
    msg = re.sub(r"[^A-Za-z ]+", "", str(e))[:48].strip()
    return f"{type(e).__name__}:{msg}"


def evaluate(case):
    """Run ONE case on the real code and return the list of violations (also used by --replay)."""
    from physt import h1

    out = []
    data = [A.unjf(v) for v in case["data"]]
    wmode = case.get("wmode")
    dtype = case.get("dtype")
    keep_missed = case.get("keep_missed", True)
    dropna = case.get("dropna", True)
    cont = case.get("container", "ndarray")
    kwargs = {}
    spec = case["spec"]
    if spec[0] == "binset":
        pairs = [tuple(p) for p in case["pairs"]]
        bins = build_bins(pairs, spec[2])
    elif spec[0] == "object":
        bins = build_object_spec(spec[1])
        pairs = [tuple(map(float, r)) for r in np.asarray(bins.bins).tolist()]
    else:  # method
        name, arg = spec[1], spec[2]
        pairs = None
        if name == "int":
            bins = arg
        elif name == "fixed_width":
            bins, kwargs = "fixed_width", {"bin_width": arg}
        elif name == "quantile":
            bins, kwargs = "quantile", {"bin_count": arg}
        elif name == "exponential":
            bins, kwargs = "exponential", {"bin_count": arg}
        else:
            bins = name
    n = len(data)
    weights = make_weights(wmode, n, cont)
    container = make_container(data, cont)
    if dtype is not None:
        kwargs["dtype"] = dtype
    if not keep_missed:
        kwargs["keep_missed"] = False
    if not dropna:
        kwargs["dropna"] = False
    res = call(h1, container, bins, weights=weights, **kwargs)

    has_nan = any(isinstance(v, float) and math.isnan(v) for v in data)
    # an empty python list of weights carries no element type: numpy reads it as float64
    float_w = wmode == "float" or (wmode == "int" and n == 0 and cont in ("list", "tuple", "iterator"))
    int_request = dtype is not None and dtype.startswith("int")
    cons = A.is_consecutive(pairs) if pairs is not None else None
    bkind = "method" if pairs is None else ("consecutive" if cons else "gapped")
    eff = dtype_kind(dtype) if dtype is not None else ("f" if float_w else "i")
    sigbase = f"{bkind}|w={wmode}|dtype={eff}"

    # expected outcome class
    if int_request and float_w and n > 0:
        expect = "MUST_RAISE"
    elif int_request and float_w:
        expect = "EITHER"  # empty float weight vector: nothing fractional is entered
    elif has_nan and not dropna:
        expect = "EITHER"
    elif spec[0] == "method":
        expect = "EITHER"  # whether a schema can be derived from these data is C07's business
    else:
        expect = "MUST_SUCCEED"

    if not res.ok:
        if expect == "MUST_SUCCEED":
            empty = int(n == 0 or (dropna and all(isinstance(v, float) and math.isnan(v) for v in data)))
            sig = f"must_succeed|{bkind}|weights={int(wmode is not None)}|dtype={eff}|empty={empty}|{exc_sig(res.exc)}"
            out.append(V("must_succeed", sig, case, "a histogram", res.describe()))
        return out, "raise:" + type(res.exc).__name__
    if expect == "MUST_RAISE":
        out.append(V("must_raise", f"must_raise|{sigbase}", case, "refusal (integer dtype requested with float weights)",
                     f"histogram of dtype {res.value.dtype}"))
        return out, "ok-unexpected"

    h = res.value
    hb = np.asarray(h.bins)
    got_pairs = [tuple(map(float, r)) for r in hb.tolist()]
    if pairs is not None and got_pairs != [tuple(map(float, p)) for p in pairs]:
        out.append(V("bins", f"bins|{sigbase}", case, pairs, got_pairs))
        return out, "ok"
    pairs = got_pairs
    cons = A.is_consecutive(pairs)
    ref = Ref1D(pairs)
    w = A.weights_for(wmode, n)
    for i, x in enumerate(data):
        ref.add(x, 1 if w is None else w[i])
    c, e2, under, over, gap = ref.contents()
    classes = sorted({A.classify(x, pairs) for x in data})
    csig = "+".join(cl for cl in classes if A.nontrivial_class(cl)) or "inside"

    freq = h.frequencies.tolist()
    err = h.errors2.tolist()
    if len(freq) != len(c) or not all(eq_exact(o, e) for o, e in zip(freq, c)):
        out.append(V("contents", f"contents|{sigbase}|{csig}", case, [float(x) for x in c], freq))
    if len(err) != len(e2) or not all(eq_exact(o, e) for o, e in zip(err, e2)):
        out.append(V("errors2", f"errors2|{sigbase}|{csig}", case, [float(x) for x in e2], err))
    uf, of = h.underflow, h.overflow
    if not keep_missed:
        if not (np.isnan(uf) and np.isnan(of)):
            out.append(V("missed_off", f"missed_off|{sigbase}", case, "nan/nan", [uf, of]))
    elif cons:
        if not eq_exact(uf, under):
            out.append(V("underflow", f"underflow|{sigbase}|{csig}", case, float(under), uf))
        if not eq_exact(of, over):
            out.append(V("overflow", f"overflow|{sigbase}|{csig}", case, float(over), of))
        tot = h.total
        if eq_exact(uf, under) and eq_exact(of, over) and not eq_exact(tot + float(uf) + float(of), ref.total_weight()):
            out.append(V("conservation", f"conservation|{sigbase}|{csig}", case, float(ref.total_weight()), tot + uf + of))
    elif A.near_consecutive(pairs):
        # gaps below the tolerance of is_consecutive(): 'unknown' or the exact numbers, never wrong ones
        if not ((np.isnan(uf) or eq_exact(uf, under)) and (np.isnan(of) or eq_exact(of, over))):
            out.append(V("underoverflow_tinygap", f"underoverflow|{sigbase}|{csig}", case, [float(under), float(over)], [uf, of]))
    else:
        if not (np.isnan(uf) and np.isnan(of)):
            out.append(V("gap_unknown", f"gap_unknown|{sigbase}", case, "nan/nan (non-consecutive bins)", [uf, of]))
    # dtype rules
    dt = np.dtype(h.dtype)
    if dt != h.frequencies.dtype or dt != h.errors2.dtype:
        out.append(V("dtype_consistent", f"dtype_consistent|{sigbase}", case, str(dt), [str(h.frequencies.dtype), str(h.errors2.dtype)]))
    if dtype is not None:
        if dt != np.dtype(dtype):
            out.append(V("dtype_requested", f"dtype_requested|{sigbase}", case, dtype, str(dt)))
    elif wmode in (None, "int") and not float_w:
        if dt.kind not in "iu":
            out.append(V("dtype_rule", f"dtype_rule|{sigbase}", case, "integer kind", str(dt)))
    else:
        if dt.kind != "f":
            out.append(V("dtype_rule", f"dtype_rule|{sigbase}", case, "float kind", str(dt)))
    return out, "ok:" + csig


def replay(case):
    return evaluate(case)[0]


# ----------------------------------------------------------------------------------------------


def units(tier, seed):
    thorough = tier == "thorough"
    us = []
    binsets = all_binsets(seed)
    L1 = 4 if thorough else 3
    L2 = 3 if thorough else 2
    for name, pairs in binsets.items():
        forms = forms_for(pairs)
        for fi, form in enumerate(forms):
            for wmode in (None, "int", "float"):
                L = L1 if fi == 0 else L2
                # split the longest tuples by first element to balance the load
                us.append({"kind": "tuples", "binset": name, "pairs": pairs, "form": form, "wmode": wmode, "L": L})
    for oname in OBJECT_SPECS:
        for wmode in (None, "int", "float"):
            us.append({"kind": "object", "name": oname, "wmode": wmode, "L": L2 + (0 if not thorough else 0)})
    for m in METHODS:
        us.append({"kind": "method", "method": m, "L": 3})
    cross_sets = list(binsets) if thorough else ["regular", "gapped", "single"]
    for name in cross_sets:
        for dtype in DTYPES:
            for cont in CONTAINERS:
                us.append({"kind": "cross", "binset": name, "pairs": binsets[name], "dtype": dtype, "container": cont, "L": 2})
    if thorough:
        for name in ("regular", "gapped", "irregular"):
            for wmode in (None, "int", "float"):
                us.append({"kind": "multisets", "binset": name, "pairs": binsets[name], "wmode": wmode, "L": 5})
    # simplest first: sort by estimated size
    return us


def _record(p, case, nontrivial):
    vs, label = evaluate(case)
    p.ev(nontrivial)
    p.outcome(label)
    if vs:
        p.extend(vs)
    return vs


def run_unit(unit, ctx):
    p = Partial()
    kind = unit["kind"]
    if kind in ("tuples", "multisets"):
        pairs = [tuple(q) for q in unit["pairs"]]
        alpha = A.edge_alphabet(pairs, nan=True)
        gen = A.tuples_upto(alpha, unit["L"]) if kind == "tuples" else A.multisets_upto(alpha, unit["L"])
        form = unit.get("form", "pairs_array")
        cls = {repr(v): A.classify(v, pairs) for v in alpha}
        for k, data in enumerate(gen):
            if (k & 1023) == 0 and ctx.expired():
                p.capped = True
                p.notes.append(f"{unit['binset']}/{form}/{unit['wmode']}: stopped after {k} tuples")
                break
            case = {"spec": ["binset", unit["binset"], form], "pairs": pairs, "data": [A.jf(v) for v in data], "wmode": unit["wmode"]}
            nt = any(A.nontrivial_class(cls[repr(v)]) for v in data)
            _record(p, case, nt)
            if k in (7, 400):
                p.sample(case)
    elif kind == "object":
        b = build_object_spec(unit["name"])
        pairs = [tuple(map(float, r)) for r in np.asarray(b.bins).tolist()]
        alpha = A.edge_alphabet(pairs, nan=True)
        for k, data in enumerate(A.tuples_upto(alpha, unit["L"])):
            case = {"spec": ["object", unit["name"], None], "data": [A.jf(v) for v in data], "wmode": unit["wmode"]}
            nt = any(A.nontrivial_class(A.classify(v, pairs)) for v in data)
            _record(p, case, nt)
            if k == 5:
                p.sample(case)
    elif kind == "method":
        m = unit["method"]
        for n in (2, 3):
            for data in itertools.product(METHOD_GRID, repeat=n):
                for wmode in (None, "int", "float"):
                    case = {"spec": ["method", m[0], m[1]], "data": list(data), "wmode": wmode}
                    # min / max of the data sit on the outer edges for most schemas
                    _record(p, case, True)
        p.sample(case)
    elif kind == "cross":
        pairs = [tuple(q) for q in unit["pairs"]]
        alpha = A.edge_alphabet(pairs, nan=True, ulp=False)
        for data in A.tuples_upto(alpha, unit["L"]):
            for wmode in (None, "int", "float"):
                for km in (True, False):
                    for dropna in (True, False):
                        case = {"spec": ["binset", unit["binset"], "pairs_array"], "pairs": pairs,
                                "data": [A.jf(v) for v in data], "wmode": wmode, "dtype": unit["dtype"],
                                "keep_missed": km, "dropna": dropna, "container": unit["container"]}
                        nt = any(A.nontrivial_class(A.classify(v, pairs)) for v in data)
                        _record(p, case, nt)
        p.sample(case)
    else:
        raise ValueError(kind)
    return p
