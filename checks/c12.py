"""C12 - derived histograms are independent of their sources.

Engine E2 (path-exhaustive): every history "<= D derivations then <= M mutations, every choice of
source / target in the pool of live objects" is executed on the real code; frame-condition oracle:
a mutation of one member leaves the public snapshot of every other member bit-identical, a
derivation leaves all existing members unchanged, everybody stays well-formed.
"""
from __future__ import annotations

import copy
import itertools
import re

import numpy as np

from mc.core import Partial, V
from mc.outcome import call
from mc.snapshot import diff, snap, wellformed

ID = "C12"
LEVEL = "model_checking"
RULE = (
    "Pool of live histograms grown from a base object (1D static int, 1D float weighted, 1D adaptive, 2D static, 2D adaptive, "
    "3D, polar, collection). Derivations (from any pool member): copy, copy(include_frequencies=False), a+a, a+b, a-b, 0+a, "
    "sum([a]), a*2, a/2, normalize, merge_bins(2), h[i:j], h[mask], h[index array], select, projection(each axis / axis pair), "
    "h[:, j], T, partial_normalize, accumulate, parse_json(to_json), collection.copy. Mutations (on any member): fill into the "
    "midpoint of EVERY bin, fill outside on both sides (adaptive growth), fill_n, *=, /=, +=, dtype change, name/title/"
    "axis_names/meta_data edits, merge_bins(inplace), normalize(inplace), set_adaptive. All histories with <= D derivations "
    "followed by <= M mutations and every choice of source / target are executed; states = pool snapshots along the history, "
    "transitions = operations. Oracle: frame condition on all other members + well-formedness (array shapes == bin counts) + "
    "copy() fidelity + usability of the empty copy. Non-trivial: every history with >= 1 derivation and >= 1 mutation."
)
ASSUMPTIONS = [
    "the public snapshot (bins, contents, errors, missed, dtype, metadata, statistics, adaptivity) covers everything observable",
    "identity selections h[:] / select(axis, slice(None)) are not 'real selections' and are left out",
    "nested mutable metadata values are shared by copy() (shallow): only key-level edits are in the alphabet",
    "a mutation may raise (e.g. in-place merge of a single bin): the frame condition is still demanded for the other members",
]
BOUNDS = {
    "quick": "D<=2 derivations + 1 mutation, and 1 derivation + 2 mutations, pool <= 3",
    "thorough": "D<=2 + M<=2 on all bases, D<=3 + 1 mutation on 1D/2D bases",
}
BUDGET = {"quick": 240, "thorough": 3000}


def exc_sig(e):
    msg = re.sub(r"[^A-Za-z ]+", "", str(e))[:40].strip()
    return f"{type(e).__name__}:{msg}"


# ---------------------------------------------------------------------------------------------
# base objects
# ---------------------------------------------------------------------------------------------


def make_base(name):
    from physt import h1, h2, h3, polar
    from physt.types import HistogramCollection

    if name == "1d_static":
        return h1(np.array([-1.0, 0.5, 0.5, 1.5, 2.5, 2.5, 9.0]), np.array([0.0, 1.0, 2.0, 3.0]), name="base", axis_name="x", title="T")
    if name == "1d_float":
        return h1(np.array([0.5, 1.5, 2.25, 7.0]), np.array([0.0, 1.0, 2.0, 4.0, 5.0]), weights=np.array([0.5, 0.25, 2.0, 4.0]), name="fw")
    if name == "1d_adaptive":
        return h1(np.array([0.5, 2.5, 2.75]), "fixed_width", bin_width=1.0, adaptive=True, name="ad")
    if name == "2d_static":
        return h2(np.array([0.5, 0.5, 1.5, 9.0]), np.array([0.25, 2.5, 1.0, 1.0]), [np.array([0.0, 1.0, 2.0]), np.array([0.0, 0.5, 2.0, 3.0])],
                  name="b2", axis_names=["x", "y"])
    if name == "2d_adaptive":
        return h2(np.array([0.5, 1.5, 1.5]), np.array([0.5, 0.5, 2.5]), "fixed_width", bin_width=[1.0, 1.0], adaptive=True, name="a2")
    if name == "3d_static":
        return h3(np.array([[0.5, 0.5, 0.5], [1.5, 0.5, 2.5], [1.5, 0.5, 2.5]]), [np.array([0.0, 1.0, 2.0]), np.array([0.0, 1.0]), np.array([0.0, 1.0, 2.0, 3.0])],
                  name="b3", axis_names=["x", "y", "z"])
    if name == "3d_adaptive":
        from physt import h

        return h(np.array([[0.5, 0.5, 0.5], [1.5, 0.5, 2.5]]), "fixed_width", bin_width=[1.0, 1.0, 1.0], adaptive=True, name="a3")
    if name == "polar":
        return polar(np.array([1.0, 0.0, -1.0, 2.0]), np.array([0.0, 1.0, 1.0, 2.0]), radial_bins=np.array([0.0, 1.5, 3.0]), phi_bins=4)
    if name == "collection":
        edges = np.array([0.0, 1.0, 2.0, 3.0])
        a = h1(np.array([0.5, 1.5]), edges.copy(), name="m0")
        b = h1(np.array([2.5, 2.5, 0.5]), a.binning, name="m1")
        return HistogramCollection(a, b, name="col")
    raise ValueError(name)


BASES = ["1d_static", "1d_float", "1d_adaptive", "2d_static", "2d_adaptive", "3d_static", "3d_adaptive", "polar", "collection"]


def is_collection(o):
    return type(o).__name__ == "HistogramCollection"


def members(o):
    """The histograms whose snapshots are observed for a pool object."""
    return list(o.histograms) if is_collection(o) else [o]


def pool_snap(pool):
    return [[snap(m) for m in members(o)] for o in pool]


# ---------------------------------------------------------------------------------------------
# derivations:  name -> function(pool, i) -> new object   (None = not applicable)
# ---------------------------------------------------------------------------------------------


def partner(pool, i):
    """Another member with the same bins (or a copy of the object itself)."""
    a = pool[i]
    for j, b in enumerate(pool):
        if j != i and not is_collection(b) and type(b) is type(a) and b.ndim == a.ndim and b.shape == a.shape:
            try:
                if a.has_same_bins(b):
                    return b
            except Exception:  # noqa: BLE001
                pass
    return None


def adaptive_partner(pool, i):
    """Another adaptive member of the same kind whose bins differ (the sum has to re-bin both)."""
    a = pool[i]
    for j, b in enumerate(pool):
        if j != i and not is_collection(b) and type(b) is type(a) and b.ndim == a.ndim and b.is_adaptive() and a.is_adaptive():
            if [np.asarray(x.bins).tolist() for x in a.binnings] != [np.asarray(x.bins).tolist() for x in b.binnings]:
                return b
    return None


def spawn_shifted(a):
    """A fresh adaptive histogram on the same grid covering another range (an independent object)."""
    from physt import h, h1, h2

    if a.ndim == 1:
        return h1(np.array([6.5, 8.25]), "fixed_width", bin_width=1.0, adaptive=True, name="shifted")
    if a.ndim == 2:
        return h2(np.array([6.5, 7.5]), np.array([-3.5, 0.5]), "fixed_width", bin_width=[1.0, 1.0], adaptive=True, name="shifted")
    return h(np.array([[6.5, -2.5, 0.5]]), "fixed_width", bin_width=[1.0, 1.0, 1.0], adaptive=True, name="shifted")


def derivations(o):
    if is_collection(o):
        return ["col_copy", "col_sum", "col_normalize_all", "col_json"]
    d = ["copy", "copy_nofreq", "add_self", "add_partner", "sub_partner", "radd0", "sum1", "mul2", "div2", "normalize", "json"]
    if o.is_adaptive() and type(o).__name__ in ("Histogram1D", "Histogram2D", "HistogramND"):
        d += ["spawn_shifted", "add_adaptive_partner", "iadd_copy_adaptive_partner", "sum_adaptive_partner"]
    n0 = o.shape[0]
    if o.ndim == 1:
        if n0 >= 2:
            d += ["merge2", "slice_tail", "slice_head", "mask", "index_array", "select_slice"]
    else:
        d += ["proj0", "proj_last", "accumulate0"]
        if o.ndim >= 3:
            d += ["proj01"]
        if n0 >= 2:
            d += ["merge2_axis0", "nd_slice0", "select_slice_last"]
        d += ["nd_int_last", "select_int0"]
        if type(o).__name__ == "Histogram2D":
            d += ["T", "partial_normalize0"]
    return d


MUST_DERIVE = {"copy", "copy_nofreq", "add_self", "add_partner", "spawn_shifted", "add_adaptive_partner", "iadd_copy_adaptive_partner",
               "sum_adaptive_partner", "radd0", "sum1", "mul2", "div2", "json", "proj0", "proj_last", "proj01", "T",
               "accumulate0", "col_copy", "col_sum", "col_json"}


def derive(pool, i, name):
    from physt.io import parse_json

    a = pool[i]
    if name == "copy":
        return a.copy()
    if name == "copy_nofreq":
        return a.copy(include_frequencies=False)
    if name == "add_self":
        return a + a
    if name in ("add_partner", "sub_partner"):
        b = partner(pool, i)
        if b is None:
            return None
        return a + b if name == "add_partner" else (a + b) - b
    if name == "spawn_shifted":
        return spawn_shifted(a)
    if name in ("add_adaptive_partner", "iadd_copy_adaptive_partner", "sum_adaptive_partner"):
        b = adaptive_partner(pool, i)
        if b is None:
            return None
        if name == "add_adaptive_partner":
            return a + b
        if name == "sum_adaptive_partner":
            return sum([a, b])
        c = a.copy()
        c += b
        return c
    if name == "radd0":
        return 0 + a
    if name == "sum1":
        return sum([a])
    if name == "mul2":
        return a * 2
    if name == "div2":
        return a / 2
    if name == "normalize":
        if a.total == 0:
            return None
        return a.normalize()
    if name == "json":
        return parse_json(a.to_json())
    if name == "merge2":
        return a.merge_bins(2)
    if name == "merge2_axis0":
        return a.merge_bins(2, axis=0)
    if name == "slice_tail":
        return a[1:]
    if name == "slice_head":
        return a[0:a.shape[0] - 1]
    if name == "mask":
        m = np.zeros(a.shape[0], dtype=bool)
        m[0] = True
        m[-1] = True
        return a[m]
    if name == "index_array":
        return a[np.array([0, a.shape[0] - 1])]
    if name == "select_slice":
        return a.select(0, slice(1, None))
    if name == "proj0":
        return a.projection(0)
    if name == "proj_last":
        return a.projection(a.ndim - 1)
    if name == "proj01":
        return a.projection(0, 1)
    if name == "accumulate0":
        return a.accumulate(0)
    if name == "nd_slice0":
        return a[1:]
    if name == "select_slice_last":
        return a.select(a.ndim - 1, slice(0, 1))
    if name == "nd_int_last":
        idx = tuple([slice(None)] * (a.ndim - 1) + [0])
        return a[idx]
    if name == "select_int0":
        return a.select(0, 0)
    if name == "T":
        return a.T
    if name == "partial_normalize0":
        return a.partial_normalize(0)
    if name == "col_copy":
        return a.copy()
    if name == "col_sum":
        return a.sum()
    if name == "col_normalize_all":
        return a.normalize_all()
    if name == "col_json":
        return parse_json(a.to_json())
    raise ValueError(name)


# ---------------------------------------------------------------------------------------------
# mutations: list of (name, arg) per object
# ---------------------------------------------------------------------------------------------


def mutations(o):
    if is_collection(o):
        out = []
        for k in range(len(o.histograms)):
            out += [("member_fill", k), ("member_imul", k), ("member_name", k)]
        out += [("col_normalize_all_inplace", None), ("col_normalize_bins_inplace", None)]
        return out
    out = []
    if o.ndim == 1:
        bins = np.asarray(o.bins)
        for k in range(bins.shape[0]):
            out.append(("fill_bin", k))
    else:
        # one fill per bin of every axis (the other coordinates in their first bin)
        for a in range(o.ndim):
            for k in range(o.shape[a]):
                out.append(("fill_axis_bin", (a, k)))
    out += [("fill_below", None), ("fill_above", None), ("fill_n", None), ("fill_w", None), ("imul2", None), ("idiv2", None), ("iadd_copy", None),
            ("dtype_float", None), ("name", None), ("title", None), ("axis_names", None), ("meta_key", None), ("normalize_inplace", None),
            ("merge2_inplace", None), ("set_adaptive", None)]
    return out


def point_for(o, axis=None, k=None, where=None):
    """A fill value: midpoint of bin k on `axis` (first bins elsewhere), or outside."""
    vals = []
    for a in range(o.ndim):
        bins = np.asarray(o.binnings[a].bins)
        if bins.shape[0] == 0:
            vals.append(0.5)
            continue
        if where == "below":
            v = bins[0, 0] - 2.5 * (bins[0, 1] - bins[0, 0])
        elif where == "above":
            v = bins[-1, 1] + 2.5 * (bins[-1, 1] - bins[-1, 0])
        elif a == axis:
            v = (bins[k, 0] + bins[k, 1]) / 2
        else:
            v = (bins[0, 0] + bins[0, 1]) / 2
        vals.append(float(v))
    if o.ndim == 1:
        return vals[0]
    return vals


def fill_kwargs(o):
    # transformed histograms: give coordinates in the histogram's own (already transformed) system
    return {"transformed": True} if hasattr(o, "transform") else {}


def mutate(o, name, arg):
    if name == "member_fill":
        m = o.histograms[arg]
        m.fill(point_for(m, 0, 0))
        return
    if name == "member_imul":
        m = o.histograms[arg]
        m *= 2
        return
    if name == "member_name":
        o.histograms[arg].name = "renamed"
        return
    if name == "col_normalize_all_inplace":
        o.normalize_all(inplace=True)
        return
    if name == "col_normalize_bins_inplace":
        o.normalize_bins(inplace=True)
        return
    kw = fill_kwargs(o)
    if name == "fill_bin":
        o.fill(point_for(o, 0, arg), **kw)
    elif name == "fill_axis_bin":
        o.fill(point_for(o, arg[0], arg[1]), **kw)
    elif name == "fill_below":
        o.fill(point_for(o, where="below"), **kw)
    elif name == "fill_above":
        o.fill(point_for(o, where="above"), **kw)
    elif name == "fill_w":
        o.fill(point_for(o, 0, 0), 0.5, **kw)
    elif name == "fill_n":
        p0, p1 = point_for(o, 0, 0), point_for(o, where="above")
        o.fill_n(np.array([p0, p1]) if o.ndim == 1 else np.array([p0, p1]), **kw)
    elif name == "imul2":
        o *= 2
    elif name == "idiv2":
        o /= 2
    elif name == "iadd_copy":
        o += o.copy()
    elif name == "dtype_float":
        o.dtype = np.float64 if np.dtype(o.dtype) != np.float64 else np.float32
    elif name == "name":
        o.name = "renamed"
    elif name == "title":
        o.title = "new title"
    elif name == "axis_names":
        o.axis_names = tuple(f"ax{i}" for i in range(o.ndim))
    elif name == "meta_key":
        o.meta_data["custom"] = 42
    elif name == "normalize_inplace":
        o.normalize(inplace=True)
    elif name == "merge2_inplace":
        o.merge_bins(2, axis=0, inplace=True)
    elif name == "set_adaptive":
        o.set_adaptive(True)
    else:
        raise ValueError(name)


# ---------------------------------------------------------------------------------------------
# execution of one history with all oracles
# ---------------------------------------------------------------------------------------------


def wf_problems(pool):
    out = []
    for idx, o in enumerate(pool):
        for m in members(o):
            pr = wellformed(m)
            if pr:
                out.append((idx, pr))
    return out


def describe_obj(o):
    return type(o).__name__


def run_history(base, derivs, muts, upto=None):
    """derivs: [(source index, name)], muts: [(target index, name, arg)].  Returns (violations, label, pool)."""
    case = {"base": base, "derivations": [list(d) for d in derivs], "mutations": [[t, n, list(a) if isinstance(a, tuple) else a] for t, n, a in muts]}
    pool = [make_base(base)]
    out = []
    chain = []
    for (i, name) in derivs:
        before = pool_snap(pool)
        res = call(derive, pool, i, name)
        src = describe_obj(pool[i])
        if not res.ok:
            # a selection / merge may legitimately be refused (e.g. merging across a gap); the basic derivations may not
            if name in MUST_DERIVE:
                out.append(V("derivation_succeeds", f"derive_raises|{name}|{src}|{exc_sig(res.exc)}", case, "a derived histogram", res.describe()))
            return out, "derive-raise", pool
        new = res.value
        if new is None:
            return out, "n/a", pool
        after = pool_snap(pool)
        if after != before:
            out.append(V("derivation_leaves_sources", f"derive_modifies_source|{name}|{src}", case, "all existing members unchanged",
                         first_diff(before, after)))
            return out, "viol", pool
        if isinstance(new, tuple):
            return out, "n/a", pool
        pool.append(new)
        chain.append(name)
        pr = wf_problems(pool)
        if pr:
            out.append(V("wellformed", f"malformed_after_derive|{name}|{src}", case, "well-formed members", pr))
            return out, "viol", pool
        out.extend(derivation_extras(pool, i, name, case))
        if out:
            return out, "viol", pool
    dsig = ">".join(chain) or "-"
    for (t, name, arg) in muts:
        if t >= len(pool):
            return out, "n/a", pool
        arg_t = tuple(arg) if isinstance(arg, list) else arg
        if (name, arg_t) not in mutations(pool[t]):
            return out, "n/a", pool
        before = pool_snap(pool)
        res = call(mutate, pool[t], name, arg_t)
        after = pool_snap(pool)
        role = "source" if t < len(pool) - 1 else "derived"
        for j in range(len(pool)):
            if j == t:
                continue
            if after[j] != before[j]:
                other_role = "derived" if j > t else "source"
                mname = mut_class(name)
                later = max(t, j)
                via = chain[later - 1] if 0 < later <= len(chain) else "-"
                fields = "+".join(sorted(first_diff([before[j]], [after[j]]).get("diff", {})))
                out.append(V("frame_condition", f"aliasing|via={via}|{type(pool[later]).__name__}|mutate={mname}|changed={fields}", case,
                             f"member {j} unchanged by a mutation of member {t}", first_diff([before[j]], [after[j]])))
                return out, "viol", pool
        pr = [p for p in wf_problems(pool)]
        if pr:
            who = "target" if all(idx == t for idx, _ in pr) else "other"
            mname = mut_class(name)
            via = chain[-1] if chain else "-"
            out.append(V("wellformed", f"malformed_after_mutation|last_derivation={via}|{type(pool[t]).__name__}|mutate={mname}|{who}", case, "well-formed members", pr))
            return out, "viol", pool
    return out, "ok", pool


def mut_class(name):
    if name.startswith("fill") or name == "member_fill":
        return "fill"
    if name in ("imul2", "idiv2", "iadd_copy", "normalize_inplace", "member_imul", "col_normalize_all_inplace", "col_normalize_bins_inplace"):
        return "arithmetic"
    if name in ("name", "title", "axis_names", "meta_key", "member_name"):
        return "metadata"
    return name


def first_diff(before, after):
    for bi, (b, a) in enumerate(zip(before, after)):
        for mi, (bm, am) in enumerate(zip(b, a)):
            if bm != am:
                return {"object": bi, "member": mi, "diff": diff(bm, am)}
    return "pool size changed"


def derivation_extras(pool, i, name, case):
    """copy() fidelity and usability of the empty copy."""
    out = []
    src, new = pool[i], pool[-1]
    if name == "copy":
        a, b = snap(src), snap(new)
        if a != b:
            out.append(V("copy_fidelity", f"copy_differs|{type(src).__name__}|{'+'.join(sorted(diff(a, b)))}", case, a, b))
        r = call(lambda: new == src)
        if not (r.ok and bool(r.value)):
            out.append(V("copy_equal", f"copy_not_equal|{type(src).__name__}", case, True, r.describe()))
        if type(new) is not type(src):
            out.append(V("copy_class", f"copy_class|{type(src).__name__}", case, type(src).__name__, type(new).__name__))
    if name == "copy_nofreq":
        e = new
        if e.frequencies.any() or e.errors2.any():
            out.append(V("empty_copy", f"empty_copy_not_empty|{type(src).__name__}", case, "all zero", snap(e)))
        if snap(e)["binnings"] != snap(src)["binnings"]:
            out.append(V("empty_copy", f"empty_copy_bins|{type(src).__name__}", case, snap(src)["binnings"], snap(e)["binnings"]))
        probe = copy.deepcopy(e)
        ref = copy.deepcopy(src)  # "fully usable" = everything that works on the source works on the empty copy

        def ops(h):
            kw = fill_kwargs(h)
            return (
                ("fill", lambda: h.fill(point_for(h, 0, 0), **kw)),
                ("fill_n", lambda: h.fill_n(np.array([point_for(h, 0, 0)]) if h.ndim == 1 else np.array([point_for(h, 0, 0)]), **kw)),
                ("statistics", lambda: getattr(h, "statistics", None) if h.ndim == 1 else None),
                ("add", lambda: h + h),
                ("mul", lambda: h * 2),
                ("total", lambda: h.total),
                ("to_json", lambda: h.to_json()),
            )

        filled = 0
        for (opname, f), (_, fref) in zip(ops(probe), ops(ref)):
            rref = call(fref)
            r = call(f)
            if r.ok and opname in ("fill", "fill_n"):
                filled += 1
            if rref.ok and not r.ok:
                out.append(V("empty_copy_usable", f"empty_copy_unusable|{type(src).__name__}|{opname}|{exc_sig(r.exc)}", case, "usable", r.describe()))
                break
        if not out and probe.total != filled:
            out.append(V("empty_copy_usable", f"empty_copy_fill_lost|{type(src).__name__}", case, filled, probe.total))
    return out


# ---------------------------------------------------------------------------------------------
# enumeration
# ---------------------------------------------------------------------------------------------


def enumerate_histories(base, D, M, first=None, deep=False):
    """Yield (derivs, muts).  All derivation sequences of length 1..D (source = any existing member),
    then all mutation sequences of length 1..M over all targets."""

    def rec_derive(pool, derivs, depth):
        if depth > 0:
            yield pool, derivs
        if depth == D:
            return
        for i in range(len(pool)):
            names = derivations(pool[i])
            for name in names:
                if depth == 0 and first is not None and name != first:
                    continue
                p2 = copy.deepcopy(pool)
                r = call(derive, p2, i, name)
                if not r.ok or r.value is None or isinstance(r.value, tuple):
                    # still report through run_history (it re-executes with oracles)
                    if not r.ok:
                        yield None, derivs + [(i, name)]
                    continue
                p2.append(r.value)
                yield from rec_derive(p2, derivs + [(i, name)], depth + 1)

    for pool, derivs in rec_derive([make_base(base)], [], 0):
        if pool is None:
            yield derivs, []
            continue
        yield derivs, []
        targets = []
        for t, o in enumerate(pool):
            for (name, arg) in mutations(o):
                targets.append((t, name, arg))
        for m1 in targets:
            yield derivs, [m1]
        if M >= 2:
            # second mutation: any target, but a thinner alphabet (one fill per object + the structural mutations)
            second = [m for m in targets if m[1] in ("fill_below", "fill_above", "fill_n", "imul2", "dtype_float", "merge2_inplace", "normalize_inplace", "member_fill")
                      or (m[1] in ("fill_bin",) and m[2] == 0) or (m[1] == "fill_axis_bin" and m[2] == (0, 0))]
            for m1 in targets:
                for m2 in second:
                    yield derivs, [m1, m2]


# ---------------------------------------------------------------------------------------------
# collections: copy / normalize / JSON of collections in every state (no members, members over adaptive bins that grew
# separately), and independence of what comes back
# ---------------------------------------------------------------------------------------------

COLL_KINDS = ["empty_static", "empty_adaptive", "static", "adaptive", "adaptive_grown_by_create", "adaptive_grown_by_member_fill"]
COLL_DERIVE = ["copy", "normalize_all", "normalize_bins", "json", "sum"]
COLL_MUTATE = ["member_fill_inside", "member_fill_beyond", "create_beyond", "member_imul", "member_dtype", "member_rename", "source_member_fill_beyond"]


def make_collection(kind):
    from physt.binnings import FixedWidthBinning, StaticBinning
    from physt.types import HistogramCollection

    adaptive = "adaptive" in kind
    b = FixedWidthBinning(bin_width=1.0, bin_count=3, bin_times_min=0, adaptive=True) if adaptive else StaticBinning(np.array([0.0, 1.0, 2.0, 3.0]))
    col = HistogramCollection(binning=b, name="col", title="T")
    if kind.startswith("empty"):
        return col
    col.create("a", np.array([0.5, 1.5, 1.5]))
    col.create("b", np.array([2.5]))
    if kind == "adaptive_grown_by_create":
        col.create("c", np.array([0.5, 6.5]))
    elif kind == "adaptive_grown_by_member_fill":
        col["a"].fill(7.5)
    return col


def coll_snap(col):
    return {"name": col.name, "title": col.title, "n": len(col.histograms), "members": [snap(m) for m in col.histograms]}


def eval_collection(case):
    from physt.io import parse_json

    kind, derive, mutate = case["kind"], case["derive"], case["mutate"]
    src = make_collection(kind)
    out = []
    sig = f"collection|{'adaptive' if 'adaptive' in kind else 'static'}|{derive}"

    def do_derive():
        if derive == "copy":
            return src.copy()
        if derive == "normalize_all":
            return src.normalize_all()
        if derive == "normalize_bins":
            return src.normalize_bins()
        if derive == "json":
            return parse_json(src.to_json())
        return src.sum()

    refusable = (derive in ("normalize_all",) and (kind.startswith("empty") or False)) or (derive == "normalize_bins" and kind.startswith("empty"))
    before = coll_snap(src)
    res = call(do_derive)
    if not res.ok:
        if not refusable and not (derive == "normalize_all" and any(float(m.total) == 0 for m in src.histograms)):
            out.append(V("must_succeed", f"{sig}|raises|{type(res.exc).__name__}", case, "a derived collection / histogram", res.describe()))
        if derive not in ("copy", "json", "normalize_all", "normalize_bins", "sum"):
            return out
        # (bringing grown members to common bins is allowed to add empty bins to the source's members, nothing else)
        return out
    d = res.value
    members_d = list(d.histograms) if hasattr(d, "histograms") else [d]
    for k, m in enumerate(members_d + list(src.histograms)):
        pr = wellformed(m)
        if pr:
            out.append(V("wellformed", f"{sig}|malformed_after_derivation", case, "well-formed", [k, pr]))
            return out
    if derive in ("copy", "json") and hasattr(d, "histograms"):
        if len(d.histograms) != len(src.histograms) or any(not (a == b) for a, b in zip(d.histograms, src.histograms)):
            out.append(V("copy_equal", f"{sig}|not_equal_to_source", case, [float(m.total) for m in src.histograms], [float(m.total) for m in d.histograms]))
        if (d.name, d.title) != (src.name, src.title):
            out.append(V("copy_equal", f"{sig}|meta", case, [src.name, src.title], [d.name, d.title]))
    s_src = coll_snap(src)
    s_d = [snap(m) for m in members_d]

    def mutate_it():
        target = d if mutate != "source_member_fill_beyond" else src
        ms = list(target.histograms) if hasattr(target, "histograms") else [target]
        if mutate == "create_beyond":
            if not hasattr(target, "histograms"):
                return "n/a"
            target.create("new", np.array([1.5, 9.5]))
            return None
        if not ms:
            return "n/a"
        m = ms[0]
        if mutate in ("member_fill_inside",):
            m.fill(1.5)
        elif mutate in ("member_fill_beyond", "source_member_fill_beyond"):
            m.fill(11.5)
        elif mutate == "member_imul":
            m *= 2
        elif mutate == "member_dtype":
            m.set_dtype(np.float64)
        else:
            m.name = "renamed"
        return None

    r = call(mutate_it)
    if r.ok and r.value == "n/a":
        return out
    if not r.ok:
        out.append(V("usable", f"{sig}|{mutate}|raises|{type(r.exc).__name__}", case, "accepted", r.describe()))
        return out
    if mutate == "source_member_fill_beyond":
        now = [snap(m) for m in members_d]
        if now != s_d:
            out.append(V("independent", f"{sig}|derived_changed_by_source", case, "unchanged", [diff(a, b) for a, b in zip(s_d, now) if a != b][:1]))
    else:
        if coll_snap(src) != s_src:
            out.append(V("independent", f"{sig}|source_changed_by_derived|{mutate}", case, "unchanged", "changed"))
    for k, m in enumerate(members_d + list(src.histograms) + (list(d.histograms) if hasattr(d, "histograms") else [])):
        pr = wellformed(m)
        if pr:
            out.append(V("wellformed", f"{sig}|malformed_after|{mutate}", case, "well-formed", [k, pr]))
            break
    return out


def units(tier, seed):
    thorough = tier == "thorough"
    us = []
    for base in BASES:
        o = make_base(base)
        for first in derivations(o):
            us.append({"base": base, "first": first, "D": 2, "M": 1})
            us.append({"base": base, "first": first, "D": 1, "M": 2})
            if thorough:
                us.append({"base": base, "first": first, "D": 2, "M": 2})
                if base in ("1d_static", "1d_adaptive", "2d_static", "2d_adaptive"):
                    us.append({"base": base, "first": first, "D": 3, "M": 1})
    us.append({"collections": True})
    return us


def run_unit(unit, ctx):
    p = Partial()
    if unit.get("collections"):
        case = None
        for kind in COLL_KINDS:
            for derive in COLL_DERIVE:
                for mutate in COLL_MUTATE:
                    case = {"collection": True, "kind": kind, "derive": derive, "mutate": mutate}
                    vs = eval_collection(case)
                    p.ev(True)
                    p.states += 3
                    p.transitions += 2
                    p.traces += 1
                    p.outcome("collection:" + derive)
                    p.extend(vs)
        p.sample(case)
        return p
    k = 0
    for derivs, muts in enumerate_histories(unit["base"], unit["D"], unit["M"], first=unit["first"]):
        if unit["D"] == 2 and unit["M"] == 1 and len(derivs) < 2 and False:
            continue
        if unit["D"] >= 2 and len(derivs) < unit["D"] and unit["M"] == 1 and unit.get("skip_short"):
            continue
        if (k & 63) == 0 and ctx.expired():
            p.capped = True
            p.notes.append(f"{unit}: stopped after {k} histories")
            break
        vs, label, pool = run_history(unit["base"], derivs, muts)
        k += 1
        if label == "n/a":
            continue
        p.ev(bool(derivs) and bool(muts))
        p.states += 1 + len(derivs) + len(muts)
        p.transitions += len(derivs) + len(muts)
        p.traces += 1
        p.max_depth = max(p.max_depth, len(derivs) + len(muts))
        p.outcome(label + ":" + ">".join(n for _, n in derivs))
        p.extend(vs)
        if k == 40:
            p.sample({"base": unit["base"], "derivations": [list(d) for d in derivs], "mutations": [[t, n, list(a) if isinstance(a, tuple) else a] for t, n, a in muts]})
    return p


def replay(case):
    if case.get("collection"):
        return eval_collection(case)
    derivs = [tuple(d) for d in case["derivations"]]
    muts = [(t, n, tuple(a) if isinstance(a, list) else a) for t, n, a in case["mutations"]]
    return run_history(case["base"], derivs, muts)[0]
