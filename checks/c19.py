"""C19 - the free-arithmetics switch is scoped, restored and isolated per context.

E2: all well-nested enable / disable / set / raise programs (sequential).
E3: all interleavings of 2-3 real threads (op level; line level with a preemption bound) and all
ready-queue orders of 2-3 asyncio tasks on a virtual loop; oracle = per-context stack model.
"""
from __future__ import annotations

import asyncio
import itertools
import json
import os
import subprocess
import sys

import numpy as np

from mc import env
from mc.core import Partial, V
from mc.sched_asyncio import explore as aio_explore
from mc.sched_threads import Baton, ReplayDivergence
from mc.sched_threads import explore as thr_explore

ID = "C19"
LEVEL = "model_checking"
RULE = (
    "(1) every well-nested program with <= L items over {with enable(True|False): ..., config.free_arithmetics = v, raise that "
    "unwinds k levels and is caught, probe}, nesting depth <= 3; a probe records config.free_arithmetics and whether h *= [..], "
    "h += [..], h /= [..] (array operands) and h.frequencies=[-1,1] (negative contents) are accepted; oracle = stack-of-saved-values model. (2) fresh interpreters "
    "with PHYST_FREE_ARITHMETICS unset / '0' / '1'. (3) threads: every pair (and selected triples) of programs from a menu of "
    "flat programs, ALL interleavings at operation granularity under a baton scheduler (real threading.Thread objects), main "
    "thread holding False or True; plus line-granularity scheduling points (sys.settrace in config.py / histogram_base.py) with "
    "preemption bound 0..B. (4) asyncio: every pair / selected triples of task programs with `await sleep(0)` after each "
    "operation, ALL ready-queue orders on a virtual loop, tasks created in a default or an enabled context. Oracle for (3),(4): "
    "each thread / task observes exactly what the model predicts for it alone; the creator's value is unchanged afterwards. "
    "Every failing schedule is replayed a second time before it is reported. Non-trivial: a program with a probe inside or "
    "after a context, an execution that actually alternates between threads / tasks."
)
ASSUMPTIONS = [
    "a new thread may start from the environment default or from the spawning thread's value; its observations must be consistent with one of the two",
    "an asyncio task starts with the value its creator had when the task was created",
    "cooperative baton: switches happen at operation boundaries and (line level) at line events of config.py / histogram_base.py; "
    "switches inside a bytecode line, inside numpy C code and free-threaded builds are not modelled",
    "histograms are never shared between threads (they are not claimed thread-safe)",
]
BOUNDS = {
    "quick": "nesting programs L<=4; 11x11 thread program pairs x main in {False,True} op-level exhaustive + all 35 triples over 5 small programs; line level bound 1 on 4 pairs; asyncio 11x11 pairs x 2 creator contexts + 35 triples x 2",
    "thorough": "L<=5; line level bound 2 on 12 pairs",
}
BUDGET = {"quick": 240, "thorough": 3000}


# ---------------------------------------------------------------------------------------------
# probe
# ---------------------------------------------------------------------------------------------


def make_probe_hists():
    from physt.types import Histogram1D

    return tuple(Histogram1D(np.array([0.0, 1.0, 2.0]), np.array([1.0, 2.0])) for _ in range(4))


def probe(hists=None):
    """What the current context observes: the flag itself and every guarded behaviour - array operands in
    *=, += and /= (HistogramBase.__imul__ / __iadd__ / __itruediv__) and negative contents (frequencies setter)."""
    from physt.config import config

    h1, h2, h3, h4 = hists if hists is not None else make_probe_hists()
    flag = bool(config.free_arithmetics)

    def ok(f):
        try:
            f()
            return True
        except Exception:  # noqa: BLE001
            return False

    def imul():
        nonlocal h1
        h1 *= [1, 2]

    def iadd():
        nonlocal h3
        h3 += [1, 2]

    def idiv():
        nonlocal h4
        h4 /= [1, 2]

    def setneg():
        h2.frequencies = np.array([-1.0, 1.0])

    return (flag, ok(imul), ok(setneg), ok(iadd), ok(idiv))


def expected_probe(v):
    return (bool(v),) * 5


# ---------------------------------------------------------------------------------------------
# (1) sequential nestings
# ---------------------------------------------------------------------------------------------


class Unwind(Exception):
    def __init__(self, k):
        super().__init__(k)
        self.k = k


def gen_items(budget, depth, maxdepth):
    """All item lists using at most `budget` nodes (each item = 1 node, a with-block = 1 + its body)."""
    yield ()
    if budget <= 0:
        return
    firsts = [("P",), ("S", True), ("S", False)]
    for k in range(1, depth + 1):
        firsts.append(("R", k))
    for f in firsts:
        if f[0] == "R":
            yield (f,)  # nothing after a raise is executed
            continue
        for rest in gen_items(budget - 1, depth, maxdepth):
            yield (f,) + rest
    if depth < maxdepth:
        for v in (True, False):
            for b in range(0, budget):
                for body in gen_items(b, depth + 1, maxdepth):
                    used = 1 + size(body)
                    if used > budget:
                        continue
                    for rest in gen_items(budget - used, depth, maxdepth):
                        yield (("W", v, body),) + rest


def size(items):
    return sum(1 + (size(it[2]) if it[0] == "W" else 0) for it in items)


def run_items(items, obs):
    from physt.config import config

    for it in items:
        if it[0] == "P":
            obs.append(probe())
        elif it[0] == "S":
            config.free_arithmetics = it[1]
        elif it[0] == "R":
            raise Unwind(it[1])
        else:
            try:
                with config.enable_free_arithmetics(it[1]):
                    run_items(it[2], obs)
            except Unwind as u:
                u.k -= 1
                if u.k > 0:
                    raise


def model_items(items, state, obs):
    """state = [value]; returns normally or raises Unwind like the real thing."""
    for it in items:
        if it[0] == "P":
            obs.append(expected_probe(state[0]))
        elif it[0] == "S":
            state[0] = it[1]
        elif it[0] == "R":
            raise Unwind(it[1])
        else:
            saved = state[0]
            state[0] = it[1]
            try:
                model_items(it[2], state, obs)
            except Unwind as u:
                state[0] = saved
                u.k -= 1
                if u.k > 0:
                    raise
            else:
                state[0] = saved


def tolist(items):
    return [[it[0], it[1], tolist(it[2])] if it[0] == "W" else list(it) for it in items]


def fromlist(items):
    return tuple(("W", it[1], fromlist(it[2])) if it[0] == "W" else tuple(it) for it in items)


def eval_nesting(case):
    from physt.config import config

    items = fromlist(case["program"])
    start = case.get("start", False)
    out = []

    def go():
        config.free_arithmetics = start
        obs = []
        run_items(items, obs)
        obs.append(("final", bool(config.free_arithmetics)))
        return obs

    import contextvars

    try:
        got = contextvars.copy_context().run(go)
    except Unwind:
        return [V("nesting", "nesting|unwind_escaped", case, "caught", "escaped")]
    want = []
    st = [start]
    model_items(items, st, want)
    want.append(("final", st[0]))
    if [tuple(x) for x in got] != [tuple(x) for x in want]:
        k = next((i for i, (a, b) in enumerate(zip(got, want)) if tuple(a) != tuple(b)), min(len(got), len(want)))
        kinds = "+".join(sorted({it[0] for it in flat(items)}))
        out.append(V("nesting", f"nesting|items={kinds}|first_bad_is_final={int(k == len(want) - 1)}", case, want, got))
    return out


def flat(items):
    for it in items:
        yield it
        if it[0] == "W":
            yield from flat(it[2])


# ---------------------------------------------------------------------------------------------
# flat programs for threads / tasks
# ---------------------------------------------------------------------------------------------

MENU = [
    [("probe",)],
    [("enter", True), ("probe",), ("exit",), ("probe",)],
    [("enter", False), ("probe",), ("exit",)],
    [("set", True), ("probe",)],
    [("set", False), ("probe",)],
    [("enter", True), ("set", False), ("probe",), ("exit",), ("probe",)],
    [("enter", True), ("enter", False), ("probe",), ("exit",), ("probe",), ("exit",)],
    [("probe",), ("enter", True), ("probe",), ("exit",)],
    [("set", True), ("enter", False), ("exit",), ("probe",)],
    [("enter", True), ("exit",), ("probe",)],
    [("probe",), ("set", True), ("probe",), ("set", False), ("probe",)],
]


SMALL = [
    [("probe",)],
    [("set", True), ("probe",)],
    [("enter", True), ("probe",), ("exit",)],
    [("set", False), ("probe",)],
    [("enter", False), ("probe",), ("exit",)],
]


def model_flat(prog, v0):
    v = v0
    stack = []
    obs = []
    for op in prog:
        if op[0] == "probe":
            obs.append(expected_probe(v))
        elif op[0] == "set":
            v = op[1]
        elif op[0] == "enter":
            stack.append(v)
            v = op[1]
        else:
            v = stack.pop()
    return obs


def flat_runner(prog):
    """callable(yield_fn, observe) executing the program with a scheduling point after every op."""

    # histograms for the probes are built here, i.e. before the thread starts and outside the traced region
    hists = [make_probe_hists() for op in prog if op[0] == "probe"]

    def run(yield_fn, observe):
        from physt.config import config

        stack = []
        k = 0
        k_done = 0
        for op in prog:
            if op[0] == "probe":
                observe(probe(hists[k]))
                k += 1
            elif op[0] == "set":
                config.free_arithmetics = op[1]
            elif op[0] == "enter":
                cm = config.enable_free_arithmetics(op[1])
                cm.__enter__()
                stack.append(cm)
            else:
                stack.pop().__exit__(None, None, None)
            k_done += 1
            if k_done < len(prog):
                yield_fn()  # a scheduling point between two operations (none after the last one)

    return run


def check_thread_execution(ex, progs, main_value, default=False):
    """Per-thread sequential consistency; returns list of (tid, expected alternatives, observed)."""
    bad = []
    for tid, prog in progs.items():
        got = [tuple(o) for o in ex.observations.get(tid, [])]
        alts = [model_flat(prog, default)]
        if main_value != default:
            alts.append(model_flat(prog, main_value))
        if tid in ex.errors:
            bad.append((tid, alts[0], "error: " + ex.errors[tid]))
        elif got not in [[tuple(o) for o in a] for a in alts]:
            bad.append((tid, alts, got))
    return bad


def eval_threads(case):
    from physt.config import config

    progs = {i: [tuple(op) for op in p] for i, p in enumerate(case["programs"])}
    main_value = case["main"]
    line = case.get("line", False)
    bound = case.get("bound")
    files = ("physt/config.py", "physt/histogram_base.py") if line else None
    sig_kind = "line" if line else "op"

    def make():
        config.free_arithmetics = main_value  # re-assert the creator's value before every execution
        return Baton({tid: flat_runner(p) for tid, p in progs.items()}, trace_files=files)

    stats = {"runs": 0, "alternating": 0, "outcomes": set()}
    found = []

    def check(ex):
        bad = check_thread_execution(ex, progs, main_value)
        main_after = bool(config.free_arithmetics)
        switches = sum(1 for a, b in zip(ex.choices, ex.choices[1:]) if a != b)
        stats["alternating"] += 1 if switches >= len(progs) else 0
        stats["outcomes"].add(tuple(tuple(tuple(o) for o in ex.observations.get(t, [])) for t in sorted(progs)))
        vs = []
        if bad or main_after != main_value:
            # determinism: the same schedule must fail the same way
            again = make().run(list(ex.choices))
            bad2 = check_thread_execution(again, progs, main_value)
            if (bad2 != bad) or (bool(config.free_arithmetics) != main_after):
                raise ReplayDivergence(f"schedule {ex.choices} gave different observations when replayed")
            c = dict(case, schedule=list(ex.choices))
            if bad:
                leak = "leak" if any(isinstance(b[2], list) for b in bad) else "error"
                vs.append(V("isolation", f"threads|{sig_kind}|{leak}|n={len(progs)}", c,
                            {str(t): a for t, a, _ in bad}, {str(t): g for t, _, g in bad}))
            if main_after != main_value:
                vs.append(V("creator_unchanged", f"threads|{sig_kind}|main_changed", c, main_value, main_after))
        return vs

    runs, vs, capped = thr_explore(make, check, bound=bound, max_runs=case.get("max_runs"), deadline=_DEADLINE[0])
    stats["runs"] = runs
    stats["capped"] = capped
    # keep only the first violation per signature (smallest schedule first would need BFS; DFS order is deterministic)
    seen = set()
    for v in vs:
        if v["signature"] not in seen:
            seen.add(v["signature"])
            found.append(v)
    return found, stats


def eval_thread_schedule(case):
    """Replay ONE recorded schedule (no explorer)."""
    from physt.config import config

    progs = {i: [tuple(op) for op in p] for i, p in enumerate(case["programs"])}
    files = ("physt/config.py", "physt/histogram_base.py") if case.get("line") else None
    config.free_arithmetics = case["main"]
    ex = Baton({tid: flat_runner(p) for tid, p in progs.items()}, trace_files=files).run(list(case["schedule"]))
    bad = check_thread_execution(ex, progs, case["main"])
    out = []
    if bad:
        out.append(V("isolation", f"threads|{'line' if case.get('line') else 'op'}|leak|n={len(progs)}", case, {str(t): a for t, a, _ in bad}, {str(t): g for t, _, g in bad}))
    if bool(config.free_arithmetics) != case["main"]:
        out.append(V("creator_unchanged", "threads|main_changed", case, case["main"], bool(config.free_arithmetics)))
    return out


# ---------------------------------------------------------------------------------------------
# asyncio
# ---------------------------------------------------------------------------------------------


def eval_async(case):
    from physt.config import config

    progs = [[tuple(op) for op in p] for p in case["programs"]]
    creator = case["creator"]  # value of the creating context when the tasks are created
    stats = {"outcomes": set()}

    def factory():
        state = {"obs": {i: [] for i in range(len(progs))}, "errors": {}, "creator_after": None}

        async def body(i, prog):
            stack = []
            n_done = 0
            try:
                for op in prog:
                    if op[0] == "probe":
                        state["obs"][i].append(probe())
                    elif op[0] == "set":
                        config.free_arithmetics = op[1]
                    elif op[0] == "enter":
                        cm = config.enable_free_arithmetics(op[1])
                        cm.__enter__()
                        stack.append(cm)
                    else:
                        stack.pop().__exit__(None, None, None)
                    n_done += 1
                    if n_done < len(prog):
                        await asyncio.sleep(0)
            except Exception as e:  # noqa: BLE001
                state["errors"][i] = f"{type(e).__name__}: {e}"

        def setup(loop):
            config.free_arithmetics = False
            if creator:
                with config.enable_free_arithmetics(True):
                    for i, pr in enumerate(progs):
                        loop.create_task(body(i, pr))
            else:
                for i, pr in enumerate(progs):
                    loop.create_task(body(i, pr))

        return setup, state

    def check(state, ex):
        vs = []
        after = bool(config.free_arithmetics)
        bad = {}
        for i, pr in enumerate(progs):
            want = [tuple(o) for o in model_flat(pr, creator)]
            got = [tuple(o) for o in state["obs"][i]]
            if i in state["errors"]:
                bad[i] = (want, "error: " + state["errors"][i])
            elif got != want:
                bad[i] = (want, got)
        stats["outcomes"].add(tuple(tuple(tuple(o) for o in state["obs"][i]) for i in range(len(progs))))
        c = dict(case, schedule=list(ex.choices))
        if bad:
            vs.append(V("isolation", f"asyncio|leak|n={len(progs)}|creator={int(creator)}", c, {str(k): v[0] for k, v in bad.items()}, {str(k): v[1] for k, v in bad.items()}))
        if after is not False:
            vs.append(V("creator_unchanged", "asyncio|creator_changed", c, False, after))
        return vs

    runs, vs, capped = aio_explore(factory, check, max_runs=case.get("max_runs"))
    stats["runs"] = runs
    stats["capped"] = capped
    seen = set()
    found = []
    for v in vs:
        if v["signature"] not in seen:
            seen.add(v["signature"])
            found.append(v)
    return found, stats


# ---------------------------------------------------------------------------------------------
# environment default
# ---------------------------------------------------------------------------------------------

ENV_CODE = r'''
import sys, json
sys.path.insert(0, sys.argv[1]); sys.path.insert(1, sys.argv[2])
import warnings; warnings.simplefilter("ignore")
from checks.c19 import probe
from physt.config import config
out = {"default": list(probe())}
with config.enable_free_arithmetics(True):
    out["enabled"] = list(probe())
with config.enable_free_arithmetics(False):
    out["disabled"] = list(probe())
out["after"] = list(probe())
print(json.dumps(out))
'''


def eval_env(case):
    value = case["value"]
    e = dict(os.environ)
    e.pop("PHYST_FREE_ARITHMETICS", None)
    if value is not None:
        e["PHYST_FREE_ARITHMETICS"] = value
    r = subprocess.run([sys.executable, "-B", "-c", ENV_CODE, env.SRC, env.VERIF_ROOT], env=e, capture_output=True, text=True, timeout=120)
    if r.returncode != 0:
        return [V("env_default", f"env|{value}|subprocess_failed", case, "probe output", r.stderr[-500:])]
    got = json.loads(r.stdout.strip().splitlines()[-1])
    d = value == "1"
    want = {"default": list(expected_probe(d)), "enabled": list(expected_probe(True)), "disabled": list(expected_probe(False)), "after": list(expected_probe(d))}
    if got != want:
        bad = "+".join(k for k in want if got.get(k) != want[k])
        return [V("env_default", f"env|{value}|{bad}", case, want, got)]
    return []


# ---------------------------------------------------------------------------------------------


# ---------------------------------------------------------------------------------------------
# (5) every operation that takes an array-like operand or would leave a negative content, x every way of
#     establishing the mode: refused in strict mode, accepted in free mode (E1)
# ---------------------------------------------------------------------------------------------


def site_hists():
    from physt.histogram1d import Histogram1D
    from physt.histogram_nd import Histogram2D
    from physt import special_histograms as sh

    e = np.array([0.0, 1.0, 2.0])
    return {
        "1d_float": lambda: Histogram1D(e, np.array([1.0, 2.0])),
        "1d_int": lambda: Histogram1D(e, np.array([1, 2])),
        "1d_weighted": lambda: Histogram1D(e, np.array([0.5, 2.5]), errors2=np.array([0.25, 3.0])),
        "2d": lambda: Histogram2D([e, np.array([0.0, 1.0])], np.array([[1.0], [2.0]])),
        "2d_int": lambda: Histogram2D([e, e], np.array([[1, 0], [2, 3]])),
        "polar": lambda: sh.PolarHistogram([e, np.array([0.0, 1.0, 2.0])], np.array([[1.0, 1.0], [2.0, 0.0]])),
    }


def _ones(h):
    return np.ones(h.shape)


def _big(h):
    return h * 3


def _check_sq(r):
    """(free mode) the squared errors of the result are non-negative finite numbers - a wrapped square shows here"""
    e = np.asarray(r.errors2, dtype=float)
    if np.any(e < 0) or not np.all(np.isfinite(e)):
        raise ArithmeticError(f"squared errors {e.ravel().tolist()}")
    return r


def _neg_nan(h):
    a = -(np.abs(np.asarray(h.frequencies, dtype=float)) + 1.0)
    a.flat[a.size - 1] = np.nan
    return a


def _ipl(name):
    return lambda h, o: getattr(h, name)(o)


SITE_OPS = {
    # negative contents
    "mul_neg": lambda h: h * -1,
    "mul_negf": lambda h: h * -0.5,
    "rmul_neg": lambda h: -2 * h,
    "rmul_np_neg": lambda h: np.float64(-2.0) * h,
    "imul_neg": lambda h: h.__imul__(-1),
    "div_neg": lambda h: h / -1,
    "div_negf": lambda h: h / -0.5,
    "idiv_neg": lambda h: h.__itruediv__(-2),
    "idiv_np_neg": lambda h: h.__itruediv__(np.float64(-2.0)),
    "sub_big": lambda h: h - _big(h),
    "isub_big": lambda h: h.__isub__(_big(h)),
    "set_frequencies_neg": lambda h: setattr(h, "frequencies", -np.asarray(h.frequencies)),
    "copy_set_frequencies_neg": lambda h: setattr(h.copy(), "frequencies", -np.asarray(h.frequencies)),
    "constructor_neg": lambda h: type(h)(h.binnings if h.ndim > 1 else h.binning, -np.asarray(h.frequencies)),
    # negative contents next to a NaN (min() / max() of such an array is NaN and compares False with everything;
    # seeded C19-setter-min-shortcut-blind-to-nan)
    "set_frequencies_neg_nan": lambda h: setattr(h, "frequencies", _neg_nan(h)),
    "constructor_neg_nan": lambda h: type(h)(h.binnings if h.ndim > 1 else h.binning, _neg_nan(h)),
    "set_dtype_then_imul_neg": lambda h: (h.set_dtype(np.float64), h.__imul__(-2.0)),
    "copy_then_idiv_neg": lambda h: h.copy().__itruediv__(-4),
    # array-like operands
    "add_arr": lambda h: h + _ones(h),
    "radd_arr": lambda h: _ones(h) + h,
    "iadd_arr": lambda h: h.__iadd__(_ones(h)),
    "sub_arr": lambda h: h - _ones(h),
    "isub_arr": lambda h: h.__isub__(_ones(h)),
    "mul_arr": lambda h: h * _ones(h),
    "rmul_arr": lambda h: _ones(h) * h,
    "imul_arr": lambda h: h.__imul__(_ones(h)),
    "div_arr": lambda h: h / _ones(h),
    "idiv_arr": lambda h: h.__itruediv__(_ones(h)),
    "add_list": lambda h: h + _ones(h).tolist(),
    "iadd_list": lambda h: h.__iadd__(_ones(h).tolist()),
    "mul_list": lambda h: h * _ones(h).tolist(),
    "idiv_list": lambda h: h.__itruediv__(_ones(h).tolist()),
    "sub_tuple": lambda h: h - tuple(map(tuple, _ones(h))) if h.ndim > 1 else h - tuple(_ones(h)),
    # array operands of narrow / unsigned element types (their squares and negatives leave the type)
    "sub_arr_uint8": lambda h: h - np.ones(h.shape, dtype=np.uint8),
    "isub_arr_uint16": lambda h: h.__isub__(np.ones(h.shape, dtype=np.uint16)),
    "imul_arr_int8": lambda h: _check_sq(h.__imul__(np.full(h.shape, 12, dtype=np.int8))),
    "mul_arr_int8_16": lambda h: _check_sq(h * np.full(h.shape, 16, dtype=np.int8)),
    "idiv_arr_int8": lambda h: _check_sq(h.__itruediv__(np.full(h.shape, 16, dtype=np.int8))),
    "iadd_arr_int8": lambda h: _check_sq(h.__iadd__(np.full(h.shape, 100, dtype=np.int8))),
    "mul_arr_float16": lambda h: _check_sq(h * np.full(h.shape, 300.0, dtype=np.float16)),
}

# ways of establishing the mode in the current context: (name, mode in force inside)
SITE_MODES = ["default", "set_false", "set_true", "with_true", "with_false", "true_in_false", "false_in_true", "after_with_true", "after_raise_in_true",
              "set_true_with_false", "set_false_with_true"]


def in_mode(mode, body):
    """Run body() with the mode established in the named way; returns (flag expected inside, body result)."""
    from physt.config import config

    enable_free_arithmetics = config.enable_free_arithmetics
    config.free_arithmetics = False
    try:
        if mode == "default":
            return False, body()
        if mode == "set_false":
            config.free_arithmetics = True
            config.free_arithmetics = False
            return False, body()
        if mode == "set_true":
            config.free_arithmetics = True
            return True, body()
        if mode == "with_true":
            with enable_free_arithmetics():
                return True, body()
        if mode == "with_false":
            with enable_free_arithmetics(False):
                return False, body()
        if mode == "true_in_false":
            with enable_free_arithmetics(False):
                with enable_free_arithmetics(True):
                    return True, body()
        if mode == "false_in_true":
            with enable_free_arithmetics(True):
                with enable_free_arithmetics(False):
                    return False, body()
        if mode == "after_with_true":
            with enable_free_arithmetics(True):
                pass
            return False, body()
        if mode == "after_raise_in_true":
            try:
                with enable_free_arithmetics(True):
                    raise Unwind(0)
            except Unwind:
                pass
            return False, body()
        if mode == "set_true_with_false":
            config.free_arithmetics = True
            with enable_free_arithmetics(False):
                return False, body()
        if mode == "set_false_with_true":
            config.free_arithmetics = False
            with enable_free_arithmetics(True):
                return True, body()
        raise KeyError(mode)
    finally:
        config.free_arithmetics = False


def eval_site(case):
    """One (histogram, operation, mode): refused iff strict."""
    mk = site_hists()[case["hist"]]
    op = SITE_OPS[case["op"]]

    def body():
        h = mk()
        try:
            r = op(h)
        except Exception as e:  # noqa: BLE001
            return ("raise", type(e).__name__, None)
        neg = None
        for o in (r, h):
            if hasattr(o, "frequencies"):
                neg = bool(neg) or bool(np.any(np.asarray(o.frequencies) < 0))
        return ("ok", type(r).__name__, neg)

    free, got = in_mode(case["mode"], body)
    out = []
    kind = "negative" if ("neg" in case["op"] or "big" in case["op"]) else "array_operand"
    if not free and got[0] != "raise":
        out.append(V("refused_in_strict_mode", f"site|{kind}|{case['op']}|accepted_in_strict", case, "refused with an error", {"result": got[1], "negative_content": got[2]}))
    if free and got[0] != "ok":
        out.append(V("accepted_in_free_mode", f"site|{kind}|{case['op']}|refused_in_free|{got[1]}", case, "accepted", got[1]))
    return out, f"{kind}:{'free' if free else 'strict'}:{got[0]}"


def units(tier, seed):
    thorough = tier == "thorough"
    us = []
    L = 5 if thorough else 4
    for first in range(8):
        us.append({"kind": "nesting", "L": L, "shard": first, "nshards": 8})
    us.append({"kind": "env"})
    for hname in ("1d_float", "1d_int", "1d_weighted", "2d", "2d_int", "polar"):
        us.append({"kind": "sites", "hist": hname})
    n = len(MENU)
    for a in range(n):
        for main in (False, True):
            us.append({"kind": "threads_op", "a": a, "main": main})
    for a in range(len(SMALL)):
        us.append({"kind": "threads_triples", "a": a})
    line_pairs = [(1, 5), (6, 3), (1, 1), (10, 6)] if not thorough else [(a, b) for a in (1, 5, 6, 10) for b in (1, 3, 6)]
    for a, b in line_pairs:
        us.append({"kind": "threads_line", "a": a, "b": b, "bound": 2 if thorough else 1})
    for a in range(n):
        us.append({"kind": "async_pairs", "a": a})
    for a in range(len(SMALL)):
        us.append({"kind": "async_triples", "a": a})
    return us


_DEADLINE = [None]  # time budget of the running check (set per unit): line-level exploration at bound 2 grows with the square of the
# number of lines in the traced methods and must stop when the budget is spent (reported as capped)


def run_unit(unit, ctx):
    p = Partial()
    _DEADLINE[0] = ctx.deadline
    kind = unit["kind"]
    if kind == "nesting":
        k = 0
        for items in gen_items(unit["L"], 0, 3):
            k += 1
            if k % unit["nshards"] != unit["shard"]:
                continue
            for start in (False, True):
                case = {"program": tolist(items), "start": start}
                vs = eval_nesting(case)
                nt = any(it[0] == "W" for it in items) and any(it[0] == "P" for it in flat(items))
                p.ev(nt)
                p.states += 1
                p.transitions += size(items)
                p.traces += 1
                p.extend(vs)
            if k % 997 == 0:
                p.sample(case)
                if ctx.expired():
                    p.capped = True
                    p.notes.append(f"nesting shard {unit['shard']}: stopped after {k} programs")
                    break
        p.outcome("nesting")
    elif kind == "env":
        for value in (None, "0", "1", ""):
            case = {"value": value}
            p.extend(eval_env(case))
            p.ev(True)
            p.states += 1
            p.transitions += 4
        p.sample(case)
        p.outcome("env")
    elif kind == "sites":
        for op in SITE_OPS:
            for mode in SITE_MODES:
                case = {"site": True, "hist": unit["hist"], "op": op, "mode": mode}
                vs, label = eval_site(case)
                p.ev(True)
                p.states += 1
                p.transitions += 1
                p.outcome("site:" + label)
                p.extend(vs)
        p.sample(case)
    elif kind in ("threads_op", "threads_triples", "threads_line"):
        cases = []
        if kind == "threads_op":
            for b in range(len(MENU)):
                cases.append({"programs": [MENU[unit["a"]], MENU[b]], "main": unit["main"]})
        elif kind == "threads_triples":
            a = unit["a"]
            for b in range(a, len(SMALL)):
                for c in range(b, len(SMALL)):
                    cases.append({"programs": [SMALL[a], SMALL[b], SMALL[c]], "main": (a + b + c) % 2 == 0})
        else:
            cases.append({"programs": [MENU[unit["a"]], MENU[unit["b"]]], "main": True, "line": True, "bound": unit["bound"]})
        for case in cases:
            if ctx.expired():
                p.capped = True
                p.notes.append(f"{kind}: time budget")
                break
            case = json.loads(json.dumps(case))
            vs, st = eval_threads(case)
            p.schedules += st["runs"]
            p.ev(st["alternating"] > 0, st["runs"])
            p.count("alternating_schedules", st["alternating"])
            p.states += st["runs"]
            p.transitions += st["runs"] * sum(len(x) for x in case["programs"])
            p.traces += st["runs"]
            p.outcome(f"{kind}:distinct_observations={min(len(st['outcomes']), 3)}")
            if st.get("capped"):
                p.capped = True
            p.extend(vs)
        p.sample(case)
    elif kind in ("async_pairs", "async_triples"):
        cases = []
        if kind == "async_pairs":
            for b in range(len(MENU)):
                for creator in (False, True):
                    cases.append({"programs": [MENU[unit["a"]], MENU[b]], "creator": creator})
        else:
            a = unit["a"]
            for b in range(a, len(SMALL)):
                for c in range(b, len(SMALL)):
                    for creator in (False, True):
                        cases.append({"programs": [SMALL[a], SMALL[b], SMALL[c]], "creator": creator})
        for case in cases:
            if ctx.expired():
                p.capped = True
                break
            case = json.loads(json.dumps(case))
            vs, st = eval_async(case)
            p.schedules += st["runs"]
            p.ev(True, st["runs"])
            p.states += st["runs"]
            p.transitions += st["runs"] * sum(len(x) for x in case["programs"])
            p.traces += st["runs"]
            p.outcome(f"{kind}:distinct_observations={min(len(st['outcomes']), 3)}")
            p.extend(vs)
        p.sample(case)
    return p


def replay(case):
    if case.get("site"):
        return eval_site(case)[0]
    if "program" in case:
        return eval_nesting(case)
    if "value" in case:
        return eval_env(case)
    if "creator" in case:
        return eval_async({k: v for k, v in case.items() if k != "schedule"})[0]
    if "schedule" in case:
        return eval_thread_schedule(case)
    return eval_threads(case)[0]
