"""C07 - every binning schema is well-formed, covers its data and obeys its rule.

Engine E1: product of data tuples (mapped over 15 decades x offsets) x binning requests; all small
edge / pair arrays through every constructor; constructor argument grids.
"""
from __future__ import annotations

import itertools
import math
import re
from fractions import Fraction

import numpy as np

from mc.core import Partial, V
from mc.outcome import call
from mc.refmodel import frac, ulp_close

ID = "C07"
LEVEL = "exploration"
RULE = (
    "(A) data = every integer tuple of length 2..L over {0..5} (duplicates, all-equal, plus two values one ulp apart) mapped "
    "x -> o + s*x for s in 10^-7..10^7 and o in {0, +-1e3 s, +-1e6 s}, crossed with every binning request: int 1..6 (+range), "
    "bin-count rules, numpy, fixed_width (10 widths, range, align, bin_shift, includes_right_edge), pretty (bin_count, range, "
    "min/max width, kind=time), integer (range, bin_width), quantile (bin_count, q, qrange), exponential, static, astropy "
    "blocks/scott/freedman; oracles: well-formed, coverage, rule. (B) ALL edge arrays of length 1..4 over {0,1,2,3} and ALL "
    "pair arrays of 1..3 pairs over {0..4} through calculate_1d_bins, StaticBinning, NumpyBinning, as_binning: accepted iff "
    "strictly rising and non-overlapping. (C) for every binning produced anywhere: bins / numpy_bins / numpy_bins_with_mask / "
    "bin_count / first_edge / last_edge / is_consecutive / is_regular / copy / == / [i] / [i:j] / as_static / as_fixed_width "
    "agree with an independent recomputation. (D) constructor grids of FixedWidthBinning / ExponentialBinning. (E) bin-count "
    "rules for n = 1..130 and skewed data against the textbook formulas in exact arithmetic. Non-trivial: every case except "
    "a plain int request on unit-scale data."
)
ASSUMPTIONS = [
    "numpy.histogram_bin_edges is the statement's reference for numpy-style arguments",
    "degenerate data (all values equal) may be refused by data-derived schemas",
    "is_consecutive / is_regular are tolerance based: judged only on clearly (in)consecutive / (ir)regular bins (gap > 1e-3 of the neighbouring widths)",
    "knuth binning needs scipy (absent): skipped",
]
BOUNDS = {"quick": "L=3, scales 10^-7..10^7 (15) x 3 offsets", "thorough": "L=4, 5 offsets"}
BUDGET = {"quick": 240, "thorough": 3000}

WIDTHS = [1.0, 10.0, 0.25, 0.1, 0.2, 0.3, 0.7, 1.0 / 3.0, 2.5]  # relative to the data scale: at most ~50 bins


def exc_sig(e):
    msg = re.sub(r"[^A-Za-z ]+", "", str(e))[:40].strip()
    return f"{type(e).__name__}:{msg}"


# ---------------------------------------------------------------------------------------------
# (C) cross-representation consistency of one binning object
# ---------------------------------------------------------------------------------------------


def representation_problems(b, _depth=0):
    """Independent recomputation from b.bins; returns list of (name, expected, observed)."""
    probs = []
    bins = np.asarray(b.bins)
    if bins.ndim != 2 or (bins.size and bins.shape[1] != 2):
        return [("bins_shape", "(n, 2)", list(bins.shape))]
    n = bins.shape[0]
    pairs = [tuple(map(float, r)) for r in bins.tolist()]
    if any(not (l < r) for l, r in pairs):
        probs.append(("wellformed_left_lt_right", "left < right", pairs))
    if any(pairs[i + 1][0] < pairs[i][1] for i in range(n - 1)):
        probs.append(("wellformed_rising", "non-overlapping rising bins", pairs))
    if probs:
        return probs
    if b.bin_count != n:
        probs.append(("bin_count", n, b.bin_count))
    if n == 0:
        return probs
    if float(b.first_edge) != pairs[0][0]:
        probs.append(("first_edge", pairs[0][0], float(b.first_edge)))
    if float(b.last_edge) != pairs[-1][1]:
        probs.append(("last_edge", pairs[-1][1], float(b.last_edge)))
    exact_cons = all(pairs[i][1] == pairs[i + 1][0] for i in range(n - 1))
    gaps = [pairs[i + 1][0] - pairs[i][1] for i in range(n - 1)]
    widths = [r - l for l, r in pairs]
    # is_consecutive() is tolerance based: judged only on gaps that are a noticeable part (> 1e-3) of the bins around them -
    # whatever the size of the edges themselves (a gap of 1 between bins of width 1 at 1e6 is a gap)
    clear_gap = any(g > 1e-3 * min(widths[i], widths[i + 1]) for i, g in enumerate(gaps))
    cons = b.is_consecutive()
    if exact_cons and not cons:
        probs.append(("is_consecutive", True, cons))
    if clear_gap and cons:
        probs.append(("is_consecutive", False, cons))
    if exact_cons:
        want = [pairs[0][0]] + [p[1] for p in pairs]
        r = call(lambda: np.asarray(b.numpy_bins).tolist())
        if not r.ok:
            probs.append(("numpy_bins", want, r.describe()))
        elif r.value != want:
            probs.append(("numpy_bins", want, r.value))
    # masked edges
    r = call(lambda: b.numpy_bins_with_mask)
    if not r.ok:
        probs.append(("numpy_bins_with_mask", "edges, mask", r.describe()))
    else:
        edges, mask = r.value
        edges = np.asarray(edges).tolist()
        mask = [int(i) for i in np.asarray(mask).tolist()]
        inf_expected = not b.includes_right_edge
        if inf_expected:
            if not (edges and math.isinf(edges[-1]) and edges[-1] > 0):
                probs.append(("masked_inf_edge", "+inf appended (right edge not included)", edges))
            else:
                edges = edges[:-1]
        elif edges and math.isinf(edges[-1]):
            probs.append(("masked_inf_edge", "no +inf edge (right edge included)", edges))
            edges = edges[:-1]
        got = []
        ok = len(mask) == n
        if ok:
            for i in mask:
                if i + 1 >= len(edges) + (0):
                    ok = False
                    break
                got.append((edges[i], edges[i + 1]))
        if not ok or got != pairs:
            probs.append(("masked_edges_vs_bins", pairs, {"edges": edges, "mask": mask}))
        if any(edges[i + 1] <= edges[i] for i in range(len(edges) - 1)):
            probs.append(("masked_edges_monotone", "strictly increasing", edges))
    # regularity (clear cases only)
    if n >= 2:
        wmax, wmin = max(widths), min(widths)
        r = call(b.is_regular)
        if r.ok:
            if wmax == wmin and not r.value and type(b).__name__ != "ExponentialBinning":
                probs.append(("is_regular", True, r.value))
            if wmax - wmin > 0.05 * wmax + 1e-7 and r.value and wmin > 1e-6 * max(abs(pairs[0][0]), abs(pairs[-1][1])):
                probs.append(("is_regular", False, r.value))
        else:
            probs.append(("is_regular", "a bool", r.describe()))
    # copy / == / indexing / as_static
    r = call(b.copy)
    if not r.ok:
        probs.append(("copy", "a copy", r.describe()))
    else:
        c = r.value
        if type(c) is not type(b):
            probs.append(("copy_class", type(b).__name__, type(c).__name__))
        elif np.asarray(c.bins).tolist() != bins.tolist():
            probs.append(("copy_bins", bins.tolist(), np.asarray(c.bins).tolist()))
        elif bool(c.includes_right_edge) != bool(b.includes_right_edge) or c.is_adaptive() != b.is_adaptive():
            probs.append(("copy_flags", [b.includes_right_edge, b.is_adaptive()], [c.includes_right_edge, c.is_adaptive()]))
        elif c is b:
            probs.append(("copy_identity", "a new object", "self"))
        else:
            if not (b == c):
                probs.append(("eq_copy", True, False))
    if not (b == b):
        probs.append(("eq_self", True, False))
    for i, j in ((0, n), (1, n), (0, n - 1), (1, 2)):
        if 0 <= i < j <= n:
            r = call(lambda: np.asarray(b[i:j].bins).tolist())
            if not r.ok or r.value != bins[i:j].tolist():
                probs.append(("getitem_slice", bins[i:j].tolist(), r.describe() if not r.ok else r.value))
                break
    # a selection must answer for ITSELF (not with a cached answer of the binning it was taken from)
    if _depth == 0 and n >= 2:
        b.is_consecutive()
        subs = [slice(0, n - 1), slice(1, n)]
        if type(b).__name__ == "StaticBinning" and n >= 3:
            subs += [np.array([0, n - 1]), np.array([0, 1])]
        for sel in subs:
            r = call(lambda: b[sel])
            if r.ok and hasattr(r.value, "bins"):
                for name, e, o in representation_problems(r.value, _depth=1):
                    if name in ("is_consecutive", "numpy_bins", "masked_edges_vs_bins", "bin_count", "first_edge", "last_edge"):
                        probs.append(("selection_" + name, e, o))
                if probs:
                    break
    r = call(b.as_static)
    if not r.ok or np.asarray(r.value.bins).tolist() != bins.tolist():
        probs.append(("as_static", bins.tolist(), r.describe() if not r.ok else np.asarray(r.value.bins).tolist()))
    scale_ = max(abs(pairs[0][0]), abs(pairs[-1][1]), 1e-300)
    if exact_cons and n >= 1 and min(widths) > 1e-6 * scale_ and (n == 1 or max(widths) == min(widths)) \
            and type(b).__name__ != "ExponentialBinning":
        r = call(b.as_fixed_width)
        if not r.ok:
            probs.append(("as_fixed_width", "a FixedWidthBinning with the same bins", r.describe()))
        else:
            fb = np.asarray(r.value.bins)
            if fb.shape != bins.shape or not np.allclose(fb, bins, rtol=1e-12, atol=0):
                probs.append(("as_fixed_width_bins", bins.tolist(), fb.tolist()))
    return probs


def rep_violations(b, case, tag):
    return [V("representation", f"repr|{tag}|{name}", case, e, o) for name, e, o in representation_problems(b)]


# ---------------------------------------------------------------------------------------------
# (A) data-derived binnings
# ---------------------------------------------------------------------------------------------


def pretty_ok(width, raw):
    """width in {1,2,2.5,5}*10^k and no other member strictly closer (log distance) to raw."""
    if not (width > 0 and raw > 0):
        return False, "non-positive"
    k = math.floor(math.log10(width) + 1e-9)
    cands = []
    for kk in range(k - 2, k + 3):
        for m in (1.0, 2.0, 2.5, 5.0):
            cands.append(m * 10.0 ** kk)
    member = any(abs(width / c - 1) < 1e-12 for c in cands)
    if not member:
        return False, "not in {1,2,2.5,5}*10^k"
    d = abs(math.log(width / raw))
    best = min(abs(math.log(c / raw)) for c in cands)
    if d > best + 1e-9:
        return False, f"a closer pretty width exists (distance {d:.6g} vs {best:.6g})"
    return True, ""


def quantiles_exact(data, qs):
    """linear-interpolation quantiles in exact rationals."""
    s = sorted(frac(x) for x in data)
    n = len(s)
    out = []
    for q in qs:
        pos = frac(q) * (n - 1)
        lo = int(pos // 1)
        hi = min(lo + 1, n - 1)
        f = pos - lo
        out.append(s[lo] + (s[hi] - s[lo]) * f)
    return out


REQUESTS = (
    [["int", n, None] for n in range(1, 7)]
    + [["int_range", n, None] for n in (1, 3, 4)]
    + [["rule", r, None] for r in ("sturges", "sqrt", "rice", "doane")]
    + [["numpy", None, None]]
    + [["fixed_width", w, None] for w in WIDTHS]
    + [["fixed_width", 0.3, "range"], ["fixed_width", 1.0, "range"], ["fixed_width", 0.7, "noalign"], ["fixed_width", 0.2, "shift"],
       ["fixed_width", 1.0, "right"], ["fixed_width", 0.1, "adaptive"]]
    + [["pretty", None, None], ["pretty", 3, None], ["pretty", 12, None], ["pretty", 5, "range"], ["pretty", 4, "minw"], ["pretty", 4, "maxw"],
       ["pretty", 6, "time"]]
    + [["integer", None, None], ["integer", 2, None], ["integer", None, "range"]]
    + [["quantile", 2, None], ["quantile", 3, None], ["quantile", None, "q"], ["quantile", 2, "qrange"]]
    + [["exponential", 2, None], ["exponential", 5, None], ["exponential", 3, "range"]]
    + [["static", None, None]]
    + [["astropy", "blocks", None], ["astropy", "scott", None], ["astropy", "freedman", None]]
)


def eval_data(case):
    from physt._construction import calculate_1d_bins

    data = [float(x) for x in case["data"]]
    arr = np.array(data, dtype=float)
    kind, arg, opt = case["request"]
    s = case["scale"]
    lo, hi = min(data), max(data)
    degenerate = lo == hi
    kw = {}
    spec = None
    span = hi - lo
    wscale = s
    rng = None
    if kind == "int":
        spec = arg
    elif kind == "int_range":
        spec = arg
        rng = (lo - 0.5 * s, hi + 1.25 * s)
        kw["range"] = rng
    elif kind == "rule":
        spec = arg
    elif kind == "numpy":
        spec = "numpy"
    elif kind == "fixed_width":
        spec = "fixed_width"
        kw["bin_width"] = arg * wscale
        if opt == "range":
            rng = (lo - 0.4 * s, hi + 2.0 * s)
            kw["range"] = rng
        elif opt == "noalign":
            kw["align"] = False
        elif opt == "shift":
            kw["bin_shift"] = 0.5 * arg * wscale
        elif opt == "right":
            kw["includes_right_edge"] = True
        elif opt == "adaptive":
            kw["adaptive"] = True
    elif kind == "pretty":
        spec = "pretty"
        if arg is not None:
            kw["bin_count"] = arg
        if opt == "range":
            rng = (lo - 1.0 * s, hi + 3.0 * s)
            kw["range"] = rng
        elif opt == "minw":
            kw["min_bin_width"] = 2.0 * s
        elif opt == "maxw":
            kw["max_bin_width"] = 0.5 * s
        elif opt == "time":
            kw["kind"] = "time"
    elif kind == "integer":
        spec = "integer"
        if arg is not None:
            kw["bin_width"] = arg
        if opt == "range":
            rng = (math.floor(lo) - 1, math.floor(hi) + 3)
            kw["range"] = rng
    elif kind == "quantile":
        spec = "quantile"
        if opt == "q":
            kw["q"] = [0.0, 0.25, 0.5, 1.0]
        else:
            kw["bin_count"] = arg
            if opt == "qrange":
                kw["qrange"] = (0.25, 1.0)
    elif kind == "exponential":
        spec = "exponential"
        kw["bin_count"] = arg
        if opt == "range":
            rng = (abs(lo) * 0.5 + 0.25 * s, abs(hi) * 2 + 2 * s)
            kw["range"] = rng
    elif kind == "static":
        spec = "static"
        kw["bins"] = np.array([lo - s, lo, (lo + hi) / 2 if hi > lo else lo + s, hi + s])
    elif kind == "astropy":
        spec = arg
    res = call(calculate_1d_bins, arr, spec, **kw)
    tag = f"{kind}{'/' + str(opt) if opt else ''}"
    out = []
    if not res.ok:
        # refusal is legitimate for degenerate data, non-positive data with exponential, repeated quantiles ...
        must = not degenerate and kind in ("int", "int_range", "numpy", "fixed_width", "pretty", "integer", "static") and span > 0
        if case.get("narrow") and kind != "static":
            must = False  # a range of a few ulps may be refused as too narrow to split
        if kind in ("int", "numpy", "rule") and not np.isfinite(hi - lo):
            must = False
        if kind == "rule":
            must = not degenerate
        if must:
            # numpy itself may refuse (too many bins for the range)
            if kind in ("int", "int_range", "numpy", "rule"):
                n = arg if kind in ("int", "int_range") else 10
                r2 = call(np.histogram_bin_edges, arr, bins=n if kind != "rule" else 3, range=rng)
                if not r2.ok:
                    return out, "refused-like-numpy"
            out.append(V("must_succeed", f"must_succeed|{tag}|{exc_sig(res.exc)}", case, "a binning", res.describe()))
        return out, "raise:" + type(res.exc).__name__
    b = res.value
    out.extend(rep_violations(b, case, tag))
    if out:
        return out, "ok"
    bins = np.asarray(b.bins)
    n = bins.shape[0]
    if n == 0:
        if not degenerate:
            out.append(V("nonempty", f"no_bins|{tag}", case, ">= 1 bin", 0))
        return out, "ok"
    first, last = float(bins[0, 0]), float(bins[-1, 1])
    right = bool(b.includes_right_edge)
    # --- coverage
    cov_lo, cov_hi = (rng if rng is not None and kind != "exponential" else (lo, hi))
    if kind == "exponential" and rng is not None:
        cov_lo, cov_hi = rng
    if kind == "integer" and rng is not None:
        cov_lo, cov_hi = rng[0] - 0.5, rng[1] - 0.5
    if kind in ("astropy",):
        pass
    elif kind == "exponential":
        if not (first <= cov_lo * (1 + 1e-12) and last >= cov_hi * (1 - 1e-12)):
            out.append(V("coverage", f"coverage|{tag}", case, [cov_lo, cov_hi], [first, last]))
    elif kind == "quantile" and opt == "qrange":
        pass  # covers only the requested quantile range
    else:
        ok_lo = first <= cov_lo
        if rng is not None and kind not in ("fixed_width", "pretty", "integer"):
            ok_hi = last >= cov_hi
        else:
            ok_hi = (last >= cov_hi) if right or rng is not None else (last > cov_hi)
        if rng is not None and kind in ("int_range",):
            ok_lo = first == cov_lo
            ok_hi = last == cov_hi
        if not (ok_lo and ok_hi):
            out.append(V("coverage", f"coverage|{tag}|{'lo' if not ok_lo else 'hi'}", case,
                         {"cover": [cov_lo, cov_hi], "right_edge_included": right}, [first, last]))
    # --- rules
    if case.get("narrow"):
        return out, "ok-narrow"  # resolution-limited edges: only well-formedness, representations and coverage are demanded
    edges = [float(bins[0, 0])] + [float(x) for x in bins[:, 1].tolist()]
    if kind in ("int", "int_range", "numpy"):
        nb = arg if kind != "numpy" else 10
        r2 = call(np.histogram_bin_edges, arr, bins=nb, range=rng)
        if r2.ok and np.all(np.diff(r2.value) > 0):
            if edges != r2.value.tolist():
                out.append(V("rule_numpy_edges", f"rule|{tag}|numpy_edges", case, r2.value.tolist(), edges))
    elif kind in ("fixed_width", "pretty", "integer"):
        w = float(b.bin_width)
        if kind == "fixed_width" and w != kw["bin_width"]:
            out.append(V("rule_width", f"rule|{tag}|bin_width", case, kw["bin_width"], w))
        shift = kw.get("bin_shift", 0.5 if kind == "integer" else 0.0)
        if opt != "noalign":
            k0 = round((edges[0] - shift) / w)
            want = [(k0 + i) * w + shift for i in range(len(edges))]
            if edges != want:
                out.append(V("rule_grid", f"rule|{tag}|grid", case, want, edges))
        else:
            if any(abs((edges[i + 1] - edges[i]) / w - 1) > 1e-9 for i in range(n)):
                out.append(V("rule_equal_width", f"rule|{tag}|equal_width", case, w, edges))
        if rng is None and opt not in ("adaptive",) and not out:
            # span exactly: no superfluous bins
            lo_ok = edges[1] > lo
            hi_ok = edges[-2] <= hi if not right else edges[-2] < hi or n == 1
            if not (lo_ok and hi_ok):
                out.append(V("rule_exact_span", f"rule|{tag}|superfluous_bin", case, {"data": [lo, hi]}, edges))
        if kind == "pretty" and opt not in ("minw", "maxw", "time") and span > 0:
            bc = arg if arg is not None else 7
            raw = ((rng[1] - rng[0]) if rng is not None else span) / bc
            ok, why = pretty_ok(w, raw)
            if not ok:
                out.append(V("rule_pretty_width", f"rule|{tag}|pretty_width", case, f"pretty width nearest to {raw}", f"{w}: {why}"))
        if kind == "integer":
            bw = kw.get("bin_width", 1)
            if any(abs((edges[i] - 0.5) - round(edges[i] - 0.5)) > 0 for i in range(len(edges))) or w != bw:
                out.append(V("rule_integer_centred", f"rule|{tag}|integer_centred", case, "edges on half-integers", edges))
    elif kind == "quantile":
        if opt == "q":
            qs = kw["q"]
        else:
            q0, q1 = kw.get("qrange", (0.0, 1.0))
            qs = [q0 + (q1 - q0) * Fraction(i, arg) for i in range(arg + 1)]
        want = quantiles_exact(data, qs)
        if len(want) != len(edges) or not all(ulp_close(o, e, 4) or abs(frac(o) - e) <= frac(4 * math.ulp(max(abs(lo), abs(hi)))) for o, e in zip(edges, want)):
            out.append(V("rule_quantiles", f"rule|{tag}|quantiles", case, [float(x) for x in want], edges))
    elif kind == "exponential":
        ratios = [edges[i + 1] / edges[i] for i in range(n)]
        if any(abs(r / ratios[0] - 1) > 1e-11 for r in ratios) or n != arg:
            out.append(V("rule_geometric", f"rule|{tag}|geometric", case, "constant ratio", ratios))
    return out, "ok"


# ---------------------------------------------------------------------------------------------
# (B) explicit edge / pair arrays
# ---------------------------------------------------------------------------------------------


def eval_explicit(case):
    from physt._construction import calculate_1d_bins
    from physt.binnings import NumpyBinning, StaticBinning, as_binning

    arr = case["array"]
    form = case["form"]
    a = np.array(arr, dtype=float)
    if a.ndim == 1:
        valid = len(arr) >= 2 and all(arr[i] < arr[i + 1] for i in range(len(arr) - 1))
        degenerate = len(arr) < 2
    else:
        valid = all(l < r for l, r in arr) and all(arr[i + 1][0] >= arr[i][1] for i in range(len(arr) - 1))
        degenerate = False
    if form == "calculate_1d_bins":
        res = call(calculate_1d_bins, None, a)
    elif form == "calculate_1d_bins_list":
        res = call(calculate_1d_bins, None, [list(x) if isinstance(x, (list, tuple)) else x for x in arr])
    elif form == "StaticBinning":
        res = call(StaticBinning, a)
    elif form == "NumpyBinning":
        res = call(NumpyBinning, a)
    elif form == "as_binning":
        res = call(as_binning, a)
    else:
        raise ValueError(form)
    out = []
    tag = f"explicit|{form}|{'edges' if a.ndim == 1 else 'pairs'}"
    if res.ok:
        b = res.value
        if not valid and not (degenerate and b.bin_count == 0):
            out.append(V("must_raise", f"accepted_invalid|{tag}", case, "refused (not strictly rising / overlapping / empty-width)",
                         np.asarray(b.bins).tolist()))
            return out, "ok-invalid"
        if valid:
            want = [[arr[i], arr[i + 1]] for i in range(len(arr) - 1)] if a.ndim == 1 else [list(p) for p in arr]
            got = np.asarray(b.bins).tolist()
            if got != [[float(x) for x in p] for p in want]:
                out.append(V("bins", f"bins|{tag}", case, want, got))
            out.extend(rep_violations(b, case, tag))
        return out, "ok"
    if valid:
        out.append(V("must_succeed", f"must_succeed|{tag}|{exc_sig(res.exc)}", case, "a binning", res.describe()))
    return out, "raise"


# ---------------------------------------------------------------------------------------------
# (D) constructor grids
# ---------------------------------------------------------------------------------------------


def eval_ctor(case):
    from physt.binnings import ExponentialBinning, FixedWidthBinning

    out = []
    if case["klass"] == "FixedWidth":
        kw = dict(case["kw"])
        res = call(FixedWidthBinning, **kw)
        bw, bc = kw.get("bin_width"), kw.get("bin_count", 0)
        invalid = (
            bw <= 0 or bc < 0
            or (kw.get("min") is not None and (kw.get("bin_times_min") is not None or kw.get("bin_shift") is not None))
            or (bc == 0 and (kw.get("bin_times_min") is not None or kw.get("min") is not None))
            or (kw.get("adaptive") and kw.get("includes_right_edge"))
        )
        tag = "ctor|FixedWidth"
        if invalid:
            if res.ok:
                out.append(V("must_raise", f"{tag}|accepted_invalid", case, "refused", "accepted"))
            return out, "refused"
        if not res.ok:
            if bc > 0 and kw.get("bin_times_min") is None and kw.get("min") is None:
                return out, "refused-no-origin"  # bins without an origin: nothing sensible to build
            out.append(V("must_succeed", f"{tag}|{exc_sig(res.exc)}", case, "a binning", res.describe()))
            return out, "raise"
        b = res.value
        if bc > 0 and kw.get("bin_times_min") is None and kw.get("min") is None:
            return out, "ok-no-origin"
        out.extend(rep_violations(b, case, tag))
        if not out and bc > 0:
            edges = np.asarray(b.numpy_bins).tolist()
            if kw.get("min") is not None:
                if abs(edges[0] - kw["min"]) > 1e-9 * max(1.0, abs(kw["min"])):
                    out.append(V("ctor_min", f"{tag}|min", case, kw["min"], edges[0]))
            else:
                shift = kw.get("bin_shift") or 0.0
                want = [(kw["bin_times_min"] + i) * float(bw) + shift for i in range(bc + 1)]
                if edges != want:
                    out.append(V("ctor_grid", f"{tag}|grid", case, want, edges))
        return out, "ok"
    else:
        kw = dict(case["kw"])
        res = call(ExponentialBinning, **kw)
        tag = "ctor|Exponential"
        if kw.get("adaptive"):
            if res.ok:
                out.append(V("must_raise", f"{tag}|accepted_adaptive", case, "refused", "accepted"))
            return out, "refused"
        if not res.ok:
            out.append(V("must_succeed", f"{tag}|{exc_sig(res.exc)}", case, "a binning", res.describe()))
            return out, "raise"
        b = res.value
        if kw["bin_count"] == 0:
            return out, "ok-empty"
        out.extend(rep_violations(b, case, tag))
        if not out:
            edges = np.asarray(b.numpy_bins).tolist()
            want = [10.0 ** (kw["log_min"] + i * kw["log_width"]) for i in range(kw["bin_count"] + 1)]
            if not all(abs(o / e - 1) < 1e-12 for o, e in zip(edges, want)):
                out.append(V("ctor_geometric", f"{tag}|geometric", case, want, edges))
        return out, "ok"


# ---------------------------------------------------------------------------------------------
# (E) bin-count rules
# ---------------------------------------------------------------------------------------------


def isqrt_ceil(n):
    r = math.isqrt(n)
    return r if r * r == n else r + 1


def eval_rule(case):
    from physt.binnings import ideal_bin_count

    n = case["n"]
    shape = case["shape"]
    if shape == "uniform":
        data = np.arange(n, dtype=float)
    elif shape == "skewed":
        data = np.array([0.0] * (n - max(1, n // 8)) + [10.0 + i for i in range(max(1, n // 8))])
    else:
        data = np.array([float(i * i * i) for i in range(n)])
    out = []
    for method in ("sqrt", "sturges", "rice", "doane"):
        res = call(ideal_bin_count, data, method)
        if not res.ok:
            out.append(V("must_succeed", f"rulecount|{method}|{exc_sig(res.exc)}", case, "a count", res.describe()))
            continue
        got = res.value
        if method == "sqrt":
            want = {isqrt_ceil(n)}
        elif method == "sturges":
            l = n.bit_length() - 1
            want = {(l if 2 ** l == n else l + 1) + 1}
        elif method == "rice":
            c = round((8 * n) ** (1 / 3))
            exact_cube = c ** 3 == 8 * n
            k = math.ceil((8 * n) ** (1 / 3) - 1e-9)
            want = {k, k + 1} if exact_cube else {math.ceil((8 * n) ** (1 / 3))}
            if exact_cube:
                want = {c, c + 1}
        else:
            if n < 3:
                want = {1}
            else:
                m = float(np.mean(data))
                sd = float(np.std(data))
                if sd == 0:
                    continue
                g1 = float(np.sum((data - m) ** 3) / len(data) / sd ** 3)
                sg = math.sqrt(6.0 * (n - 2) / ((n + 1) * (n + 3)))
                kk = 1 + math.log2(n) + math.log2(1 + abs(g1) / sg)
                want = {math.ceil(kk)}
                if abs(kk - round(kk)) < 1e-9:
                    want |= {round(kk), round(kk) + 1}
        if got not in want:
            out.append(V("rule_bin_count", f"rulecount|{method}|{shape}", dict(case, method=method), sorted(want), got))
    return out


# ---------------------------------------------------------------------------------------------


def data_tuples(L):
    base = list(range(6))
    for n in range(2, L + 1):
        for t in itertools.combinations_with_replacement(base, n):
            yield t


SCALES = [10.0 ** e for e in range(-7, 8)]
OFFSETS = [0.0, 1e3, -1e3, 1e6, -1e6]


SPECIAL_PAIRS = [
    [[1e6, 1e6 + 1], [1e6 + 2, 1e6 + 3]],                      # an ordinary gap at a large offset
    [[1e9, 1e9 + 1], [1e9 + 3, 1e9 + 4], [1e9 + 4, 1e9 + 5]],
    [[0.0, 1.0], [1.0 + 2.0 ** -20, 2.0]],                    # a gap below the is_consecutive tolerance
    [[0.0, 1.0], [1.0, 2.0], [2.0 + 2.0 ** -30, 3.0]],
    [[-1e6 - 3, -1e6 - 2], [-1e6 - 1, -1e6]],
    [[1e-9, 2e-9], [3e-9, 4e-9]],                              # everything below atol
    [[0.0, 1e-9], [1e-9, 3e-9], [3e-9, 4e-9]],
]


RANGE_TYPES = ["float32", "float16", "float64", "int64", "int8"]
RANGE_WIDTHS = [0.05, 0.1, 0.2, 0.25, 0.3, 0.5, 0.7, 2.5, 1.0]


def eval_range_type(case):
    """A range whose bounds are numpy scalars of a narrow type is the range of the same values as python floats: the binning
    covers it and is the one the python floats give (fixed_width / pretty / integer factories and the h1 facade).
    (seeded C07-grid-index-in-callers-float-type; repaired: a float32 range end equal to the rounded grid edge)"""
    from physt import h1
    from physt.binnings import fixed_width_binning, integer_binning, pretty_binning

    w, k0, k1, typ, side, via = case["width"], case["k0"], case["k1"], case["type"], case["side"], case["via"]
    t = getattr(np, typ)
    lo, hi = k0 * w, k1 * w
    if typ.startswith("int"):
        lo, hi = float(math.floor(lo)), float(math.ceil(hi)) + (1.0 if math.ceil(hi) == math.floor(lo) else 0.0)
    a = t(lo) if side in ("lo", "both") else lo - w / 3
    b = t(hi) if side in ("hi", "both") else hi + w / 3
    fa, fb = float(a), float(b)
    if not fa < fb:
        return [], "skip"

    def make(r):
        if via == "fixed_width":
            return fixed_width_binning(None, w, range=r)
        if via == "pretty":
            return pretty_binning(None, 4, range=r)
        if via == "integer":
            return integer_binning(None, range=r)
        return h1(np.array([fa, 0.5 * (fa + fb), fb]), "fixed_width", bin_width=w, range=r).binning

    got, ref = call(make, (a, b)), call(make, (fa, fb))
    tag = f"range_type|{via}|{typ}|{side}"
    if not ref.ok:
        return [], "ref-refused"
    if not got.ok:
        return [V("must_succeed", f"must_succeed|{tag}|{exc_sig(got.exc)}", case, "as for python floats", got.describe())], "raise"
    e, r = np.asarray(got.value.numpy_bins).tolist(), np.asarray(ref.value.numpy_bins).tolist()
    out = []
    lo_cov = fa - 0.5 if via == "integer" else fa
    hi_cov = fb - 0.5 if via == "integer" else fb
    if not (e[0] <= lo_cov and hi_cov <= e[-1]):
        out.append(V("coverage", f"coverage|{tag}", case, [fa, fb], [e[0], e[-1]]))
    if e != r:
        out.append(V("same_as_floats", f"same_as_floats|{tag}", case, r, e))
    return out, "ok"


def units(tier, seed):
    thorough = tier == "thorough"
    L = 4 if thorough else 3
    us = []
    for si, s in enumerate(SCALES):
        for oi, o in enumerate(OFFSETS):
            if not thorough and oi in (2, 3):
                continue
            us.append({"kind": "data", "scale": s, "offset": o * s, "L": L})
    us.append({"kind": "special"})
    us.append({"kind": "ulp"})
    for form in ("calculate_1d_bins", "calculate_1d_bins_list", "StaticBinning", "NumpyBinning", "as_binning"):
        us.append({"kind": "explicit", "form": form})
    us.append({"kind": "ctor"})
    us.append({"kind": "rules"})
    for via in ("fixed_width", "pretty", "integer", "h1"):
        us.append({"kind": "range_types", "via": via, "K": 40 if thorough else 16})
    return us


def run_unit(unit, ctx):
    p = Partial()
    kind = unit["kind"]
    if kind == "data":
        s, o = unit["scale"], unit["offset"]
        k = 0
        for t in data_tuples(unit["L"]):
            data = [o + s * x for x in t]
            for req in REQUESTS:
                if req[0] == "exponential" and min(data) <= 0:
                    continue
                if req[0] == "astropy" and (len(t) < 3 or s != 1.0):
                    continue
                if req[0] == "pretty" and req[2] == "time" and not (1e-2 <= s <= 1e5):
                    continue
                if req[0] == "integer" and s > 100:
                    continue  # unit-width bins over a span of 5*s
                if ctx.expired():
                    p.capped = True
                    p.notes.append(f"data unit scale={s} offset={o}: stopped after {k} cases")
                    return p
                case = {"data": data, "request": req, "scale": s}
                vs, label = eval_data(case)
                k += 1
                p.ev(not (req[0] == "int" and s == 1.0 and o == 0.0))
                p.outcome(f"{req[0]}:{label}")
                p.extend(vs)
        p.sample(case)
    elif kind == "ulp":
        for x in (1.0, 0.1, 1e-7, 1e9, -3.0, 123456.789):
            for d in (1, 2, 5):
                y = x
                for _ in range(d):
                    y = math.nextafter(y, math.inf)
                for req in REQUESTS:
                    if req[0] in ("astropy", "quantile", "static", "integer") or (req[0] == "exponential" and x <= 0):
                        continue
                    case = {"data": [x, y], "request": req, "scale": abs(x), "narrow": True}
                    vs, label = eval_data(case)
                    p.ev(True)
                    p.outcome(f"ulp:{req[0]}:{label}")
                    p.extend(vs)
        p.sample(case)
    elif kind == "explicit":
        form = unit["form"]
        arrays = []
        for n in range(1, 5):
            arrays += [list(t) for t in itertools.product(range(4), repeat=n)]
        pair_vals = [(l, r) for l in range(5) for r in range(5)]
        pair_arrays = []
        if form != "NumpyBinning":
            for n in range(1, 4):
                src = pair_vals if n < 3 else [(l, r) for l in range(4) for r in range(4)]
                pair_arrays += [[list(q) for q in t] for t in itertools.product(src, repeat=n)]
        for arr in arrays + pair_arrays:
            case = {"array": arr, "form": form}
            vs, label = eval_explicit(case)
            p.ev(True)
            p.outcome(f"explicit:{label}")
            p.extend(vs)
        p.sample(case)
    elif kind == "special":
        for arr in SPECIAL_PAIRS:
            for form in ("calculate_1d_bins", "calculate_1d_bins_list", "StaticBinning", "as_binning"):
                for right in (None,):
                    case = {"array": arr, "form": form}
                    vs, label = eval_explicit(case)
                    p.ev(True)
                    p.outcome(f"special:{label}")
                    p.extend(vs)
        p.sample(case)
    elif kind == "ctor":
        for bw in (1.0, 0.1, 0.3, 2.5, 0, -1.0):
            for bc in (0, 1, 3, -1):
                for tm in (None, 0, -2, 5):
                    for mn in (None, 0.0, 0.35, -1.2):
                        for shift in (None, 0.05):
                            for ire, ad in ((False, False), (True, False), (False, True), (True, True)):
                                kw = {"bin_width": bw, "bin_count": bc, "bin_times_min": tm, "min": mn, "bin_shift": shift,
                                      "includes_right_edge": ire, "adaptive": ad}
                                kw = {k: v for k, v in kw.items() if v is not None}
                                case = {"klass": "FixedWidth", "kw": kw}
                                vs, label = eval_ctor(case)
                                p.ev(True)
                                p.outcome(f"ctor:{label}")
                                p.extend(vs)
        for lm in (0.0, -2.0, 1.5):
            for lw in (1.0, 0.25, 0.1):
                for bc in (0, 1, 4):
                    for ire in (True, False):
                        for ad in (False, True):
                            case = {"klass": "Exponential", "kw": {"log_min": lm, "log_width": lw, "bin_count": bc, "includes_right_edge": ire, "adaptive": ad}}
                            vs, label = eval_ctor(case)
                            p.ev(True)
                            p.outcome(f"ctorexp:{label}")
                            p.extend(vs)
        p.sample(case)
    elif kind == "range_types":
        K = unit["K"]
        for w in RANGE_WIDTHS:
            for k0 in range(-K, K + 1):
                for k1 in (k0 + 1, k0 + 2, k0 + 5):
                    for typ in RANGE_TYPES:
                        for side in ("lo", "hi", "both"):
                            case = {"width": w, "k0": k0, "k1": k1, "type": typ, "side": side, "via": unit["via"]}
                            vs, label = eval_range_type(case)
                            p.ev(typ != "float64")
                            p.outcome(f"range_type:{label}")
                            p.extend(vs)
        p.sample(case)
    elif kind == "rules":
        for n in range(1, 131):
            for shape in ("uniform", "skewed", "cubic"):
                case = {"n": n, "shape": shape}
                vs = eval_rule(case)
                p.ev(True)
                p.extend(vs)
        p.sample(case)
    return p


def replay(case):
    if "request" in case:
        return eval_data(case)[0]
    if "array" in case:
        return eval_explicit(case)[0]
    if "klass" in case:
        return eval_ctor(case)[0]
    if "via" in case:
        return eval_range_type(case)[0]
    return eval_rule({k: v for k, v in case.items() if k != "method"})
