"""C02 - ND construction: each row counted once, in the cell that contains it.

Engine E1.  Every case is one call of physt.h / h2 / h3 on the real code; oracle = RefND on the
bins (and right-edge declarations) the histogram reports, which for explicit specifications must
be the requested ones.
"""
from __future__ import annotations

import itertools
import math
import re

import numpy as np

from mc import alphabet as A
from mc.core import Partial, V
from mc.outcome import call
from fractions import Fraction

from mc.refmodel import RefND, eq_exact

ID = "C02"
LEVEL = "exploration"
RULE = (
    "For d = 2..4 and per-axis bin specifications with different bin counts (regular, irregular, gapped, single bin; "
    "StaticBinning / NumpyBinning / FixedWidthBinning objects, edge arrays, method names with per-axis list arguments; "
    "right-inclusive or not): (a) the complete grid of rows = product of the per-axis edge alphabets (edges, both ulp "
    "neighbours, midpoints, far values) entered in fingerprint chunks of 25 rows with weights 2^i / 2^-(i+1) / none, "
    "(b) every ordered tuple of <= L rows over a thinner grid incl. NaN rows, (c) all entry forms (h rows, list of lists, "
    "h2 columns, h3 columns / rows) which must agree. A case is non-trivial when a row has a coordinate on or one ulp "
    "beside an edge, in a gap, outside the bins, or NaN."
)
ASSUMPTIONS = [
    "fingerprint weights (distinct powers of two) make cell membership readable exactly; chunks of 25 keep squares exact",
    "bins and includes_right_edge reported by the histogram define the cells for method-derived binnings",
    "data sets of at most 25 rows per construction; d <= 4",
]
BOUNDS = {
    "quick": "d=2: 13 spec pairs, full grid in chunks + ordered tuples L=2 over thin grid; d=3: 2 spec triples, full grid chunks + L=1",
    "thorough": "adds L=3 (d=2, thin grid), L=2 (d=3), d=4 chunks + L=1, seeded bin sets",
}
BUDGET = {"quick": 240, "thorough": 3000}

NAN = float("nan")

PAIRS = {
    "two": A.pairs_from_edges([0, 1, 2]),
    "three_irr": A.pairs_from_edges([0, 0.5, 2, 3]),
    "regular": A.pairs_from_edges([0, 1, 2, 3]),
    "gapped": [(0.0, 1.0), (2.0, 3.0)],
    "one": A.pairs_from_edges([-1, 1]),
    "neg": A.pairs_from_edges([-2, -1, 0.5]),
    # a gap far below the tolerance of is_consecutive(): still a gap
    "tinygap": [(0.0, 1.0), (1.0 + 2.0 ** -20, 2.0)],
    # fixed-width grid with an inexact width that does not start at grid index 0 (edges (5+i)*0.1: 0.7000000000000001 ...)
    "tenth": [((5 + i) * 0.1, (6 + i) * 0.1) for i in range(4)],
}

# name -> (pairs name, kind, right)
AXSPECS = {
    "S_two_r": ("two", "Static", True),
    "S_two_o": ("two", "Static", False),
    "S_three_o": ("three_irr", "Static", False),
    "S_three_r": ("three_irr", "Static", True),
    "N_two_r": ("two", "Numpy", True),
    "N_reg_o": ("regular", "Numpy", False),
    "S_gap_r": ("gapped", "Static", True),
    "S_gap_o": ("gapped", "Static", False),
    "S_one_o": ("one", "Static", False),
    "S_one_r": ("one", "Static", True),
    "arr_two": ("two", "array", True),
    "arr_neg": ("neg", "array", True),
    "pairs_gap": ("gapped", "pairs_array", True),
    "F_reg": ("regular", "FixedWidth", False),
    "S_tiny_r": ("tinygap", "Static", True),
    "S_tiny_o": ("tinygap", "Static", False),
    "F_tenth": ("tenth", "FixedWidth10", False),
}

CONFIGS2 = [
    ["S_two_r", "S_three_o"],
    ["S_three_o", "S_two_r"],
    ["S_gap_r", "N_two_r"],
    ["N_reg_o", "S_gap_o"],
    ["arr_two", "F_reg"],
    ["S_one_o", "S_three_r"],
    ["pairs_gap", "arr_neg"],
    # equal edges, different right-edge declarations (either order)
    ["S_two_r", "S_two_o"],
    ["S_two_o", "S_two_r"],
    ["S_tiny_r", "S_one_o"],
    ["N_two_r", "S_tiny_o"],
    ["F_tenth", "S_two_r"],
    ["S_one_o", "F_tenth"],
]
CONFIGS3 = [
    ["S_two_r", "S_one_o", "S_three_o"],
    ["S_gap_o", "N_two_r", "arr_neg"],
]
CONFIGS4 = [["S_two_r", "S_one_o", "S_three_o", "S_two_o"]]

METHOD_CASES = [
    # (bins argument, kwargs) with per-axis fan-out of list arguments
    {"bins": "fixed_width", "kw": {"bin_width": [1.0, 0.5]}},
    {"bins": [2, 3], "kw": {}},
    {"bins": [2, 3], "kw": {"range": [[0.0, 2.0], [0.0, 3.0]]}},
    {"bins": ["integer", 2], "kw": {}},
    {"bins": "fixed_width", "kw": {"bin_width": [0.5, 2.0], "align": [True, False]}},
]
METHOD_GRID = [[0.0, 0.5, 1.0, 2.0], [0.25, 1.5, 3.0]]


def exc_sig(e):
    msg = re.sub(r"[^A-Za-z ]+", "", str(e))[:40].strip()
    return f"{type(e).__name__}:{msg}"


def build_axis(name):
    from physt.binnings import FixedWidthBinning, NumpyBinning, StaticBinning

    pname, kind, right = AXSPECS[name]
    pairs = PAIRS[pname]
    edges = [pairs[0][0]] + [p[1] for p in pairs]
    if kind == "Static":
        return StaticBinning(np.array(pairs), includes_right_edge=right)
    if kind == "Numpy":
        return NumpyBinning(np.array(edges), includes_right_edge=right)
    if kind == "array":
        return np.array(edges)
    if kind == "pairs_array":
        return np.array(pairs)
    if kind == "FixedWidth10":
        return FixedWidthBinning(bin_width=0.1, bin_count=len(pairs), bin_times_min=5)
    if kind == "FixedWidth":
        w = pairs[0][1] - pairs[0][0]
        return FixedWidthBinning(bin_width=w, bin_count=len(pairs), bin_times_min=int(round(pairs[0][0] / w)))
    raise ValueError(kind)


def isnan(v):
    return isinstance(v, float) and math.isnan(v)


def row_class(row, axes_pairs):
    cl = [A.classify(x, ax) for x, ax in zip(row, axes_pairs)]
    return cl


def coarse(cl, rights):
    if "nan" in cl:
        return "nan"
    labs = set()
    for a, c in enumerate(cl):
        if c in ("under", "over", "gap"):
            labs.add("outside")
        elif c in ("under-ulp", "over-ulp", "ulp-gap"):
            labs.add("outside-ulp")
        elif c == "last-edge":
            labs.add("last-edge-closed" if rights[a] else "last-edge-open")
        elif c in ("first-edge", "inner-edge", "gap-right-edge"):
            labs.add("edge")
        elif c == "gap-left-edge":
            labs.add("gap-left-edge")
        elif c == "ulp-inside":
            labs.add("ulp-inside")
    return "+".join(sorted(labs)) or "inside"


def evaluate(case):
    from physt import h, h2, h3

    out = []
    rows = [tuple(A.unjf(x) for x in r) for r in case["rows"]]
    d = case["d"]
    wmode = case.get("wmode")
    form = case.get("form", "h_rows")
    n = len(rows)
    w = A.weights_for(wmode, n)
    kw = {}
    if w is not None:
        kw["weights"] = np.array(w, dtype=(np.int64 if wmode == "int" else np.float64))
    explicit = "axes" in case
    if explicit:
        bins = [build_axis(a) for a in case["axes"]]
        want_pairs = [PAIRS[AXSPECS[a][0]] for a in case["axes"]]
        want_right = [AXSPECS[a][2] for a in case["axes"]]
    else:
        bins = case["bins"]
        kw.update({k: (list(map(tuple, v)) if k == "range" else v) for k, v in case.get("kw", {}).items()})
    arr = np.array(rows, dtype=float).reshape(n, d)
    if form == "h_rows":
        res = call(h, arr, bins, **kw)
    elif form == "h_list":
        res = call(h, [list(r) for r in rows], bins, dim=d, **kw) if n else call(h, arr, bins, **kw)
    elif form == "h2_cols":
        res = call(h2, arr[:, 0].copy(), arr[:, 1].copy(), bins, **kw)
    elif form == "h2_lists":
        res = call(h2, [r[0] for r in rows], [r[1] for r in rows], bins, **kw)
    elif form == "h3_cols":
        res = call(h3, [arr[:, 0].copy(), arr[:, 1].copy(), arr[:, 2].copy()], bins, **kw)
    elif form == "h3_rows":
        res = call(h3, arr, bins, **kw)
    else:
        raise ValueError(form)
    sb = f"{d}D|{form}|w={wmode}|{'explicit' if explicit else 'method'}"
    if not res.ok:
        if explicit:
            empty = int(n == 0 or all(any(isnan(x) for x in r) for r in rows))
            out.append(V("must_succeed", f"must_succeed|{sb}|empty={empty}|{exc_sig(res.exc)}", case, "a histogram", res.describe()))
        return out, "raise:" + type(res.exc).__name__
    hh = res.value
    got_pairs = [[tuple(map(float, r)) for r in np.asarray(b).tolist()] for b in hh.bins]
    got_right = [bool(b.includes_right_edge) for b in hh.binnings]
    if explicit:
        if got_pairs != [[tuple(map(float, p)) for p in ax] for ax in want_pairs]:
            out.append(V("bins", f"bins|{sb}", case, want_pairs, got_pairs))
            return out, "ok"
        if got_right != want_right:
            out.append(V("right_edge_flag", f"right_flag|{sb}", case, want_right, got_right))
            return out, "ok"
    if hh.ndim != d:
        out.append(V("ndim", f"ndim|{sb}", case, d, hh.ndim))
        return out, "ok"
    ref = RefND(got_pairs, got_right)
    for i, r in enumerate(rows):
        ref.add(r, 1 if w is None else w[i])
    c, e2, missed = ref.dense()
    classes = sorted({coarse(row_class(r, got_pairs), got_right) for r in rows})
    csig = "&".join(classes) or "empty"
    shape = tuple(len(p) for p in got_pairs)
    if tuple(hh.frequencies.shape) != shape or tuple(hh.errors2.shape) != shape:
        out.append(V("shape", f"shape|{sb}", case, shape, [hh.frequencies.shape, hh.errors2.shape]))
        return out, "ok"
    freq = hh.frequencies.ravel().tolist()
    err = hh.errors2.ravel().tolist()
    if not all(eq_exact(o, e) for o, e in zip(freq, c)):
        out.append(V("contents", f"contents|{sb}|{csig}", case, [float(x) for x in c], freq))
    if not all(eq_exact(o, e) for o, e in zip(err, e2)):
        out.append(V("errors2", f"errors2|{sb}|{csig}", case, [float(x) for x in e2], err))
    if not eq_exact(hh.missed, missed):
        out.append(V("missed", f"missed|{sb}|{csig}", case, float(missed), hh.missed))
    elif not eq_exact(hh.total + hh.missed, ref.total_weight()):
        out.append(V("conservation", f"conservation|{sb}|{csig}", case, float(ref.total_weight()), hh.total + hh.missed))
    dt = np.dtype(hh.dtype)
    if dt != hh.frequencies.dtype or dt != hh.errors2.dtype:
        out.append(V("dtype_consistent", f"dtype_consistent|{sb}", case, str(dt), [str(hh.frequencies.dtype), str(hh.errors2.dtype)]))
    want_kind = "f" if wmode == "float" else "i"
    if dt.kind != want_kind and not (dt.kind in "iu" and want_kind == "i"):
        out.append(V("dtype_rule", f"dtype_rule|{sb}", case, want_kind, str(dt)))
    return out, "ok:" + csig


def replay(case):
    if case.get("kind") == "missed_weight":
        return evaluate_missed(case)
    if case.get("kind") == "forms":
        return evaluate_forms(case)
    return evaluate(case)[0]


MISSED_WEIGHTS = {"decimal": [0.1, 0.1, 0.1, 0.3, 0.7], "ratio": [1.0e16, 1.0, 3.0, 1.0e16, 0.5], "float32_ratio": [2.0 ** 24, 1.0, 2.0 ** 24, 1.0, 0.5]}
MISSED_POINTS = [0.5, 1.5, 2.5, 9.0, -4.0]  # per axis: three bins, above, below


def evaluate_missed(case):
    """Weights that are not powers of two / differ by 16 orders of magnitude: the missed weight is the weight of the rows outside
    the bins - exactly 0 when there is none, and never cancelled by a large weight inside."""
    from physt import h, h2
    from physt.histogram_nd import Histogram2D, HistogramND

    d, wmode, form = case["d"], case["wmode"], case["form"]
    rows = [[MISSED_POINTS[i] for i in r] for r in case["rows"]]
    n = len(rows)
    wl = MISSED_WEIGHTS[wmode][:n]
    w = np.array(wl, dtype=np.float32 if wmode.startswith("float32") else np.float64)
    arr = np.array(rows, dtype=float).reshape(n, d)
    edges = [np.array([0.0, 1.0, 2.0, 3.0]) for _ in range(d)]

    def build():
        if form == "h_rows":
            return h(arr, edges, weights=w)
        if form == "h2_cols":
            return h2(arr[:, 0].copy(), arr[:, 1].copy(), edges, weights=w)
        hh = (Histogram2D if d == 2 else HistogramND)(edges, dtype=np.float64)
        hh.fill_n(arr, w)
        return hh

    res = call(build)
    sig = f"missed_weight|{wmode}|{form}"
    if not res.ok:
        return [V("must_succeed", f"{sig}|{exc_sig(res.exc)}", case, "a histogram", res.describe())]
    hh = res.value
    outside = [float(x) for r, x in zip(rows, w.tolist()) if any(not (0.0 <= v <= 3.0) for v in r)]
    want = float(sum(Fraction(x) for x in outside)) if outside else 0.0
    got = float(hh.missed)
    out = []
    if not outside:
        if got != 0.0:
            out.append(V("missed", f"{sig}|residue_without_outside_rows", case, 0.0, got))
    elif not (abs(got - want) <= 1e-9 * want):
        out.append(V("missed", f"{sig}|outside_weight_cancelled", case, want, got))
    inside = float(sum(Fraction(float(x)) for r, x in zip(rows, w.tolist()) if all(0.0 <= v <= 3.0 for v in r)))
    if not (abs(float(hh.total) - inside) <= 1e-9 * max(inside, 1e-300)):
        out.append(V("cell_content", f"{sig}|total", case, inside, float(hh.total)))
    return out


def evaluate_forms(case):
    """All entry forms must give the same histogram (differential, no expected value)."""
    from mc.snapshot import snap, diff

    out = []
    d = case["d"]
    forms = ["h_rows", "h_list", "h2_cols", "h2_lists"] if d == 2 else (["h_rows", "h3_cols", "h3_rows"] if d == 3 else ["h_rows", "h_list"])
    snaps = {}
    for f in forms:
        c = dict(case)
        c.pop("kind")
        c["form"] = f
        vs, label = evaluate(c)
        out.extend(vs)
    return out


# ---------------------------------------------------------------------------------------------


def grid_rows(axes_pairs, thin, nan_rows=True):
    per = []
    for ax in axes_pairs:
        per.append(A.edge_alphabet(ax, nan=False, ulp=not thin, far=True, mid=True))
    rows = list(itertools.product(*per))
    if nan_rows:
        inside = [(ax[0][0] + ax[0][1]) / 2 for ax in axes_pairs]
        for a in range(len(axes_pairs)):
            r = list(inside)
            r[a] = NAN
            rows.append(tuple(r))
        rows.append(tuple([NAN] * len(axes_pairs)))
    return rows


def units(tier, seed):
    thorough = tier == "thorough"
    us = []
    for cfg in CONFIGS2:
        for wmode in (None, "int", "float"):
            us.append({"kind": "chunks", "axes": cfg, "d": 2, "wmode": wmode, "forms": ["h_rows", "h2_cols"]})
        for wmode in (None, "int", "float"):
            us.append({"kind": "tuples", "axes": cfg, "d": 2, "wmode": wmode, "L": 3 if thorough and cfg == CONFIGS2[0] else 2})
    for cfg in CONFIGS3:
        for wmode in (None, "int", "float"):
            us.append({"kind": "chunks", "axes": cfg, "d": 3, "wmode": wmode, "forms": ["h_rows", "h3_cols", "h3_rows"]})
            us.append({"kind": "tuples", "axes": cfg, "d": 3, "wmode": wmode, "L": 2 if thorough else 1})
    if thorough:
        for cfg in CONFIGS4:
            for wmode in (None, "int", "float"):
                us.append({"kind": "chunks", "axes": cfg, "d": 4, "wmode": wmode, "forms": ["h_rows"]})
                us.append({"kind": "tuples", "axes": cfg, "d": 4, "wmode": wmode, "L": 1})
    us.append({"kind": "missed_weight"})
    for i, m in enumerate(METHOD_CASES):
        us.append({"kind": "method", "index": i})
    us.append({"kind": "forms"})
    return us


def run_unit(unit, ctx):
    p = Partial()
    kind = unit["kind"]
    if kind == "missed_weight":
        case = None
        alph = {2: [(0, 0), (1, 1), (2, 0), (3, 1), (1, 4), (0, 2)], 3: [(0, 0, 0), (1, 1, 1), (2, 2, 0), (0, 1, 3), (4, 1, 1), (3, 3, 3)]}
        for d in (2, 3):
            for n in (1, 2, 3, 4):
                for rows in itertools.product(alph[d], repeat=n):
                    if n == 4 and (len(set(rows)) < 4 or list(rows) != sorted(rows)):
                        continue
                    for wmode in MISSED_WEIGHTS:
                        for form in (("h_rows", "h2_cols", "class_fill_n") if d == 2 else ("h_rows", "class_fill_n")):
                            case = {"kind": "missed_weight", "d": d, "rows": [list(r) for r in rows], "wmode": wmode, "form": form}
                            vs = evaluate_missed(case)
                            p.ev(True)
                            p.outcome("missed_weight:" + wmode)
                            p.extend(vs)
        p.sample(case)
        return p
    if kind in ("chunks", "tuples"):
        axes = unit["axes"]
        d = unit["d"]
        ap = [PAIRS[AXSPECS[a][0]] for a in axes]
        rights = [AXSPECS[a][2] for a in axes]
    if kind == "chunks":
        rows = grid_rows(ap, thin=(d >= 4))
        # rotate so that chunk boundaries differ between seeds
        k = ctx.seed % 25
        rows = rows[k:] + rows[:k]
        for form in unit["forms"]:
            for s in range(0, len(rows), 25):
                if ctx.expired():
                    p.capped = True
                    p.notes.append(f"chunks {axes}: stopped at row {s}")
                    return p
                chunk = rows[s:s + 25]
                case = {"axes": axes, "d": d, "form": form, "wmode": unit["wmode"], "rows": [[A.jf(x) for x in r] for r in chunk]}
                vs, label = evaluate(case)
                nt = sum(1 for r in chunk if coarse(row_class(r, ap), rights) != "inside")
                p.ev(nt > 0)
                p.count("rows_placed", len(chunk))
                p.count("rows_nontrivial", nt)
                p.outcome(label[:60])
                p.extend(vs)
                if s == 25:
                    p.sample(case)
    elif kind == "tuples":
        rows = grid_rows(ap, thin=True)
        if d >= 3:
            # thin further: one axis varies at a time + corner combinations
            inside = [(ax[0][0] + ax[0][1]) / 2 for ax in ap]
            sel = []
            for a, ax in enumerate(ap):
                for v in A.edge_alphabet(ax, ulp=False):
                    r = list(inside)
                    r[a] = v
                    sel.append(tuple(r))
            sel.append(tuple(ax[-1][1] for ax in ap))
            sel.append(tuple(ax[0][0] for ax in ap))
            sel += [r for r in rows if any(isnan(x) for x in r)]
            rows = list(dict.fromkeys(sel))
        for k, data in enumerate(A.tuples_upto(rows, unit["L"])):
            if (k & 255) == 0 and ctx.expired():
                p.capped = True
                p.notes.append(f"tuples {axes}: stopped after {k}")
                break
            case = {"axes": axes, "d": d, "form": "h_rows", "wmode": unit["wmode"], "rows": [[A.jf(x) for x in r] for r in data]}
            vs, label = evaluate(case)
            p.ev(any(coarse(row_class(r, ap), rights) != "inside" for r in data))
            p.outcome(label[:60])
            p.extend(vs)
            if k == 40:
                p.sample(case)
    elif kind == "method":
        m = METHOD_CASES[unit["index"]]
        pts = list(itertools.product(*METHOD_GRID))
        for n in (2, 3):
            for data in itertools.product(pts, repeat=n):
                for wmode in (None, "float"):
                    case = {"bins": m["bins"], "kw": m["kw"], "d": 2, "form": "h_rows", "wmode": wmode, "rows": [list(r) for r in data]}
                    vs, label = evaluate(case)
                    p.ev(True)
                    p.outcome(label[:60])
                    p.extend(vs)
        p.sample(case)
    elif kind == "forms":
        for cfg, d in [(c, 2) for c in CONFIGS2[:3]] + [(c, 3) for c in CONFIGS3[:1]]:
            ap = [PAIRS[AXSPECS[a][0]] for a in cfg]
            rows = grid_rows(ap, thin=True)
            for s in range(0, len(rows), 7):
                for wmode in (None, "float"):
                    case = {"kind": "forms", "axes": cfg, "d": d, "wmode": wmode, "rows": [[A.jf(x) for x in r] for r in rows[s:s + 7]]}
                    vs = evaluate_forms(case)
                    p.ev(True)
                    p.extend(vs)
        p.sample(case)
    return p
