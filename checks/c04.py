"""C04 - adaptive fixed-width histograms never lose a value when bins grow.

Engine E2: BFS over fill / fill_n histories (state = multiset of entries) on adaptive fixed-width
histograms; plus E1 over data tuples for the non-adaptive fixed_width / pretty / integer binnings.
"""
from __future__ import annotations

import itertools
import math
import re

import numpy as np

from mc import alphabet as A
from mc import histories as H
from mc.core import Partial, V
from mc.outcome import call
from mc.refmodel import Ref1D, RefND, eq_exact, frac
from mc.snapshot import diff, fl, snap

ID = "C04"
LEVEL = "model_checking"
RULE = (
    "Explicit-state BFS over fill(v[,w]) / fill_n(batch) histories on adaptive fixed-width histograms: widths "
    "{1, 10, 0.25, 0.1, 0.2, 0.3, 0.7, 1/3, 2.5, 1e-7} x {shift 0, bin_shift=w/2, align=False, 'integer'} x start "
    "{empty, pre-sized, pre-filled} x dims 1..3; values k*w, the decimal literal nearest k*w, both ulp neighbours, (k+1/2)w "
    "for k in -K..K and +-40w; state = multiset of entries. Oracles per transition: contents == reference model over the "
    "reported bins, total == weight entered, underflow/overflow/missed == 0, edges == (k0+i)*w+shift bit-exactly, first/last "
    "bin needed, equality with a fixed-bin histogram, confluence over orders. Non-trivial: a value on/one ulp beside a grid "
    "point, a decimal literal of an inexact multiple, a far value, an empty or NaN batch. Plus E1: fixed_width / pretty / "
    "integer binnings derived from data tuples must cover every member."
)
ASSUMPTIONS = [
    "the grid is defined by the double expression (k*w + shift) the library itself uses for its edges",
    "a value exactly on the last edge may either extend the bins or sit in the (right-closed) last bin",
    "weights are dyadic; multisets of at most N entries",
]
BOUNDS = {
    "quick": "1D: multisets<=2, K=3 (+ rounding-sensitive grid points), 10 widths x 4 modes x 3 starts; 2D: multisets<=2 (K=2); 3D: multisets<=1; derived binnings: tuples<=3",
    "thorough": "1D: multisets<=3 (K=6 for <=2, K=2 for 3), 2D multisets<=2 (K=4), 3D multisets<=2",
}
BUDGET = {"quick": 240, "thorough": 3000}

NAN = float("nan")
WIDTHS = [1.0, 10.0, 0.25, 0.1, 0.2, 0.3, 0.7, 1.0 / 3.0, 2.5, 1e-7]


def exc_sig(e):
    msg = re.sub(r"[^A-Za-z ]+", "", str(e))[:40].strip()
    return f"{type(e).__name__}:{msg}"


def isnan(v):
    return isinstance(v, float) and math.isnan(v)


def value_alphabet(w, K, shift=0.0):
    vals = []
    for k in range(-K, K + 1):
        g = k * w + shift
        lit = float(f"{g:.10g}")
        for v in (g, lit, A.nxt(g, False), A.nxt(g, True), (k + 0.5) * w + shift):
            if v not in vals:
                vals.append(v)
    for v in (-40 * w, 40 * w):
        if v not in vals:
            vals.append(v)
    # rounding-sensitive grid points: exact multiples k*w (+shift) whose quotient (v - shift) / w does NOT
    # floor to k (e.g. 4.3 with width 0.1 -> 42.99999999999999); found by scanning, at most 4 per sign
    for sign in (1, -1):
        found = 0
        for k in range(7, 400):
            g = sign * k * w + shift
            if math.floor((g - shift) / w) != sign * k and g not in vals:
                vals.append(g)
                found += 1
                if found >= 4:
                    break
    return vals


def vclass(v, w, shift):
    if isnan(v):
        return "nan"
    q = (v - shift) / w
    k = round(q)
    g = k * w + shift
    if abs(q) > 20:
        return "far"
    if v == g:
        return "grid-point"
    if v in (A.nxt(g, False), A.nxt(g, True)):
        return "grid-ulp"
    if abs(v - g) < 1e-9 * w:
        return "grid-literal"
    return "interior"


class AdaptiveSystem(H.System):
    def __init__(self, cfg):
        self.cfg = cfg
        self.dim = cfg["dim"]
        self.widths = cfg["widths"]
        self.mode = cfg["mode"]
        self.start = cfg["start"]
        self.N = cfg["N"]
        self.K = cfg["K"]
        self.shifts = []
        for w in self.widths:
            if self.mode == "half":
                self.shifts.append(w / 2)
            elif self.mode == "integer":
                self.shifts.append(0.5)
            elif self.mode == "noalign":
                self.shifts.append(None)
            else:
                self.shifts.append(0.0)
        per_axis = [value_alphabet(w, self.K, s or 0.0) for w, s in zip(self.widths, self.shifts)]
        if self.dim == 1:
            self.values = per_axis[0]
        else:
            mids = [0.5 * w + (s or 0.0) for w, s in zip(self.widths, self.shifts)]
            rows = []
            for a in range(self.dim):
                for v in per_axis[a]:
                    r = list(mids)
                    r[a] = v
                    rows.append(tuple(r))
            n = min(len(p) for p in per_axis)
            for i in range(0, n, 3):
                rows.append(tuple(p[i] for p in per_axis))
            self.values = list(dict.fromkeys(rows))
        self.weights = cfg.get("weights", [None])
        self._ops = {}

    # -- construction -----------------------------------------------------------------------
    def binning_kwargs(self, a):
        w = self.widths[a]
        kw = {"bin_width": w}
        if self.mode == "half":
            kw["bin_shift"] = w / 2
        elif self.mode == "noalign":
            kw["align"] = False
        return kw

    def init(self):
        from physt import h, h1, h2
        from physt.binnings import FixedWidthBinning
        from physt.types import Histogram1D, Histogram2D, HistogramND

        entries = ()
        if self.start == "presized":
            bs = []
            for a, w in enumerate(self.widths):
                kw = self.binning_kwargs(a)
                kw.pop("align", None)
                bs.append(FixedWidthBinning(bin_count=3, bin_times_min=0, adaptive=True, **kw))
            if self.dim == 1:
                obj = Histogram1D(bs[0])
            elif self.dim == 2:
                obj = Histogram2D(bs)
            else:
                obj = HistogramND(bs, dimension=self.dim)
        elif self.start == "prefilled":
            if self.dim == 1:
                w = self.widths[0]
                data = [1.5 * w, 3.25 * w]
                if self.mode == "integer":
                    obj = h1(np.array(data), "integer", adaptive=True)
                else:
                    obj = h1(np.array(data), "fixed_width", adaptive=True, **self.binning_kwargs(0))
                entries = tuple(sorted(((v, 1) for v in data), key=repr))
            else:
                data = [tuple(1.5 * w for w in self.widths), tuple(3.25 * w for w in self.widths)]
                kw = {"bin_width": list(self.widths)}
                if self.mode == "half":
                    kw["bin_shift"] = [w / 2 for w in self.widths]
                obj = h(np.array(data), "fixed_width", adaptive=True, **kw)
                entries = tuple(sorted(((v, 1) for v in data), key=repr))
        else:
            if self.dim == 1:
                if self.mode == "integer":
                    obj = h1(None, "integer", adaptive=True)
                else:
                    obj = h1(None, "fixed_width", adaptive=True, **self.binning_kwargs(0))
            else:
                kw = {"bin_width": list(self.widths)}
                if self.mode == "half":
                    kw["bin_shift"] = [w / 2 for w in self.widths]
                if self.mode == "noalign":
                    kw["align"] = False
                if self.dim == 2:
                    obj = h2(None, None, "fixed_width", adaptive=True, **kw)
                else:
                    obj = h(None, "fixed_width", dim=self.dim, adaptive=True, **kw)
        self.initial_edges = [np.asarray(b.numpy_bins).tolist() if b.bin_count else [] for b in obj.binnings]
        # with align=False the grid origin is fixed by the first value(s) entered: part of the state
        origin = None
        if self.mode == "noalign" and entries:
            origin = "prefilled"
        return (entries, origin), obj

    def key(self, model):
        return model

    def ops(self, model):
        model = model[0]
        room = self.N - len(model) + (2 if self.start == "prefilled" else 0)
        empty_state = len(model) == (2 if self.start == "prefilled" else 0)
        k = (room, empty_state)
        if k not in self._ops:
            ops = []
            if room >= 1:
                for v in self.values:
                    for w in self.weights:
                        ops.append(("fill", v, w))
                for v in self.values:
                    ops.append(("fill_n", (v,), None))
            ops.append(("fill_n", (), None))
            nanv = NAN if self.dim == 1 else tuple([NAN] + [0.0] * (self.dim - 1))
            ops.append(("fill_n", (nanv,), None))
            if room >= 1:
                ops.append(("fill_n", (nanv, self.values[3]), None))
                ops.append(("fill_n", (self.values[3], nanv), (0.5, 0.25)))
            if room >= 2 and (empty_state or self.cfg.get("all_batches")):
                for a, b in itertools.product(self.values, repeat=2):
                    ops.append(("fill_n", (a, b), None))
                for a, b in itertools.product(self.values[::3], repeat=2):
                    ops.append(("fill_n", (a, b), (0.5, 0.25)))
            self._ops[k] = ops
        return self._ops[k]

    # -- oracle -----------------------------------------------------------------------------
    def sigbase(self):
        return f"{self.dim}D|mode={self.mode}|start={self.start}"

    def wsig(self):
        return "w=" + "/".join(f"{w:.4g}" for w in self.widths)

    def describe(self, hist, op):
        return {"config": self.cfg, "history": H.listify(jf(hist)), "op": H.listify(jf(op))}

    def confluence_signature(self, model, s_old, s_new):
        from mc.snapshot import diff

        return f"confluence|{self.sigbase()}|fields={'+'.join(sorted(diff(s_old, s_new)))}"

    def snap(self, obj):
        return snap(obj, meta=False, stats=False)

    def nontrivial(self, model, op, model2):
        vals = [op[1]] if op[0] == "fill" else list(op[1])
        if op[0] == "fill_n" and len(vals) != 1:
            return True
        for v in vals:
            row = (v,) if self.dim == 1 else v
            for a, x in enumerate(row):
                if vclass(x, self.widths[a], self.shifts[a] or 0.0) != "interior":
                    return True
        return False

    def opclass(self, op):
        vals = [op[1]] if op[0] == "fill" else list(op[1])
        cl = set()
        for v in vals:
            row = (v,) if self.dim == 1 else v
            for a, x in enumerate(row):
                cl.add(vclass(x, self.widths[a], self.shifts[a] or 0.0))
        return "+".join(sorted(cl)) or "empty"

    def check(self, obj, entries):
        """All state oracles; returns list of (oracle, field-signature, expected, observed)."""
        probs = []
        nb = [np.asarray(b.numpy_bins).tolist() if b.bin_count else [] for b in obj.binnings]
        # grid
        for a, edges in enumerate(nb):
            w, s = self.widths[a], self.shifts[a]
            if len(edges) < 2:
                continue
            if s is not None:
                k0 = round((edges[0] - s) / w)
                want = [(k0 + i) * w + s for i in range(len(edges))]
                if edges != want:
                    probs.append(("grid", f"grid|axis{a}", want, edges))
            else:
                for i in range(len(edges) - 1):
                    if abs((edges[i + 1] - edges[i]) / w - 1) > 1e-9:
                        probs.append(("grid", f"grid_noalign|axis{a}", "equal widths", edges))
                        break
        if probs:
            return probs
        pairs = [[(e[i], e[i + 1]) for i in range(len(e) - 1)] for e in nb]
        if any(len(p) == 0 for p in pairs):
            if entries:
                probs.append(("nothing_lost", "no_bins_but_entries", "bins covering the entries", nb))
            return probs
        wsum = sum(frac(w) for _, w in entries)
        if self.dim == 1:
            ref = Ref1D(pairs[0])
            for v, w in entries:
                ref.add(v, w)
            c, e2, under, over, gap = ref.contents()
            if under or over:
                probs.append(("covered", "value_outside_bins", "every entry inside a bin",
                              {"edges": nb[0], "outside_weight": [float(under), float(over)]}))
            freq = obj.frequencies.tolist()
            err = obj.errors2.tolist()
            if len(freq) != len(c) or not all(eq_exact(o, e) for o, e in zip(freq, c)):
                probs.append(("contents", "contents", [float(x) for x in c], freq))
            elif not all(eq_exact(o, e) for o, e in zip(err, e2)):
                probs.append(("errors2", "errors2", [float(x) for x in e2], err))
            if not (eq_exact(obj.underflow, 0) and eq_exact(obj.overflow, 0)):
                probs.append(("missed_zero", "underoverflow_nonzero", [0, 0], [fl(obj.underflow), fl(obj.overflow)]))
            if not eq_exact(obj.total, wsum):
                probs.append(("total", "total", float(wsum), obj.total))
            marg = [freq]
        else:
            ref = RefND(pairs, [True] * self.dim)  # closedness of the last edge is left open (see ASSUMPTIONS)
            for v, w in entries:
                ref.add(v, w)
            c, e2, missed = ref.dense()
            if missed:
                probs.append(("covered", "value_outside_bins", "every entry inside a cell", {"edges": nb, "outside_weight": float(missed)}))
            freq = obj.frequencies.ravel().tolist()
            shape = tuple(len(p) for p in pairs)
            if tuple(obj.frequencies.shape) != shape:
                probs.append(("shape", "shape", shape, obj.frequencies.shape))
                return probs
            # an entry exactly on an edge may be in either neighbouring cell: compare only when no entry is on an edge
            on_edge = any(x in nb[a] for v, _ in entries for a, x in enumerate(v))
            if not on_edge:
                if not all(eq_exact(o, e) for o, e in zip(freq, c)):
                    probs.append(("contents", "contents", [float(x) for x in c], freq))
                elif not all(eq_exact(o, e) for o, e in zip(obj.errors2.ravel().tolist(), e2)):
                    probs.append(("errors2", "errors2", [float(x) for x in e2], obj.errors2.ravel().tolist()))
            if not eq_exact(obj.missed, 0):
                probs.append(("missed_zero", "missed_nonzero", 0, fl(obj.missed)))
            if not eq_exact(obj.total, wsum):
                probs.append(("total", "total", float(wsum), obj.total))
            f = np.asarray(obj.frequencies)
            marg = [f.sum(axis=tuple(i for i in range(self.dim) if i != a)).tolist() for a in range(self.dim)]
        # span: first / last bin must be needed (non-empty) or belong to the initial span
        if entries and not probs:
            for a in range(self.dim):
                init = self.initial_edges[a]
                m = marg[a]
                if m[0] == 0 and not (init and nb[a][0] >= init[0]):
                    probs.append(("span", f"superfluous_first_bin|axis{a}", "first bin needed", {"edges": nb[a], "marginal": m}))
                if m[-1] == 0 and not (init and nb[a][-1] <= init[-1]):
                    probs.append(("span", f"superfluous_last_bin|axis{a}", "last bin needed", {"edges": nb[a], "marginal": m}))
                if init and (nb[a][0] > init[0] or nb[a][-1] < init[-1]):
                    probs.append(("span", f"initial_span_lost|axis{a}", init, nb[a]))
        return probs

    def step(self, model, obj, op, hist):
        kind = op[0]
        sb = self.sigbase()
        cl = self.opclass(op)

        def mk(oracle, sig, expected, observed):
            return V(oracle, sig, self.describe(hist, op), expected, observed)

        if kind == "fill":
            v, w = op[1], op[2]
            arg = v if self.dim == 1 else np.array(v)
            res = call(obj.fill, arg) if w is None else call(obj.fill, arg, w)
            add = () if isnan_row(v) else ((v, 1 if w is None else w),)
            opsig = "fill"
        else:
            vals, ws = op[1], op[2]
            if self.dim == 1:
                arr = np.array(vals, dtype=float)
            else:
                arr = np.array(vals, dtype=float).reshape(len(vals), self.dim)
            res = call(obj.fill_n, arr) if ws is None else call(obj.fill_n, arr, np.array(ws))
            add = tuple((v, 1 if ws is None else ws[i]) for i, v in enumerate(vals) if not isnan_row(v))
            opsig = f"fill_n{len(vals)}" + ("_nan" if any(isnan_row(v) for v in vals) else "")
        entries, origin = model
        if self.mode == "noalign" and origin is None and add:
            firsts = [v for v, _ in add]
            origin = repr(min(firsts)) if self.dim == 1 else repr(tuple(min(v[a] for v in firsts) for a in range(self.dim)))
        model2 = (tuple(sorted(entries + add, key=repr)), origin)
        if not res.ok:
            return None, [mk("must_succeed", f"must_succeed|{sb}|{opsig}|{exc_sig(res.exc)}", "accepted", res.describe())], False
        vs = []
        for oracle, fsig, e, o in self.check(obj, model2[0]):
            vs.append(mk(oracle, f"{oracle}|{sb}|{opsig}|{cl}|{fsig}", e, o))
        if kind == "fill" and not vs and not isnan_row(op[1]):
            got = res.value
            ok = True
            if self.dim == 1:
                n = obj.bin_count
                ok = isinstance(got, (int, np.integer)) and 0 <= got < n
                if ok:
                    l, r = np.asarray(obj.bins)[got].tolist()
                    ok = l <= op[1] <= r
            else:
                ok = got is not None and len(got) == self.dim
            if not ok:
                vs.append(mk("fill_return", f"fill_return|{sb}|{cl}", "index of a bin containing the value", got))
        return model2, vs, model2 == model


def isnan_row(v):
    if isinstance(v, (tuple, list)):
        return any(isnan_row(x) for x in v)
    return isnan(v)


def jf(x):
    if isinstance(x, (tuple, list)):
        return [jf(i) for i in x]
    return A.jf(x)


def unjf(x):
    if isinstance(x, (tuple, list)):
        return tuple(unjf(i) for i in x)
    return A.unjf(x)


def fixed_equivalence(sys_):
    """on_new_state: the adaptive histogram equals a fixed-bin histogram of the same data over its final edges."""
    from physt import h1

    def hook(model, obj, hist):
        model = model[0]
        if sys_.dim != 1 or not model or obj.bin_count == 0:
            return []
        vals = np.array([v for v, _ in model], dtype=float)
        ws = np.array([float(w) for _, w in model])
        edges = np.asarray(obj.numpy_bins)
        res = call(h1, vals, edges, weights=ws)
        if not res.ok:
            return [V("fixed_equivalence", f"fixed_raises|{sys_.sigbase()}|{exc_sig(res.exc)}",
                      {"config": sys_.cfg, "history": H.listify(jf(hist)), "op": ["fixed_equivalence"]}, "a histogram", res.describe())]
        hf = res.value
        if hf.frequencies.tolist() != [float(x) for x in obj.frequencies.tolist()] or float(hf.underflow) != 0 or float(hf.overflow) != 0:
            return [V("fixed_equivalence", f"fixed_differs|{sys_.sigbase()}",
                      {"config": sys_.cfg, "history": H.listify(jf(hist)), "op": ["fixed_equivalence"]},
                      {"frequencies": hf.frequencies.tolist(), "under": fl(hf.underflow), "over": fl(hf.overflow)},
                      {"frequencies": obj.frequencies.tolist()})]
        return []

    return hook


# ---------------------------------------------------------------------------------------------
# E1: non-adaptive fixed_width / pretty / integer binnings derived from data cover the data
# ---------------------------------------------------------------------------------------------

DERIVED = [
    ["fixed_width", {"bin_width": w}] for w in WIDTHS
] + [["fixed_width", {"bin_width": 0.1, "bin_shift": 0.05}], ["fixed_width", {"bin_width": 0.3, "align": False}],
     ["integer", {}], ["integer", {"bin_width": 2}], ["pretty", {}], ["pretty", {"bin_count": 3}], ["pretty", {"bin_count": 7}]]


def derived_eval(case):
    from physt import h1

    data = case["data"]
    method, kw = case["method"]
    res = call(h1, np.array(data, dtype=float), method, **kw)
    if not res.ok:
        return [], "raise:" + type(res.exc).__name__
    hh = res.value
    out = []
    sb = f"derived|{method}|{'+'.join(sorted(kw)) or 'plain'}"
    if float(hh.underflow) != 0 or float(hh.overflow) != 0 or hh.total != len(data):
        out.append(V("derived_covers", f"{sb}|not_covered", case, {"total": len(data), "under": 0, "over": 0},
                     {"total": hh.total, "under": fl(hh.underflow), "over": fl(hh.overflow), "edges": np.asarray(hh.numpy_bins).tolist()}))
    else:
        f = hh.frequencies.tolist()
        if f and (f[0] == 0 or f[-1] == 0):
            out.append(V("derived_span", f"{sb}|superfluous_edge_bin", case, "first and last bin non-empty",
                         {"frequencies": f, "edges": np.asarray(hh.numpy_bins).tolist()}))
    return out, "ok"


# values given in narrow float types (the grid index is a quotient: it must be taken of the number, not in the type), and
# adaptivity switched on afterwards
NARROW_VALUES = {"float32": [100000.5, 0.1, -2500.25, 16777216.0, 3.4e5], "float16": [0.5, 2048.0, -100.25, 0.0999755859375]}


def eval_narrow_value(case):
    from physt import h1, h2

    vt, width, dim, path = case["vtype"], case["width"], case["dim"], case["path"]
    dt = np.dtype(vt)
    vals = [dt.type(NARROW_VALUES[vt][case["k"]])] * case["n"]  # one value (n times): one bin, whatever the width
    exact = [float(v) for v in vals]
    out = []
    sig = f"narrow_value|{vt}|{path}|{dim}D"

    def build():
        if dim == 1:
            h = h1(None, "fixed_width", bin_width=width, adaptive=True)
            if path == "fill":
                for v in vals:
                    h.fill(v)
            elif path == "fill_n":
                h.fill_n(np.array(vals, dtype=dt))
            else:
                h = h1(np.array(vals, dtype=dt), "fixed_width", bin_width=width, adaptive=True)
            return h
        h = h2(None, None, "fixed_width", bin_width=[width, 1.0], adaptive=True)
        rows = np.array([[v, dt.type(1.0)] for v in vals], dtype=dt)
        if path == "fill":
            for r in rows:
                h.fill(r)
        elif path == "fill_n":
            h.fill_n(rows)
        else:
            h = h2(rows[:, 0], rows[:, 1], "fixed_width", bin_width=[width, 1.0], adaptive=True)
        return h

    res = call(build)
    if not res.ok:
        return [V("must_succeed", f"{sig}|{type(res.exc).__name__}", case, "an adaptive histogram holding the values", res.describe())]
    h = res.value
    missed = float(h.underflow + h.overflow) if dim == 1 else float(h.missed)
    if float(h.total) != len(vals) or missed != 0:
        out.append(V("nothing_lost", f"{sig}|lost", case, {"total": len(vals), "missed": 0}, {"total": float(h.total), "missed": missed}))
        return out
    b0 = np.asarray(h.binnings[0].bins)
    f = np.asarray(h.frequencies)
    f0 = f if dim == 1 else f.sum(axis=1)
    for x in exact:
        idx = [i for i in range(len(b0)) if b0[i][0] <= x < b0[i][1]]
        if len(idx) != 1 or f0[idx[0]] < 1:
            out.append(V("value_in_bin", f"{sig}|value_outside_its_bin", case, x, {"bins_around": b0[max(0, (idx or [0])[0] - 1):(idx or [0])[0] + 2].tolist()}))
            break
    return out


def eval_adaptive_switch(case):
    """adaptive = True on a binning that includes its right edge: refused (as the constructor does) - or else every value stays in the bin it was counted in."""
    from physt import h1

    h = h1(np.array([0.5, 2.0]), "fixed_width", bin_width=1.0, includes_right_edge=True)
    before = snap(h)
    how = case["how"]
    res = call(lambda: setattr(h, "adaptive", True) if how == "property" else h.set_adaptive(True))
    if not res.ok:
        if snap(h) != before:
            return [V("refused_unchanged", f"adaptive_switch|{how}|refused_but_changed", case, "unchanged", diff(before, snap(h)))]
        return []
    r2 = call(h.fill, 3.5)
    f = np.asarray(h.frequencies).tolist()
    bins = np.asarray(h.bins).tolist()
    ok = True
    for v in (0.5, 2.0, 3.5):
        idx = [i for i, (a, b) in enumerate(bins) if a <= v < b or (i == len(bins) - 1 and v == b)]
        if len(idx) != 1 or f[idx[0]] < 1:
            ok = False
    if not r2.ok or not ok:
        return [V("contents_attached", f"adaptive_switch|{how}|value_left_its_bin", case, "refused, or 2.0 still in a bin that contains it", {"bins": bins, "frequencies": f})]
    return []


def units(tier, seed):
    thorough = tier == "thorough"
    us = []
    K1 = 6 if thorough else 3
    for w in WIDTHS:
        for mode in ("shift0", "half", "noalign"):
            for start in ("empty", "presized", "prefilled"):
                if mode == "noalign" and start == "presized":
                    continue
                us.append({"kind": "bfs", "config": {"dim": 1, "widths": [w], "mode": mode, "start": start, "N": 2, "K": K1,
                                                     "weights": [None, 0.5] if start == "empty" else [None]}})
        if thorough:
            us.append({"kind": "bfs", "config": {"dim": 1, "widths": [w], "mode": "shift0", "start": "empty", "N": 3, "K": 2,
                                                 "weights": [None], "all_batches": False}})
    for start in ("empty", "prefilled"):
        us.append({"kind": "bfs", "config": {"dim": 1, "widths": [1.0], "mode": "integer", "start": start, "N": 2, "K": K1, "weights": [None]}})
    K2 = 4 if thorough else 2
    for ws in ([1.0, 0.1], [0.3, 10.0], [0.7, 1.0 / 3.0]):
        for mode in ("shift0", "half"):
            for start in ("empty", "presized", "prefilled"):
                us.append({"kind": "bfs", "config": {"dim": 2, "widths": ws, "mode": mode, "start": start, "N": 2, "K": K2, "weights": [None]}})
    us.append({"kind": "bfs", "config": {"dim": 3, "widths": [0.1, 1.0, 0.3], "mode": "shift0", "start": "empty", "N": 2 if thorough else 1, "K": 2, "weights": [None]}})
    us.append({"kind": "bfs", "config": {"dim": 3, "widths": [0.2, 2.5, 0.7], "mode": "shift0", "start": "presized", "N": 2 if thorough else 1, "K": 2, "weights": [None]}})
    for i in range(len(DERIVED)):
        us.append({"kind": "derived", "index": i, "L": 3})
    us.append({"kind": "narrow_values"})
    return us


def run_unit(unit, ctx):
    p = Partial()
    if unit["kind"] == "bfs":
        sys_ = AdaptiveSystem(unit["config"])
        seen = H.bfs(sys_, p, ctx, on_new_state=fixed_equivalence(sys_))
        H.dfs_validate(sys_, p, seen, 2, ctx, op_filter=lambda op: op[0] == "fill" and op[2] is None)
        p.outcome(sys_.sigbase())
        last = next(iter(reversed(list(seen.values()))))
        p.sample({"config": unit["config"], "a_state_history": H.listify(jf(last[3]))})
    elif unit["kind"] == "narrow_values":
        case = None
        for vt in NARROW_VALUES:
            for width in (0.001, 0.1, 1.0, 0.3):
                for dim in (1, 2):
                    for path in ("fill", "fill_n", "construct"):
                        for k in range(len(NARROW_VALUES[vt])):
                            for n in (1, 2):
                                case = {"narrow_value": True, "vtype": vt, "width": width, "dim": dim, "path": path, "k": k, "n": n}
                                p.ev(True)
                                p.states += 1
                                p.outcome("narrow_value")
                                p.extend(eval_narrow_value(case))
        for how in ("property", "method"):
            case = {"adaptive_switch": True, "how": how}
            p.ev(True)
            p.outcome("adaptive_switch")
            p.extend(eval_adaptive_switch(case))
        p.sample(case)
    else:
        method = DERIVED[unit["index"]]
        w = method[1].get("bin_width", 1.0)
        vals = value_alphabet(w, 3, method[1].get("bin_shift", 0.0))
        for n in range(1, unit["L"] + 1):
            src = vals if n < 3 else vals[::2]
            for data in itertools.product(src, repeat=n):
                case = {"method": method, "data": list(data)}
                vs, label = derived_eval(case)
                p.ev(True)
                p.outcome(label)
                p.extend(vs)
        p.sample(case)
    return p


def replay(case):
    if case.get("narrow_value"):
        return eval_narrow_value(case)
    if case.get("adaptive_switch"):
        return eval_adaptive_switch(case)
    if "method" in case:
        return derived_eval(case)[0]
    sys_ = AdaptiveSystem(case["config"])
    hist = unjf(case["history"])
    op = case.get("op")
    if op and op[0] == "fixed_equivalence":
        vs, model, obj = H.replay_history(sys_, hist)
        return vs or fixed_equivalence(sys_)(model, obj, tuple(hist))
    vs, model, obj = H.replay_history(sys_, hist, unjf(op) if op else None)
    if vs or "other_history" not in case:
        return vs
    vs2, model2, obj2 = H.replay_history(sys_, unjf(case["other_history"]))
    if vs2:
        return vs2
    a, b = sys_.snap(obj), sys_.snap(obj2)
    if a != b:
        return [V("confluence", sys_.confluence_signature(model, b, a), case, b, a)]
    return []
