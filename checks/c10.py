"""C10 - merge_bins conserves content and bin boundaries.

Engine E1 (product enumerator).  Every case is ONE call of merge_bins on a freshly built histogram
of the real code.  The histogram is built directly from arrays (Histogram1D / Histogram2D /
HistogramND constructors) with fingerprint contents and *different* fingerprint squared errors, so
that the exact set of old cells that went into every new cell is readable from the sums.  The
reference (runs of `amount` bins, run sums) is computed in plain Python on lists.
"""
from __future__ import annotations

import functools
import itertools
import math
from fractions import Fraction

import numpy as np

from mc.core import Partial, V
from mc.outcome import call
from mc.snapshot import binning_snap, diff, fl, snap

ID = "C10"
LEVEL = "exploration"
RULE = (
    "Histograms built from arrays: Histogram1D / HistogramND(1 axis) with 1..6 bins, Histogram2D / HistogramND with every shape "
    "1..6 x 1..6, 3D HistogramND; per axis EVERY placement of gaps between the bins (all 2^(n-1) gap masks, irregular widths, "
    "gaps of 0.5 or of 2^-20 = below physt's is_consecutive tolerance), StaticBinning / NumpyBinning / FixedWidthBinning "
    "(also adaptive) / raw edge arrays, right edge in- or excluded; contents 2^i (int64) or 2^-(i+1) (float64), errors2 "
    "3*2^(N-1-i) (reversed order), non-zero underflow / overflow / inner_missed / missed.  x amount 1..n+1 and one huge amount, "
    "np.int64 amounts x axis in {None, every index, every name} x inplace.  Oracle: new bins == runs of `amount` old bins, "
    "contents / errors2 == run sums exactly, other axes / total / missed unchanged, original snapshot unchanged and new object "
    "unless inplace (then self), a run that crosses a gap MUST raise and leave the histogram unchanged.  min_frequency: all "
    "content vectors over a small alphabet (incl. empty bins) x thresholds {0, -1, every prefix sum and every single content "
    "-1/+0/+1, huge} (+- 1 ulp for float contents): every new bin must be a union of adjacent old bins without a gap inside, in "
    "order, nothing lost, contents / errors2 == group sums.  Invalid: non-integral amounts (2.5, 0.5, nan, inf, Fraction, "
    "np.float64), unknown axes (index >= ndim, unknown / empty / wrongly-cased names) MUST raise and change nothing.  A case is "
    "non-trivial when at least two bins are really merged or the call has to be refused."
)
ASSUMPTIONS = [
    "fingerprint contents are distinct powers of two (<= 60 cells int64, <= 50 cells float64), so every sum is exact and names its cells; "
    "larger 3D histograms (thorough only) use small distinct integers, still exact but without unique subset sums",
    "old bins are the bins the freshly constructed histogram reports (they equal the requested ones for all layouts used)",
    "amounts 0, negative, 2.0 (float with integral value) and negative axis indices are outside 'amounts >= 1 / all axes': EITHER; "
    "if such a call returns, only 'nothing lost' (total, missed) and the untouched original of a non-inplace call are demanded",
    "the grouping policy of min_frequency is not part of the statement; on gapped axes a min_frequency call may refuse (EITHER)",
    "amount together with min_frequency: the statement does not say which wins; only the union-of-adjacent-bins oracle is applied",
    "statistics, meta data, dtype, binning class and right-edge flag of the merged axis are not part of the statement and not judged",
]
BOUNDS = {
    "quick": "1D n<=6: all 2^(n-1) gap masks x both right-edge flags, tiny gaps, 5 more binning kinds, amounts 1..n+1 and 17; 2D all 36 "
             "shapes, all gap masks on axes <= 4 bins and 7 selected masks on 5/6-bin axes; 3D every shape <= 3x3x3 with all gap masks + 9 "
             "larger shapes (up to 6 bins on an axis) with selected masks; min_frequency: 1D {0,1,3}^n n<=6 x every threshold, 2D <= 4x4 "
             "and six 3D shapes x 4 content patterns x <= 24 thresholds; ~5800 invalid / open calls; ~0.69 million calls in total",
    "thorough": "2D all gap masks on both axes with both dtypes and both classes; 3D every shape <= 4x4x4 with all gap masks and 103 "
                "shapes with 5/6-bin axes (incl. 6x6x6) with selected masks; min_frequency alphabet {0,1,2,5}^n, 2D <= 5x5, eight 3D shapes, 6 "
                "patterns x <= 60 thresholds; ~7.5 million calls",
}
BUDGET = {"quick": 240, "thorough": 3000}

WIDTHS = [1.0, 1.5, 0.25, 3.0, 0.5, 2.0]
START = -2.0
GAP = 0.5
TINY = 2.0 ** -20
NAMES = ["x", "y", "z", "u"]
HUGE_AMOUNT = 17
# kind -> (first left edge, width); all dyadic, so that every edge is exact
FIX_OFFSETS = {"fix1": (1.0, 1.0), "fix3": (3.0, 1.0), "fix3A": (3.0, 1.0), "fixm": (-2.5, 0.5), "fixs": (2.25, 2.0)}


# ---------------------------------------------------------------------------------------------
# building blocks
# ---------------------------------------------------------------------------------------------


def layout_pairs(n, layout):
    """Requested (left, right) pairs of a layout string."""
    kind, _, arg = layout.partition(":")
    if kind in ("fix", "fixA"):
        return [(float(i), float(i + 1)) for i in range(n)]
    if kind in FIX_OFFSETS:  # fixed-width grids whose first bin is not bin 0 of the grid (seeded C10-fixedwidth-coarser-grid-offset)
        lo, w = FIX_OFFSETS[kind]
        return [(lo + i * w, lo + (i + 1) * w) for i in range(n)]
    mask = int(arg) if arg else 0
    gap = TINY if kind == "t" else GAP
    pairs = []
    left = START
    for i in range(n):
        right = left + WIDTHS[i]
        pairs.append((left, right))
        left = right + (gap if (mask >> i) & 1 else 0.0)
    return pairs


def make_binning(n, layout):
    from physt.binnings import FixedWidthBinning, NumpyBinning, StaticBinning

    kind = layout.partition(":")[0]
    pairs = layout_pairs(n, layout)
    if kind == "fix":
        return FixedWidthBinning(bin_width=1.0, bin_count=n, min=0.0)
    if kind == "fixA":
        return FixedWidthBinning(bin_width=1.0, bin_count=n, min=0.0, adaptive=True)
    if kind in FIX_OFFSETS:
        lo, w = FIX_OFFSETS[kind]
        if kind == "fixs":
            return FixedWidthBinning(bin_width=w, bin_count=n, bin_times_min=1, bin_shift=0.25)
        return FixedWidthBinning(bin_width=w, bin_count=n, min=lo, adaptive=(kind == "fix3A"))
    edges = [pairs[0][0]] + [p[1] for p in pairs]
    if kind == "num":
        return NumpyBinning(np.array(edges))
    if kind == "numo":
        return NumpyBinning(np.array(edges), includes_right_edge=False)
    if kind == "arr":
        return np.array(edges)
    if kind in ("s", "t"):
        return StaticBinning(np.array(pairs), includes_right_edge=True)
    if kind == "so":
        return StaticBinning(np.array(pairs), includes_right_edge=False)
    raise ValueError(layout)


@functools.lru_cache(maxsize=4096)
def _contents_cached(key, N):
    return _contents(key, N)


def _contents(spec, N):
    """-> (freq list, errors2 list, numpy dtype, is_float)."""
    if isinstance(spec, tuple):  # explicit flat contents: (type tag, values)
        f = list(spec[1])
        if len(f) != N:
            raise ValueError("explicit contents do not match the shape")
        if all(isinstance(x, int) for x in f):
            return f, [3 << (N - 1 - i) for i in range(N)], np.int64, False
        return [float(x) for x in f], [3 * 2.0 ** -(N - i) for i in range(N)], np.float64, True
    if spec == "int":
        if N > 60:
            raise ValueError("int fingerprints need <= 60 cells")
        return [1 << i for i in range(N)], [3 << (N - 1 - i) for i in range(N)], np.int64, False
    if spec == "float":
        if N > 50:
            raise ValueError("float fingerprints need <= 50 cells")
        return [2.0 ** -(i + 1) for i in range(N)], [3 * 2.0 ** -(N - i) for i in range(N)], np.float64, True
    if spec == "poly":
        return [1 + i * i + 3 * i for i in range(N)], [2 + 5 * i + (i % 7) ** 2 for i in range(N)], np.int64, False
    if spec == "fpoly":
        return [(1 + i * i + 3 * i) / 8.0 for i in range(N)], [(2 + 5 * i + (i % 7) ** 2) / 4.0 for i in range(N)], np.float64, True
    raise ValueError(spec)


def contents(spec, N):
    if isinstance(spec, dict):
        # the tag keeps (0, 1) and (0.0, 1.0) apart in the cache
        spec = ("i" if all(isinstance(x, int) for x in spec["f"]) else "f", tuple(spec["f"]))
    return _contents_cached(spec, N)


def build(case):
    from physt.types import Histogram1D, Histogram2D, HistogramND

    axes = case["axes"]
    shape = tuple(int(a[0]) for a in axes)
    N = 1
    for n in shape:
        N *= n
    f, e, dt, isf = contents(case["content"], N)
    binnings = [make_binning(int(n), lay) for n, lay in axes]
    farr = np.array(f, dtype=dt).reshape(shape)
    earr = np.array(e, dtype=dt).reshape(shape)
    cls = case["cls"]
    d = len(shape)
    if cls == "H1":
        ms = (0.375, 0.625, 0.875) if isf else (3, 5, 7)
        h = Histogram1D(binnings[0], farr, errors2=earr, underflow=ms[0], overflow=ms[1], inner_missed=ms[2], axis_name="x", name="orig")
    elif cls == "H2":
        h = Histogram2D(binnings, farr, errors2=earr, missed=(0.875 if isf else 7), axis_names=NAMES[:2], name="orig")
    elif cls == "HN":
        h = HistogramND(binnings, farr, errors2=earr, missed=(0.875 if isf else 7), axis_names=NAMES[:d], name="orig")
    else:
        raise ValueError(cls)
    return h, f, e, shape


def fbin(b):
    return (type(b).__name__, b.bins.shape, b.bins.tobytes(), bool(b.includes_right_edge), bool(b.is_adaptive()))


def no_class(fs):
    """A fast snapshot without the binning class names (an equal-bins StaticBinning replacing a NumpyBinning is no visible change)."""
    return fs[:1] + (tuple(b[1:] for b in fs[1]),) + fs[2:]


def fsnap(h):
    """Fast exact public snapshot (bytes of the arrays); mc.snapshot.snap is used for reporting only."""
    f = h.frequencies
    e = h.errors2
    if h.ndim == 1 and hasattr(h, "underflow"):
        ms = (repr(h.underflow), repr(h.overflow), repr(h.inner_missed), repr(h.statistics))
    else:
        ms = (repr(h.missed),)
    md = h.meta_data
    return (
        type(h).__name__,
        tuple(fbin(b) for b in h.binnings),
        f.dtype.str, f.shape, f.tobytes(), e.dtype.str, e.shape, e.tobytes(), str(np.dtype(h.dtype)), bool(h.keep_missed), ms,
        tuple((str(k), repr(md[k])) for k in sorted(md, key=str)),
    )


def slow_diff(case, h, binning_class=True):
    """Readable difference between a freshly built histogram of the case and h (for reports)."""
    return diff(snap(build(case)[0], binning_class=binning_class), snap(h, binning_class=binning_class))


def old_bins(h):
    return [[(float(l), float(r)) for l, r in np.asarray(b.bins).tolist()] for b in h.binnings]


def missed_of(h):
    if h.ndim == 1 and hasattr(h, "underflow"):
        return [fl(h.underflow), fl(h.overflow), fl(h.inner_missed)]
    return [fl(h.missed)]


def decode_amount(a):
    if isinstance(a, dict):
        if "np" in a:
            return getattr(np, a["np"])(a["v"])
        if "frac" in a:
            return Fraction(a["frac"][0], a["frac"][1])
        raise ValueError(a)
    if a == "nan":
        return float("nan")
    if a == "inf":
        return float("inf")
    return a


def amount_class(a):
    """'valid' (integral >= 1), 'nonintegral' (MUST_RAISE) or 'open' (EITHER)."""
    if isinstance(a, bool):
        return "open"
    if isinstance(a, (int, np.integer)):
        return "valid" if a >= 1 else "open"
    if isinstance(a, Fraction):
        return "open" if a.denominator == 1 else "nonintegral"
    if isinstance(a, (float, np.floating)):
        v = float(a)
        if math.isnan(v) or math.isinf(v) or v != math.floor(v):
            return "nonintegral"
        return "open"
    return "open"


def resolve_axis(axis, d, names):
    """-> (list of target axes | None if unknown, kind, judgement 'valid' | 'unknown' | 'open')."""
    if axis is None:
        return list(range(d)), "none", "valid"
    if isinstance(axis, bool):
        return None, "other", "open"
    if isinstance(axis, int):
        if 0 <= axis < d:
            return [axis], "index", "valid"
        if axis < 0:
            return None, "index", "open"
        return None, "index", "unknown"
    if isinstance(axis, str):
        if axis in names:
            return [names.index(axis)], "name", "valid"
        return None, "name", "unknown"
    return None, "other", "open"


def group_sums(flat, shape, groups):
    """Sum a flat (C order) list into new cells: groups[a][i] = new index of old bin i on axis a."""
    new_shape = [(max(g) + 1) if g else 0 for g in groups]
    total = 1
    for n in new_shape:
        total *= n
    out = [0] * total
    strides = []
    s = 1
    for n in reversed(new_shape):
        strides.append(s)
        s *= n
    strides.reverse()
    offs = [[g[i] * st for i in range(len(g))] for g, st in zip(groups, strides)]
    k = 0
    for idx in itertools.product(*[range(n) for n in shape]):
        o = 0
        for a, i in enumerate(idx):
            o += offs[a][i]
        out[o] += flat[k]
        k += 1
    return out, tuple(new_shape)


def flat_list(arr):
    return np.asarray(arr).ravel().tolist()


def same_values(obs, exp):
    return len(obs) == len(exp) and all(o == e for o, e in zip(obs, exp))


# ---------------------------------------------------------------------------------------------
# evaluation of one case
# ---------------------------------------------------------------------------------------------


def evaluate(case):
    """-> (violations, outcome label, nontrivial)."""
    h, f0, e0, shape = build(case)
    d = len(shape)
    dim = "1D" if d == 1 else "ND"
    names = list(h.axis_names)
    bins0 = old_bins(h)
    missed0 = missed_of(h)
    total0 = sum(f0)
    before = fsnap(h)
    inplace = bool(case["inplace"])
    axis = case.get("axis")
    has_amount = "amount" in case
    has_minf = "minf" in case
    how = "amount+min_frequency" if (has_amount and has_minf) else ("amount" if has_amount else "min_frequency")
    amount = decode_amount(case["amount"]) if has_amount else None
    targets, axkind, axjudge = resolve_axis(axis, d, names)
    gaps = [[g for g in range(1, len(b)) if b[g - 1][1] != b[g][0]] for b in bins0]

    kwargs = {"axis": axis, "inplace": inplace}
    if case.get("np_axis") and isinstance(axis, int) and not isinstance(axis, bool):
        kwargs["axis"] = np.dtype(case["np_axis"]).type(axis)  # an index as numpy hands it out (np.argmax(h.shape))
    if has_minf:
        kwargs["min_frequency"] = case["minf"]
    if has_amount:
        res = call(h.merge_bins, amount, **kwargs)
    else:
        res = call(h.merge_bins, **kwargs)

    out = []

    def unchanged_or(reason):
        if no_class(fsnap(h)) != no_class(before):
            ax = "all" if axis is None else "one"
            out.append(V("refused_unchanged", f"refused_but_modified|{reason}|axis={ax}|inplace={int(inplace)}", case,
                         "histogram unchanged after the refusal", slow_diff(case, h, binning_class=False)))

    # ---- expected outcome class ---------------------------------------------------------------
    aclass = amount_class(amount) if has_amount else "valid"
    if axjudge == "unknown":
        if res.ok:
            out.append(V("must_raise", f"must_raise|unknown_axis|axis={axkind}", case, "refused", res.describe()))
        unchanged_or("unknown_axis")
        return out, "refused:unknown_axis" if not res.ok else "accepted:unknown_axis", True
    if has_amount and aclass == "nonintegral":
        if res.ok:
            out.append(V("must_raise", f"must_raise|nonintegral|{type(amount).__name__}", case, "refused", res.describe()))
        unchanged_or("nonintegral")
        return out, "refused:nonintegral" if not res.ok else "accepted:nonintegral", True
    if axjudge == "open" or aclass == "open":
        # outside the quantifier: anything goes, but nothing may be lost and a non-inplace call keeps the original
        label = "open:" + res.label
        if not inplace and fsnap(h) != before:
            out.append(V("original_unchanged", f"original_modified|{how}|open", case, "unchanged", slow_diff(case, h)))
        if res.ok and hasattr(res.value, "frequencies"):
            m = res.value
            if not (m.total == total0 and missed_of(m) == missed0):
                out.append(V("nothing_lost", f"lost|{how}|open", case, [total0, missed0], [m.total, missed_of(m)]))
        return out, label, False

    # ---- valid axis, valid (or no) amount ------------------------------------------------------
    groups = None
    if has_amount and not has_minf:
        a = int(amount)
        crossing = sorted({("tiny" if (bins0[t][g][0] - bins0[t][g - 1][1]) < 1e-3 else "gap") for t in targets for g in gaps[t] if g % a != 0})
        if crossing:
            reason = "tinygap" if crossing == ["tiny"] else "gap"
            if res.ok:
                out.append(V("must_raise", f"must_raise|{reason}", case, "merging across a gap is refused", res.describe()))
            unchanged_or("gap")
            return out, "refused:gap" if not res.ok else "accepted:gap", True
        if not res.ok:
            out.append(V("must_succeed", f"must_succeed|{how}|{type(res.exc).__name__}", case, "a merged histogram", res.describe()))
            return out, "raise:" + res.label, True
        groups = [[i // a for i in range(n)] if t in targets else list(range(n)) for t, n in enumerate(shape)]
    else:
        gapped_target = any(gaps[t] for t in targets)
        if not res.ok:
            if has_amount:
                # amount AND min_frequency: the statement does not say that the combination is accepted
                if not inplace and fsnap(h) != before:
                    out.append(V("original_unchanged", f"original_modified|{how}|open", case, "unchanged", slow_diff(case, h)))
                return out, "open:both:" + res.label, False
            if gapped_target:
                unchanged_or("gap")
                return out, "refused:min_frequency_gapped", True
            out.append(V("must_succeed", f"must_succeed|{how}|{type(res.exc).__name__}", case, "a merged histogram", res.describe()))
            return out, "raise:" + res.label, True

    m = res.value
    if not (hasattr(m, "frequencies") and hasattr(m, "binnings")):
        out.append(V("returns_histogram", f"not_a_histogram|{how}", case, "a histogram", repr(m)[:100]))
        return out, "ok:nohist", True

    # identity / original
    if inplace:
        if m is not h:
            out.append(V("inplace_returns_self", f"returns|{how}|inplace=1", case, "self", "another object"))
    else:
        if m is h:
            out.append(V("returns_new", f"returns|{how}|inplace=0", case, "a new object", "self"))
        if fsnap(h) != before:
            out.append(V("original_unchanged", f"original_modified|{how}", case, "unchanged", slow_diff(case, h)))

    if len(m.binnings) != d:
        out.append(V("ndim", f"ndim|{how}", case, d, len(m.binnings)))
        return out, "ok:ndim", True
    bins1 = old_bins(m)

    # bins of the merged axes
    if groups is not None:
        for t in targets:
            n = shape[t]
            exp = [(bins0[t][k][0], bins0[t][min(k + a, n) - 1][1]) for k in range(0, n, a)]
            if bins1[t] != exp:
                out.append(V("bins", f"bins|{how}", case, {"axis": t, "bins": exp}, {"axis": t, "bins": bins1[t]}))
                return out, "ok:badbins", True
    else:
        groups = [list(range(n)) for n in shape]
        for t in targets:
            ob, nb = bins0[t], bins1[t]
            g = []
            i = 0
            problem = None
            for k, (l, r) in enumerate(nb):
                if i >= len(ob) or ob[i][0] != l:
                    problem = "bins_not_union"
                    break
                j = i
                while j < len(ob) and ob[j][1] != r:
                    if j + 1 < len(ob) and ob[j][1] != ob[j + 1][0]:
                        problem = "merged_across_gap"
                    j += 1
                if j >= len(ob):
                    problem = "bins_not_union"
                    break
                g.extend([k] * (j - i + 1))
                i = j + 1
            if problem is None and i != len(ob):
                problem = "bins_not_union"
            if problem:
                out.append(V("union_of_adjacent_bins", f"{problem}|{how}", case, {"axis": t, "old_bins": ob}, {"axis": t, "bins": nb}))
                return out, "ok:" + problem, True
            groups[t] = g

    # other axes
    for t in range(d):
        if t not in targets and fbin(m.binnings[t]) != before[1][t]:
            out.append(V("other_axes", f"other_axis|{how}", case, {"axis": t, "binning": binning_snap(build(case)[0].binnings[t])},
                         {"axis": t, "binning": binning_snap(m.binnings[t])}))

    # contents / errors2
    expf, new_shape = group_sums(f0, shape, groups)
    expe, _ = group_sums(e0, shape, groups)
    if tuple(m.frequencies.shape) != new_shape or tuple(m.errors2.shape) != new_shape:
        out.append(V("shape", f"shape|{how}", case, list(new_shape), [list(m.frequencies.shape), list(m.errors2.shape)]))
        return out, "ok:badshape", True
    of = flat_list(m.frequencies)
    oe = flat_list(m.errors2)
    if not same_values(of, expf):
        out.append(V("contents", f"contents|{how}", case, expf, of))
    if not same_values(oe, expe):
        out.append(V("errors2", f"errors2|{how}", case, expe, oe))
    if m.total != total0:
        out.append(V("total", f"total|{how}", case, total0, m.total))
    if missed_of(m) != missed0:
        out.append(V("missed", f"missed|{how}|{dim}", case, missed0, missed_of(m)))
    merged = any(new_shape[t] < shape[t] for t in targets)
    return out, ("ok:merged" if merged else "ok:identity") + ":" + how, merged


def evaluate_empty(case):
    """A 1D histogram without bins (emptied slice, empty adaptive histogram, explicit (0, 2) bins): any amount >= 1 and any
    min_frequency give a histogram that still has no bins, nothing else changes; and integral amounts of any numeric type."""
    from physt import h1
    from physt.binnings import StaticBinning
    from physt.types import Histogram1D

    how = case["how"]
    if how == "slice":
        h = h1(np.array([0.5, 1.5, 5.0]), np.array([0.0, 1.0, 2.0]))[2:2]
    elif how == "adaptive":
        h = h1(None, "fixed_width", bin_width=1.0, adaptive=True)
    elif how == "explicit":
        h = Histogram1D(StaticBinning(np.zeros((0, 2))))
    else:
        h = h1(np.arange(300) + 0.5, np.arange(301.0))  # long axis: small numpy integer amounts
    arg = case["arg"]
    kw = {"min_frequency": 1.0} if arg == "min_frequency" else {}
    amount = {"1": 1, "2": 2, "np.uint8(2)": np.uint8(2), "np.int8(3)": np.int8(3), "np.int64(2)": np.int64(2), "2.0": 2.0, "np.float64(4.0)": np.float64(4.0),
              "min_frequency": None}[arg]
    before = fsnap(h)
    n0 = h.bin_count
    total0 = float(h.total)
    res = call(lambda: h.merge_bins(amount, inplace=case["inplace"], **kw))
    sig = f"empty_or_typed|{how}|{arg if how == 'long' else ('amount' if amount is not None else 'min_frequency')}"
    out = []
    either = arg in ("2.0", "np.float64(4.0)")  # integral floats: outside 'amount' as stated, whatever happens must be right
    if not res.ok:
        if not either:
            out.append(V("must_succeed", f"{sig}|{type(res.exc).__name__}", case, "merged histogram", res.describe()))
        elif fsnap(h) != before:
            out.append(V("refused_unchanged", f"{sig}|refused_but_changed", case, before, fsnap(h)))
        return out, "refused", how == "long"
    r = h if case["inplace"] else res.value
    if how != "long":
        if r.bin_count != 0 or float(r.total) != 0:
            out.append(V("merge", f"{sig}|bins_appeared", case, 0, [r.bin_count, float(r.total)]))
    else:
        k = int(amount) if amount is not None else None
        if k is not None:
            want = -(-n0 // k)
            if r.bin_count != want or float(r.total) != total0 or float(r.bins[0][0]) != 0.0 or float(r.bins[-1][1]) != 300.0:
                out.append(V("merge", f"{sig}|runs", case, [want, total0], [r.bin_count, float(r.total)]))
    if not case["inplace"] and fsnap(h) != before:
        out.append(V("original_unchanged", f"{sig}|original_changed", case, before, fsnap(h)))
    return out, "ok:merged", how == "long"


def replay(case):
    if "how" in case:
        return evaluate_empty(case)[0]
    return evaluate(case)[0]


# ---------------------------------------------------------------------------------------------
# enumeration
# ---------------------------------------------------------------------------------------------


def masks(n):
    return [f"s:{m}" for m in range(2 ** (n - 1))]


def selected_masks(n):
    """A few gap placements for long axes: none, first, last, middle, all, alternating."""
    top = 2 ** (n - 1)
    sel = {0, 1, top >> 1, 1 << ((n - 1) // 2), top - 1, 0b0101 & (top - 1), 0b1010 & (top - 1)}
    return [f"s:{m}" for m in sorted(sel) if 0 <= m < top]


def layouts_1d(n):
    out = masks(n) + [f"so:{m}" for m in range(2 ** (n - 1))]
    out += [f"t:{1 << k}" for k in range(n - 1)]
    out += ["fix", "fixA", "num", "numo", "arr"] + sorted(FIX_OFFSETS)
    return out


def layouts_2d(n, thorough):
    out = (masks(n) if (thorough or n <= 4) else selected_masks(n)) + ["fix", "num", "fix1", "fixm"]
    if n >= 2:
        out.append(f"t:{1 << (n - 2)}")
    return out


def layouts_3d(n, full=True):
    if full:
        return masks(n) + ["num"]
    return selected_masks(n) + ["fix"]


def amounts_for(nmax):
    return list(range(1, nmax + 2)) + [HUGE_AMOUNT]


def axes_for(d):
    return [None] + list(range(d)) + NAMES[:d]


def prefix_thresholds(vals, isfloat):
    """{0, -1, huge} + every prefix sum / single content -1, +0, +1 (and +-1 ulp for floats)."""
    base = set()
    s = 0
    for v in vals:
        s += v
        base.add(s)
        base.add(v)
    out = {0, -1, 2 ** 62 if not isfloat else 1e300}
    for b in base:
        out.update((b - 1, b, b + 1))
        if isfloat:
            out.update((math.nextafter(b, -math.inf), math.nextafter(b, math.inf)))
    return sorted(out)


def thin(values, cap):
    """At most ~cap values, evenly spread, always keeping both ends."""
    if len(values) <= cap:
        return list(values)
    step = (len(values) - 1) / (cap - 1.0)
    return sorted({values[int(round(k * step))] for k in range(cap)})


def projection_sums(f, shape, t):
    groups = [list(range(n)) if k == t else [0] * n for k, n in enumerate(shape)]
    return group_sums(f, shape, groups)[0]


def cells(shape):
    N = 1
    for n in shape:
        N *= n
    return N


# every family: combos(unit, thorough) -> list of "configurations"; cases(unit, thorough, ci, combo) -> cases of one configuration


def amount_combos(unit, thorough):
    shape = unit["shape"]
    d = len(shape)
    if d == 1:
        per_axis = [layouts_1d(shape[0])]
    elif d == 2:
        per_axis = [layouts_2d(n, thorough) for n in shape]
    else:
        per_axis = [layouts_3d(n, unit.get("full", True)) for n in shape]
    return list(itertools.product(*per_axis))


OPEN_AMOUNTS = ({"np": "int64", "v": 2}, {"np": "int32", "v": 3}, {"np": "uint8", "v": 2}, 0, -1, -2, 2.0, 1.0, {"np": "float64", "v": 2.0})


def amount_cases(unit, thorough, ci, combo):
    shape = unit["shape"]
    d = len(shape)
    N = cells(shape)
    axes = [[n, lay] for n, lay in zip(shape, combo)]
    if d == 1:
        variants = [("H1", "int"), ("H1", "float"), ("HN", "int" if ci % 2 else "float")]
        axs = axes_for(1)
    elif d == 2:
        if thorough:
            variants = [("H2", "int"), ("H2", "float"), ("HN", "int"), ("HN", "float")]
        else:
            variants = [("H2", "int"), ("HN", "float")] if ci % 2 == 0 else [("H2", "float"), ("HN", "int")]
        axs = axes_for(2)
    else:
        if N > 50:
            variants = [("HN", "poly" if ci % 2 == 0 else "fpoly")]
        elif thorough:
            variants = [("HN", "int"), ("HN", "float")]
        else:
            variants = [("HN", "int" if ci % 2 == 0 else "float")]
        axs = axes_for(d) if thorough else [None] + list(range(d)) + [NAMES[ci % d]]
    for cls, content in variants:
        for am in amounts_for(max(shape)):
            for axis in axs:
                for inplace in (False, True):
                    yield {"cls": cls, "axes": axes, "content": content, "amount": am, "axis": axis, "inplace": inplace}
        if d == 1 or ci % 7 == 0:
            # numpy integer amounts; amounts outside the quantifier (EITHER)
            for am in OPEN_AMOUNTS:
                for axis in (None, d - 1):
                    for inplace in (False, True):
                        yield {"cls": cls, "axes": axes, "content": content, "amount": am, "axis": axis, "inplace": inplace}
            # numpy integer axis indices
            for tname in ("int64", "int32", "uint8"):
                for axis in range(d):
                    yield {"cls": cls, "axes": axes, "content": content, "amount": 2, "axis": axis, "inplace": False, "np_axis": tname}


def minf1_combos(unit, thorough):
    alphabet = [0, 1, 2, 5] if thorough else [0, 1, 3]
    return list(itertools.product(alphabet, repeat=unit["n"]))


def minf1_cases(unit, thorough, vi, vec):
    """1D min_frequency: one content vector x every threshold x layouts."""
    n = unit["n"]
    lays = ["num", f"s:{2 ** (n - 1) - 1}"] + ([f"s:{1 << ((n - 1) // 2)}", f"t:{1 << (n - 2)}"] if n >= 3 else [])
    lays = list(dict.fromkeys(lays))
    for scale in (1, 0.25):
        isf = scale != 1
        f = [v * scale for v in vec] if isf else list(vec)
        ths = prefix_thresholds(f, isf)
        for li, lay in enumerate(lays):
            if isf and li >= 2:
                continue
            cls = "HN" if (vi + li) % 5 == 0 else "H1"
            for th in ths:
                # axis / inplace variants rotate deterministically; the consecutive layout gets all of them
                if li == 0 and not isf:
                    combos = [(None, False), (0, True), ("x", False)]
                else:
                    combos = [((None, 0, "x")[(vi + li) % 3], bool((vi + li) % 2))]
                for axis, inplace in combos:
                    yield {"cls": cls, "axes": [[n, lay]], "content": {"f": f}, "minf": th, "axis": axis, "inplace": inplace}


def minfn_combos(unit, thorough):
    per_axis = []
    d = len(unit["shape"])
    for n in unit["shape"]:
        ls = ["num"] + (["fix"] if (d == 2 or thorough) else [])
        if n >= 2:
            ls.append(f"s:{1 << ((n - 1) // 2)}")
        if n >= 3 and thorough:
            ls.append(f"s:{2 ** (n - 1) - 1}")
        per_axis.append(ls)
    return list(itertools.product(*per_axis))


def minfn_cases(unit, thorough, ci, combo):
    shape = unit["shape"]
    d = len(shape)
    N = cells(shape)
    axes = [[n, lay] for n, lay in zip(shape, combo)]
    patterns = ["int", {"f": [(k * k) % 4 for k in range(N)]}, {"f": [(k + 1) if k % 3 == 0 else 0 for k in range(N)]},
                {"f": [((k * 5 + k // 3) % 6) * 0.25 for k in range(N)]}]
    if thorough:
        patterns += ["poly", "float"]
    for pi, content in enumerate(patterns):
        f, _, _, isf = contents(content, N)
        ths = set()
        for t in range(d):
            ths.update(prefix_thresholds(projection_sums(f, shape, t), isf))
        ths = thin(sorted(ths), 60 if thorough else 24)
        cls = "H2" if (d == 2 and (ci + pi) % 2 == 0) else "HN"
        for th in ths:
            for axis in axes_for(d):
                inplace = bool((ci + pi + (0 if axis is None else (axis if isinstance(axis, int) else 1))) % 2)
                yield {"cls": cls, "axes": axes, "content": content, "minf": th, "axis": axis, "inplace": inplace}
                if axis is None:
                    yield {"cls": cls, "axes": axes, "content": content, "minf": th, "axis": axis, "inplace": not inplace}


INVALID_BASES = [
    ("H1", [[1, "s:0"]]), ("H1", [[3, "s:0"]]), ("H1", [[4, "s:2"]]), ("H1", [[4, "fix"]]), ("H1", [[5, "num"]]), ("HN", [[3, "so:0"]]),
    ("H2", [[2, "s:0"], [3, "num"]]), ("H2", [[3, "s:1"], [3, "fix"]]), ("HN", [[4, "num"], [2, "s:1"]]),
    ("HN", [[2, "s:0"], [2, "fix"], [3, "s:2"]]), ("HN", [[3, "num"], [1, "s:0"], [2, "so:0"]]),
]
NONINTEGRAL = [2.5, 1.5, 0.5, -2.5, 1.0000000000000002, 1e-9, {"np": "float64", "v": 2.5}, {"np": "float32", "v": 1.5}, {"frac": [5, 2]}, "nan", "inf"]


def invalid_combos(unit, thorough):
    return list(INVALID_BASES)


def invalid_cases(unit, thorough, ci, combo):
    cls, axes = combo
    d = len(axes)
    for content in ("int", "float"):
        base = {"cls": cls, "axes": axes, "content": content}
        # non-integral amounts on valid axes
        for am in NONINTEGRAL:
            for axis in axes_for(d):
                for inplace in (False, True):
                    yield dict(base, amount=am, axis=axis, inplace=inplace)
        # unknown axes (MUST_RAISE) and negative indices (open)
        for axis in (d, d + 5, "nope", "", "X", "axis0", "x ", -1, -d, -d - 1):
            for inplace in (False, True):
                for am in (1, 2, 2.5):
                    yield dict(base, amount=am, axis=axis, inplace=inplace)
                for th in (0, 2, 1e300):
                    yield dict(base, minf=th, axis=axis, inplace=inplace)
        # amount together with min_frequency (union oracle only)
        for am in (1, 2, 3):
            for th in (0, 1, 4, 1e300):
                for axis in (None, 0):
                    for inplace in (False, True):
                        yield dict(base, amount=am, minf=th, axis=axis, inplace=inplace)


FAMILIES = {
    "amount": (amount_combos, amount_cases),
    "minf1": (minf1_combos, minf1_cases),
    "minfn": (minfn_combos, minfn_cases),
    "invalid": (invalid_combos, invalid_cases),
}


def generate(unit, thorough):
    combos_fn, cases_fn = FAMILIES[unit["fam"]]
    part, parts = unit.get("part", 0), unit.get("parts", 1)
    for ci, combo in enumerate(combos_fn(unit, thorough)):
        if ci % parts == part:
            yield from cases_fn(unit, thorough, ci, combo)


UNIT_TARGET = 6000


def split(base, thorough):
    """Split one configuration family into parts of roughly UNIT_TARGET cases (estimated from every k-th configuration)."""
    ncomb = len(FAMILIES[base["fam"]][0](base, thorough))
    k = min(ncomb, 16)
    est = k * sum(1 for _ in generate(dict(base, part=0, parts=k), thorough))
    parts = min(ncomb, max(1, -(-est // (UNIT_TARGET * (3 if thorough else 1)))))
    return [dict(base, part=p, parts=parts) for p in range(parts)]


QUICK_3D_EXTRA = [[4, 2, 3], [2, 4, 2], [3, 3, 4], [4, 4, 3], [1, 5, 2], [6, 2, 2], [2, 3, 6], [5, 1, 4], [3, 6, 1]]


THOROUGH_3D_EXTRA = [[6, 6, 6], [5, 5, 5], [6, 6, 1], [1, 6, 6], [6, 5, 2], [5, 6, 6], [2, 5, 5]]


def units(tier, seed):
    """Small families first, so that a time cap (never seen on an idle machine) only thins the big 3D products."""
    thorough = tier == "thorough"
    bases = [{"fam": "invalid"}]
    for n in range(1, 7):
        bases.append({"fam": "amount", "shape": [n]})
    for n in range(1, 7):
        bases.append({"fam": "minf1", "n": n})
    top = 6 if thorough else 5
    for n0 in range(1, top):
        for n1 in range(1, top):
            bases.append({"fam": "minfn", "shape": [n0, n1]})
    for shape in [[2, 2, 2], [3, 2, 2], [2, 3, 2], [2, 2, 3], [3, 3, 2], [1, 3, 2]] + ([[3, 3, 3], [4, 2, 3]] if thorough else []):
        bases.append({"fam": "minfn", "shape": shape})
    for n0 in range(1, 7):
        for n1 in range(1, 7):
            bases.append({"fam": "amount", "shape": [n0, n1]})
    full_top = 4 if thorough else 3
    for shape in itertools.product(range(1, 7), repeat=3):
        shape = list(shape)
        long_axes = sum(1 for n in shape if n > 4)
        if max(shape) <= full_top:
            bases.append({"fam": "amount", "shape": shape})
        elif (thorough and (long_axes == 1 or shape in THOROUGH_3D_EXTRA)) or (not thorough and shape in QUICK_3D_EXTRA):
            bases.append({"fam": "amount", "shape": shape, "full": False})
    us = [{"fam": "empty_or_typed"}]
    for b in bases:
        us.extend(split(b, thorough))
    return us


def run_unit(unit, ctx):
    p = Partial()
    if unit["fam"] == "empty_or_typed":
        case = None
        for how in ("slice", "adaptive", "explicit", "long"):
            for arg in ("1", "2", "np.uint8(2)", "np.int8(3)", "np.int64(2)", "2.0", "np.float64(4.0)", "min_frequency"):
                for inplace in (False, True):
                    case = {"how": how, "arg": arg, "inplace": inplace}
                    vs, label, nt = evaluate_empty(case)
                    p.ev(True)
                    p.outcome("empty_or_typed:" + label)
                    p.extend(vs)
        p.sample(case)
        return p
    pick = 7 + 13 * (ctx.seed % 5)
    sampled = False
    for k, case in enumerate(generate(unit, ctx.thorough)):
        if (k & 127) == 0 and ctx.expired():
            p.capped = True
            p.notes.append(f"{unit}: stopped after {k} cases")
            break
        vs, label, nontrivial = evaluate(case)
        p.ev(nontrivial)
        p.outcome(label)
        p.count("cases_" + unit["fam"])
        if label.startswith("refused"):
            p.count("refusals")
        elif nontrivial and label.startswith("ok:merged"):
            p.count("merges")
        if vs:
            p.extend(vs)
        if k >= pick and nontrivial and not sampled:
            p.sample(case)
            sampled = True
    return p
