"""C09 - projections are exact marginals.

Engine E1 (product enumerator) on the real code.  Parents are ND histograms built through the public
constructors with *fingerprint* contents (cell k holds 2^k, its squared error an independent power of
two), so every marginal sum is exactly representable and identifies the set of cells that went into it;
the oracle sums the parent's reported arrays over the dropped axes with plain Python loops and exact
rationals.  Case kinds:

  proj     one projection(*axes) of one parent                       -> marginal oracle
  chain    a chain of >= 2 projections (indices re-based each step)   -> == marginal, == direct projection
  T        Histogram2D.T (of a parent or of a 2D projection)          -> transposed arrays, T.T == original
  acc      accumulate(axis)                                           -> cumulative sums along that axis only
  invalid  unknown / out of range / duplicate / empty axis lists      -> MUST_RAISE (or EITHER + correct result)
  data     parent built from <= 3 rows by h2 / h3 / h                 -> marginal oracle, == histogram of kept columns
"""
from __future__ import annotations

import functools
import itertools
import math
import re
from fractions import Fraction

import numpy as np

from mc.core import Partial, V
from mc.outcome import EITHER, MUST_RAISE, call
from mc.refmodel import eq_exact, frac
from mc.snapshot import diff, fl, snap

ID = "C09"
LEVEL = "exploration"
RULE = (
    "Parents: HistogramND / Histogram2D (and Polar, SphericalSurface, CylindricalSurface, Spherical, Cylindrical) of every shape "
    "with 1..3 (thorough 1..4) bins per axis, d = 2..4, <= 48 cells, built by the constructors with fingerprint contents 2^k "
    "(int64, float64 2^-(k+1), float32, default errors2, sparse with zero cells) and independent fingerprint errors2, missed = 5, "
    "pairwise different bins per axis (regular / irregular / gapped / single bin) and three name sets (plain, not alphabetically "
    "ordered, digit strings that collide with indices). (1) every non-empty proper axis subset x every order x every index/name "
    "assignment: contents, errors2 == sums over the dropped axes by plain loops, bins and axis names of the kept axes in original "
    "order, total == parent total, parent snapshot unchanged. (2) every chain of >= 2 projections down to every final subset "
    "(indices re-based per step, index/name/order variants per step) == marginal == direct projection. (3) T of every 2D "
    "parent and of every 2D projection: arrays, bins, names transposed, T.T == original (snapshot and ==). (4) accumulate(axis) by "
    "index and name: cumulative sums along exactly that axis, bins/names/shape kept. (5) empty, unknown-name, out-of-range, "
    "duplicate (index/index, index/name, name/name), None / non-integer axis lists must be refused; negative indices, numpy "
    "integers, bool, and the full axis set may be refused or must give the corresponding correct result. (6) data-driven: "
    "parents from all tuples of <= 2 rows (multisets of 3) over inside / outside / gap / NaN coordinates with fingerprint weights: "
    "projection == histogram built directly from the kept columns whenever no row missed a dropped axis. A case is non-trivial "
    "unless every dropped axis has a single bin and the axes are given as ascending indices (data: unless there are no rows)."
)
ASSUMPTIONS = [
    "fingerprint contents (distinct powers of two, <= 48 cells) make every marginal / cumulative sum exact in the parent's dtype, so equality is demanded bit-exactly",
    "the parent's own reported frequencies / errors2 / bins / axis_names (read before the call) are the reference the marginal is computed from",
    "class, dtype, name/title and missed of a projection are not judged (not in the statement); sharing of binning objects is C12",
    "accumulate: errors2 may be left untouched or accumulated along the same axis; missed is not judged",
    "a negative index, numpy integer or bool axis may be refused; if accepted it must mean the numpy-style axis",
    "data-driven variant uses only coordinates strictly inside bins, in gaps, outside or NaN (edge placement is C01/C02)",
]
BOUNDS = {
    "quick": "proj: all shapes {1,2,3}^d for d=2..4 (2D: 1..4 bins) x 5 content modes x 3 name/bin "
             "pairings x all specs (4 / 30 / 248 per parent); chains: all 3D shapes x 3 contents x 3 pairings with every order and index/name assignment "
             "per step, 4D (2,3,1,2) and (3,2,2,1) x 2 contents x 2 name sets: every order x index/name/2 mixed forms per 3-axis step, all forms per "
             "shorter step; T of all 2D parents and of all 2D projections (3 request forms each); accumulate on every axis by index and name; "
             "~60 invalid / optional lists on 59 parents; data: d=2 rows<=3, d=3 and d=4 rows<=2",
    "thorough": "adds shapes with 4 bins per axis (<= 48 cells), both bin families for every name set, all 5 content modes everywhere, chains on all 4D "
                "shapes {1,2,3}^4 (every index/name assignment per step on the two design shapes), T of 2D projections in all request forms, data rows<=3 "
                "for d=3, integer weights for d=4",
}
BUDGET = {"quick": 240, "thorough": 3000}

NAN = float("nan")
MAXCELLS = 48
DESIGN4 = [[2, 3, 1, 2], [3, 2, 2, 1]]

NAMESETS = {
    "xyzt": ["x", "y", "z", "t"],
    "scr": ["q", "b", "z", "a"],      # original order differs from alphabetical order
    "num": ["1", "0", "3", "2"],      # names that look like (other) indices
}
CONTENTS = ["int", "float", "f32", "noerr", "sparse"]
TRANSFORMED = {
    # tag -> (class name, d, explicit axis names or None)
    "Polar": ("PolarHistogram", 2, None),
    "SphSurf": ("SphericalSurfaceHistogram", 2, None),
    "CylSurf": ("CylindricalSurfaceHistogram", 2, ["phi", "z"]),
    "Sph": ("SphericalHistogram", 3, None),
    "Cyl": ("CylindricalHistogram", 3, None),
}


def exc_sig(e):
    msg = re.sub(r"[^A-Za-z ]+", "", str(e))[:32].strip()
    return f"{type(e).__name__}:{msg}"


# ---------------------------------------------------------------------------------------------
# parents
# ---------------------------------------------------------------------------------------------


def axis_pairs(fam, a, n):
    """Bins of axis a with n bins; different offsets per axis so that no two axes have equal bins."""
    o = 10.0 * a + 1.0
    if fam == "A":
        return {
            1: [(o - 1, o + 1)],
            2: [(o, o + 1), (o + 1, o + 2)],
            3: [(o, o + 0.5), (o + 0.5, o + 2), (o + 2, o + 3)],
            4: [(o, o + 1), (o + 1, o + 2), (o + 2, o + 3), (o + 3, o + 4)],
        }[n]
    return {
        1: [(o, o + 4)],
        2: [(o, o + 1), (o + 2, o + 3)],
        3: [(o, o + 1), (o + 1, o + 2), (o + 2, o + 3)],
        4: [(o, o + 1), (o + 1, o + 2), (o + 3, o + 4), (o + 4, o + 6)],
    }[n]


def mk_binning(pairs):
    from physt.binnings import NumpyBinning, StaticBinning

    if all(pairs[i][1] == pairs[i + 1][0] for i in range(len(pairs) - 1)):
        return NumpyBinning(np.array([pairs[0][0]] + [p[1] for p in pairs], dtype=float))
    return StaticBinning(np.array(pairs, dtype=float))


def fingerprint(mode, shape):
    K = int(np.prod(shape))
    k = np.arange(K)
    if mode == "int":
        F = (2 ** k).astype(np.int64)
        E = (2 ** (K - 1 - k)).astype(np.int64)
    elif mode == "float":
        F = 2.0 ** -(k + 1.0)
        E = 2.0 ** k.astype(float)
    elif mode == "f32":
        F = (2.0 ** -(k + 1.0)).astype(np.float32)
        E = (2.0 ** k.astype(float)).astype(np.float32)
    elif mode == "noerr":
        F = (2 ** k).astype(np.int64)
        E = None
    elif mode == "sparse":
        F = np.where(k % 3 == 1, 0, 2 ** k).astype(np.int64)
        E = (2 ** (K - 1 - k)).astype(np.int64)
    else:
        raise ValueError(mode)
    return F.reshape(shape), (None if E is None else E.reshape(shape))


def content_ok(mode, shape):
    K = int(np.prod(shape))
    return K <= (24 if mode == "f32" else MAXCELLS)


def build_parent(ps):
    """ps: {"cls", "shape", "content", "names", "bins"} -> a fresh histogram (harness errors propagate)."""
    from physt import special_histograms as S
    from physt.types import Histogram2D, HistogramND

    shape = tuple(ps["shape"])
    d = len(shape)
    binnings = [mk_binning(axis_pairs(ps["bins"], a, n)) for a, n in enumerate(shape)]
    F, E = fingerprint(ps["content"], shape)
    kw = {"missed": 5, "name": "parent"}
    if E is not None:
        kw["errors2"] = E
    cls = ps["cls"]
    if cls in TRANSFORMED:
        cname, dd, names = TRANSFORMED[cls]
        assert dd == d
        klass = getattr(S, cname)
        if names:
            kw["axis_names"] = list(names)
    else:
        klass = {"ND": HistogramND, "H2D": Histogram2D}[cls]
        kw["axis_names"] = NAMESETS[ps["names"]][:d]
    return klass(binnings, F, **kw)


def group(ps):
    return "transformed" if ps["cls"] in TRANSFORMED else "plain"


# ---------------------------------------------------------------------------------------------
# axis specifications (JSON-able <-> python)
# ---------------------------------------------------------------------------------------------


def dec(x):
    if isinstance(x, dict):
        return getattr(np, x["np"])(x["v"])
    return x


def rep_class(axes):
    kinds = {("idx" if (isinstance(a, int) and not isinstance(a, bool)) else "name" if isinstance(a, str) else "other") for a in axes}
    return kinds.pop() if len(kinds) == 1 else "mixed"


def resolve(axes, cur, names):
    """orig axis ids named by a valid spec relative to an (intermediate) histogram with original axes `cur`."""
    out = []
    for a in axes:
        if isinstance(a, str):
            out.append(names.index(a))
        else:
            out.append(cur[a])
    return out


def spec_variants(T, cur, names, full=True):
    """All ways to name the axis set T (orig ids, subset of cur): every order x every index/name assignment."""
    T = list(T)
    for perm in itertools.permutations(T):
        n = len(perm)
        if full or n <= 2:
            reps = list(itertools.product((0, 1), repeat=n))
        else:
            reps = [tuple([0] * n), tuple([1] * n), tuple(i % 2 for i in range(n)), tuple((i + 1) % 2 for i in range(n))]
        for rep in reps:
            yield [names[a] if r else cur.index(a) for a, r in zip(perm, rep)]


def proper_subsets(cur):
    for k in range(1, len(cur)):
        yield from itertools.combinations(cur, k)


# ---------------------------------------------------------------------------------------------
# observation and the plain-loop oracle
# ---------------------------------------------------------------------------------------------


def observe(h):
    nd = h.ndim
    bins = h.bins if nd > 1 else [h.bins]
    return {
        "ndim": int(nd),
        "shape": tuple(int(s) for s in h.frequencies.shape),
        "eshape": tuple(int(s) for s in h.errors2.shape),
        "freq": h.frequencies.ravel().tolist(),
        "err": h.errors2.ravel().tolist(),
        "bins": [np.asarray(b).tolist() for b in bins],
        "names": tuple(h.axis_names),
        "total": h.total,
    }


@functools.lru_cache(maxsize=4096)
def _marginal(flat, shape, kept):
    """Sum the flat (row-major) cell values over all axes not in `kept` - plain loops, exact rationals."""
    kshape = tuple(shape[a] for a in kept)
    acc = {idx: Fraction(0) for idx in itertools.product(*[range(n) for n in kshape])}
    for k, idx in enumerate(itertools.product(*[range(n) for n in shape])):
        acc[tuple(idx[a] for a in kept)] += frac(flat[k])
    return tuple(acc[idx] for idx in itertools.product(*[range(n) for n in kshape]))


@functools.lru_cache(maxsize=4096)
def _cumulative(flat, shape, axis):
    vals = {}
    for k, idx in enumerate(itertools.product(*[range(n) for n in shape])):
        vals[idx] = frac(flat[k])
    out = []
    for idx in itertools.product(*[range(n) for n in shape]):
        s = Fraction(0)
        for j in range(idx[axis] + 1):
            s += vals[idx[:axis] + (j,) + idx[axis + 1:]]
        out.append(s)
    return tuple(out)


def expected_marginal(pobs, kept):
    kept = tuple(sorted(kept))
    shape = pobs["shape"]
    return {
        "ndim": len(kept),
        "shape": tuple(shape[a] for a in kept),
        "freq": _marginal(tuple(pobs["freq"]), shape, kept),
        "err": _marginal(tuple(pobs["err"]), shape, kept),
        "bins": [pobs["bins"][a] for a in kept],
        "names": tuple(pobs["names"][a] for a in kept),
        "total": sum((frac(x) for x in pobs["freq"]), Fraction(0)),
    }


def exact_list(obs, exp):
    return len(obs) == len(exp) and all(eq_exact(o, e) for o, e in zip(obs, exp))


def compare(obs, exp, parent_total=None):
    """-> list of (field, expected, observed) for a projection-like result against an expected marginal."""
    probs = []
    if obs["ndim"] != exp["ndim"]:
        probs.append(("ndim", exp["ndim"], obs["ndim"]))
        return probs
    if obs["shape"] != exp["shape"] or obs["eshape"] != exp["shape"]:
        probs.append(("shape", exp["shape"], [obs["shape"], obs["eshape"]]))
        return probs
    if not exact_list(obs["freq"], exp["freq"]):
        probs.append(("frequencies", [float(x) for x in exp["freq"]], obs["freq"]))
    if not exact_list(obs["err"], exp["err"]):
        probs.append(("errors2", [float(x) for x in exp["err"]], obs["err"]))
    if obs["bins"] != exp["bins"]:
        probs.append(("bins", exp["bins"], obs["bins"]))
    if obs["names"] != exp["names"]:
        probs.append(("axis_names", exp["names"], obs["names"]))
    if not eq_exact(obs["total"], exp["total"]) or (parent_total is not None and not (obs["total"] == parent_total)):
        probs.append(("total", float(exp["total"]), fl(obs["total"])))
    return probs


def frame(parent, before, case, what, grp):
    after = snap(parent)
    if after != before:
        return [V("parent_unchanged", f"parent_modified|{what}|{grp}|{'+'.join(sorted(diff(before, after)))}", case, "parent snapshot unchanged", diff(before, after))]
    return []


# ---------------------------------------------------------------------------------------------
# evaluators (one case each; used by run_unit and replay)
# ---------------------------------------------------------------------------------------------


def _project_and_compare(parent, pobs, axes, kept):
    """-> (problems, label, (result, observation) | None); problems = list of (field, expected, observed)."""
    res = call(parent.projection, *[dec(a) for a in axes])
    if not res.ok:
        return [("raises:" + exc_sig(res.exc), "the marginal histogram", res.describe())], "raise:" + type(res.exc).__name__, None
    o = call(observe, res.value)
    if not o.ok:
        return [("unreadable:" + exc_sig(o.exc), "readable frequencies/errors2/bins/axis_names/total", o.describe())], "unreadable", None
    exp = expected_marginal(pobs, kept)
    return compare(o.value, exp, pobs["total"]), f"{pobs['ndim']}->{len(kept)}:{type(res.value).__name__}", (res.value, o.value)


def marginal_violations(parent, pobs, axes, kept, case, grp):
    """One projection judged by the marginal oracle.  The signature says whether the canonical request for the same
    axes (ascending indices) fails as well ('any') or only this way of naming them."""
    probs, label, got = _project_and_compare(parent, pobs, axes, kept)
    out = []
    if probs:
        canonical = list(kept)
        how = "any"
        if list(axes) != canonical:
            cprobs, _, _ = _project_and_compare(parent, pobs, canonical, kept)
            if not cprobs:
                # only this way of naming the axes fails: is it the order or the index/name form?
                how = f"rep={rep_class(axes)}"
                if all(isinstance(a, (int, str)) and not isinstance(a, bool) for a in axes):
                    ids = resolve(axes, list(range(pobs["ndim"])), list(pobs["names"]))
                    if ids != kept:
                        ascending = [a for _, a in sorted(zip(ids, range(len(axes))))]
                        aprobs, _, _ = _project_and_compare(parent, pobs, [axes[i] for i in ascending], kept)
                        if not aprobs:
                            how = "order=perm"
        for field, e, o in probs:
            out.append(V("marginal", f"marginal|{field}|{grp}|{how}", case, e, o))
    return out, label, got


def eval_proj(case):
    ps = case["parent"]
    parent = build_parent(ps)
    grp = group(ps)
    before = snap(parent)
    pobs = observe(parent)
    axes = case["axes"]
    d = pobs["ndim"]
    kept = sorted(resolve(axes, list(range(d)), list(pobs["names"])))
    out, label, _ = marginal_violations(parent, pobs, axes, kept, case, grp)
    out += frame(parent, before, case, "projection", grp)
    single = all(pobs["shape"][a] == 1 for a in range(d) if a not in kept)
    nontrivial = not (single and axes == list(kept))
    return out, "proj:" + label, nontrivial


def eval_chain(case):
    ps = case["parent"]
    parent = build_parent(ps)
    grp = group(ps)
    before = snap(parent)
    pobs = observe(parent)
    names = list(pobs["names"])
    cur = list(range(pobs["ndim"]))
    h = parent
    out = []
    steps = case["steps"]
    # the first step is a plain projection of the parent: judged (and named) like a 'proj' case
    kept = sorted(resolve(steps[0], cur, names))
    out, _, got = marginal_violations(parent, pobs, steps[0], kept, case, grp)
    if out:
        return out, "chain:first-step-fails", True
    h, hobs = got
    cur = kept
    for i, axes in enumerate(steps[1:], start=1):
        kept = sorted(resolve(axes, cur, names))
        res = call(h.projection, *axes)
        if not res.ok:
            out.append(V("chain_must_succeed", f"chain|raises:{type(res.exc).__name__}|{grp}", case, f"step {i} succeeds", res.describe()))
            return out, "chain:raise", True
        h = res.value
        cur = kept
        o = call(observe, h)
        if not o.ok:
            out.append(V("chain", f"chain|unreadable:{type(o.exc).__name__}|{grp}", case, "readable result", o.describe()))
            return out, "chain:unreadable", True
        hobs = o.value
        probs = compare(hobs, expected_marginal(pobs, cur), pobs["total"])
        if probs:
            for field, e, ob in probs:
                out.append(V("chain_is_marginal", f"chain|{field}|{grp}", case, {"step": i, field: e}, ob))
            return out, "chain:wrong", True
    final = cur
    # differential: projecting once onto the final axes
    dres = call(parent.projection, *final)
    if not dres.ok:
        out.append(V("marginal", f"marginal|raises:{exc_sig(dres.exc)}|{grp}|any", case, "the marginal histogram", dres.describe()))
    else:
        do = call(observe, dres.value)
        if not do.ok:
            out.append(V("marginal", f"marginal|unreadable:{exc_sig(do.exc)}|{grp}|any", case, "readable", do.describe()))
        else:
            for k, field in (("shape", "shape"), ("freq", "frequencies"), ("err", "errors2"), ("bins", "bins"), ("names", "axis_names"), ("total", "total")):
                if not (hobs[k] == do.value[k]):
                    out.append(V("chain_equals_direct", f"chain_vs_direct|{field}|{grp}", case, {"direct": do.value[k]}, {"chain": hobs[k]}))
    out += frame(parent, before, case, "chain", grp)
    return out, f"chain:len={len(steps)}:->{len(final)}", True


def transpose_flat(flat, shape):
    n, m = shape
    return [flat[i * m + j] for j in range(m) for i in range(n)]


def eval_T(case):
    ps = case["parent"]
    parent = build_parent(ps)
    grp = group(ps)
    out = []
    h = parent
    via = case.get("via")
    if via:
        pobs = observe(parent)
        kept = sorted(resolve(via, list(range(pobs["ndim"])), list(pobs["names"])))
        vs, _, got = marginal_violations(parent, pobs, via, kept, case, grp)
        if vs:
            return vs, "T:projection-fails", True
        h = got[0]
    if not hasattr(type(h), "T"):
        return out, "T:not-available:" + type(h).__name__, False
    before = snap(h)
    hobs = observe(h)
    missed0 = fl(h.missed)
    res = call(lambda: h.T)
    if not res.ok:
        return [V("T_must_succeed", f"T|raises:{exc_sig(res.exc)}", case, "transposed histogram", res.describe())], "T:raise", True
    t = res.value
    o = call(observe, t)
    if not o.ok:
        return [V("T", f"T|unreadable:{exc_sig(o.exc)}", case, "readable", o.describe())], "T:unreadable", True
    tobs = o.value
    shape = hobs["shape"]
    exp = {
        "ndim": 2,
        "shape": (shape[1], shape[0]),
        "freq": [frac(x) for x in transpose_flat(hobs["freq"], shape)],
        "err": [frac(x) for x in transpose_flat(hobs["err"], shape)],
        "bins": [hobs["bins"][1], hobs["bins"][0]],
        "names": (hobs["names"][1], hobs["names"][0]),
        "total": sum((frac(x) for x in hobs["freq"]), Fraction(0)),
    }
    for field, e, ob in compare(tobs, exp, hobs["total"]):
        out.append(V("T_swaps", f"T|{field}", case, e, ob))
    res2 = call(lambda: t.T)
    if not res2.ok:
        out.append(V("T_must_succeed", f"TT|raises:{exc_sig(res2.exc)}", case, "T.T", res2.describe()))
    else:
        tt = res2.value
        o2 = call(observe, tt)
        if not o2.ok:
            out.append(V("TT", f"TT|unreadable:{exc_sig(o2.exc)}", case, "readable", o2.describe()))
        else:
            ttobs = o2.value
            bad = [k for k in ("shape", "eshape", "freq", "err", "bins", "names") if ttobs[k] != hobs[k]]
            if not (ttobs["total"] == hobs["total"]):
                bad.append("total")
            m = call(lambda: fl(tt.missed))
            if not m.ok or m.value != missed0:
                bad.append("missed")
            for k in bad:
                out.append(V("TT_is_original", f"TT|{k}", case, hobs.get(k, missed0), ttobs.get(k, m.value if m.ok else m.describe())))
            if not bad:
                eq = call(lambda: tt == h)
                if not eq.ok or not bool(eq.value):
                    out.append(V("TT_is_original", "TT|eq_operator", case, "h.T.T == h is True", eq.describe()))
    after = snap(h)
    if after != before:
        out.append(V("parent_unchanged", f"parent_modified|T|{'+'.join(sorted(diff(before, after)))}", case, "unchanged", diff(before, after)))
    return out, "T:" + type(t).__name__, True


def _acc_compare(pobs, robs, axis):
    probs = []
    if robs["ndim"] != pobs["ndim"] or robs["shape"] != pobs["shape"] or robs["eshape"] != pobs["shape"]:
        return [("shape", pobs["shape"], [robs["shape"], robs["eshape"]])], "?"
    want = _cumulative(tuple(pobs["freq"]), pobs["shape"], axis)
    if not exact_list(robs["freq"], want):
        probs.append(("frequencies", [float(x) for x in want], robs["freq"]))
    elabel = "untouched"
    if robs["err"] != pobs["err"]:
        wante = _cumulative(tuple(pobs["err"]), pobs["shape"], axis)
        elabel = "accumulated"
        if not exact_list(robs["err"], wante):
            probs.append(("errors2", {"either": [pobs["err"], [float(x) for x in wante]]}, robs["err"]))
            elabel = "other"
    if robs["bins"] != pobs["bins"]:
        probs.append(("bins", pobs["bins"], robs["bins"]))
    if robs["names"] != pobs["names"]:
        probs.append(("axis_names", pobs["names"], robs["names"]))
    return probs, elabel


def eval_acc(case):
    ps = case["parent"]
    parent = build_parent(ps)
    grp = group(ps)
    before = snap(parent)
    pobs = observe(parent)
    axis_spec = case["axis"]
    axis = resolve([axis_spec], list(range(pobs["ndim"])), list(pobs["names"]))[0]
    out = []
    res = call(parent.accumulate, axis_spec)
    label = "acc:"
    if not res.ok:
        out.append(V("accumulate_must_succeed", f"accumulate|raises:{exc_sig(res.exc)}|{grp}", case, "cumulative histogram", res.describe()))
        label += "raise"
    else:
        o = call(observe, res.value)
        if not o.ok:
            out.append(V("accumulate", f"accumulate|unreadable:{exc_sig(o.exc)}|{grp}", case, "readable", o.describe()))
        else:
            probs, elabel = _acc_compare(pobs, o.value, axis)
            label += "errors2=" + elabel
            if probs:
                # does the result look like the accumulation along another axis?
                other = [a for a in range(pobs["ndim"]) if a != axis and exact_list(o.value["freq"], _cumulative(tuple(pobs["freq"]), pobs["shape"], a))] if o.value["shape"] == pobs["shape"] else []
                how = "wrong_axis" if other else rep_class([axis_spec])
                for field, e, ob in probs:
                    out.append(V("accumulate", f"accumulate|{field}|{grp}|{how}", case, e, ob))
    out += frame(parent, before, case, "accumulate", grp)
    return out, label, pobs["shape"][axis] > 1


def eval_invalid(case):
    ps = case["parent"]
    parent = build_parent(ps)
    grp = group(ps)
    before = snap(parent)
    pobs = observe(parent)
    op = case["op"]
    axes = [dec(a) for a in case["axes"]]
    expect = case["expect"]
    why = case["why"]
    out = []
    res = call(getattr(parent, op), *axes)
    if expect == MUST_RAISE:
        if res.ok:
            out.append(V("must_raise", f"must_raise|{op}|{why}|{grp}", case, "refused (any exception)", res.describe()))
        label = f"{op}:{why}:" + ("accepted" if res.ok else "refused:" + type(res.exc).__name__)
    else:
        label = f"{op}:{why}:" + ("accepted" if res.ok else "refused:" + type(res.exc).__name__)
        if res.ok:
            equiv = case["equiv"]
            o = call(observe, res.value)
            if not o.ok:
                out.append(V("either_correct", f"either|{op}|{why}|unreadable|{grp}", case, "readable", o.describe()))
            elif op == "projection":
                probs = compare(o.value, expected_marginal(pobs, equiv), pobs["total"])
                if probs:
                    cprobs, _, _ = _project_and_compare(parent, pobs, list(equiv), equiv)
                    for field, e, ob in probs:
                        # if the ordinary request for these axes is wrong as well, it is the plain marginal failure
                        sig = f"marginal|{field}|{grp}|any" if cprobs else f"either|{op}|{why}|{field}|{grp}"
                        out.append(V("either_correct", sig, case, e, ob))
            else:
                probs, _ = _acc_compare(pobs, o.value, equiv[0])
                for field, e, ob in probs:
                    out.append(V("either_correct", f"either|{op}|{why}|{field}|{grp}", case, e, ob))
    out += frame(parent, before, case, f"{op}-{why}", grp)
    return out, label, True


# --- data-driven ---------------------------------------------------------------------------------

DATA_CFGS = {
    "d2": {
        "pairs": [[(0.0, 1.0), (1.0, 2.0)], [(10.0, 11.0), (12.0, 13.0), (13.0, 15.0)]],
        "alphabet": [[0.5, 1.5, 5.0], [10.5, 14.0, 11.5, 20.0]],
        "nanrows": [[NAN, 10.5], [0.5, NAN]],
        "names": ["x", "y"],
    },
    "d3": {
        "pairs": [[(0.0, 0.5), (0.5, 2.0), (2.0, 3.0)], [(10.0, 14.0)], [(20.0, 21.0), (22.0, 23.0)]],
        "alphabet": [[0.25, 2.5, -1.0], [12.0, 15.0], [20.5, 22.5, 21.5]],
        "nanrows": [[0.25, NAN, 20.5]],
        "names": ["q", "b", "z"],
    },
    "d4": {
        "pairs": [[(0.0, 1.0), (1.0, 2.0)], [(10.0, 10.5), (10.5, 12.0), (12.0, 13.0)], [(20.0, 22.0)], [(30.0, 31.0), (31.0, 32.0)]],
        "alphabet": [[0.5, 5.0], [10.25, 12.5, 19.0], [21.0, 29.0], [30.5, 31.5]],
        "nanrows": [[0.5, 10.25, 21.0, NAN]],
        "names": ["x", "y", "z", "t"],
    },
}


def jrow(r):
    return ["nan" if (isinstance(x, float) and math.isnan(x)) else x for x in r]


def unjrow(r):
    return [NAN if x == "nan" else float(x) for x in r]


def data_points(cfg):
    c = DATA_CFGS[cfg]
    return [list(p) for p in itertools.product(*c["alphabet"])] + [list(r) for r in c["nanrows"]]


def inside(x, pairs):
    if math.isnan(x):
        return False
    return any(l <= x < r for l, r in pairs) or x == pairs[-1][1]


def weights_of(wmode, n):
    if wmode is None:
        return None
    if wmode == "int":
        return np.array([2 ** i for i in range(n)], dtype=np.int64)
    return np.array([2.0 ** -(i + 1) for i in range(n)], dtype=np.float64)


def eval_data(case):
    from physt import h, h1, h2, h3

    c = DATA_CFGS[case["cfg"]]
    d = len(c["pairs"])
    rows = [unjrow(r) for r in case["rows"]]
    n = len(rows)
    arr = np.array(rows, dtype=float).reshape(n, d)
    w = weights_of(case.get("wmode"), n)
    kw = {} if w is None else {"weights": w}
    bins = [mk_binning(p) for p in c["pairs"]]
    names = list(c["names"])
    if d == 2:
        pres = call(h2, arr[:, 0].copy(), arr[:, 1].copy(), bins, axis_names=names, **kw)
    elif d == 3:
        pres = call(h3, arr.copy(), bins, axis_names=names, **kw)
    else:
        pres = call(h, arr.copy(), bins, axis_names=names, **kw)
    if not pres.ok:
        # constructing the parent is C02's business
        return [], "data:parent-construction-raises:" + type(pres.exc).__name__, False
    parent = pres.value
    before = snap(parent)
    pobs = observe(parent)
    axes = case["axes"]
    kept = sorted(resolve(axes, list(range(d)), names))
    dropped = [a for a in range(d) if a not in kept]
    out, _, got = marginal_violations(parent, pobs, axes, kept, case, "plain")
    if out:
        return out, "data:projection-fails", True
    pobs1 = got[1]
    hit_all_dropped = all(inside(r[a], c["pairs"][a]) for r in rows for a in dropped)
    label = "data:some-row-missed-a-dropped-axis"
    if hit_all_dropped:
        kbins = [mk_binning(c["pairs"][a]) for a in kept]
        knames = [names[a] for a in kept]
        if len(kept) == 1:
            dres = call(h1, arr[:, kept[0]].copy(), kbins[0], axis_name=knames[0], **kw)
        else:
            dres = call(h, arr[:, kept].copy(), kbins, axis_names=knames, **kw)
        flt = ""
        if not dres.ok and len(kept) == 1:
            # known C01 finding: h1 on non-consecutive bins with an integer dtype raises; build the same histogram with float contents
            dres = call(h1, arr[:, kept[0]].copy(), kbins[0], axis_name=knames[0], dtype=float, **kw)
            flt = "(float dtype)"
        if not dres.ok:
            label = "data:direct-construction-raises:" + type(dres.exc).__name__
        else:
            do = call(observe, dres.value)
            if not do.ok:
                label = "data:direct-unreadable"
            else:
                dobs = do.value
                label = "data:compared-with-direct" + flt
                for k, field in (("shape", "shape"), ("freq", "frequencies"), ("err", "errors2"), ("bins", "bins"), ("names", "axis_names"), ("total", "total")):
                    a, b = pobs1[k], dobs[k]
                    if not (a == b):
                        out.append(V("equals_direct", f"direct|{field}|k={len(kept)}", case, {"direct": b}, {"projection": a}))
    out += frame(parent, before, case, "projection", "plain")
    return out, label, n > 0


def eval_narrow(case):
    """Marginals of narrow-dtype parents: every cell fits the dtype, the sums over dropped axes do not.
    'contents ... are the sums over all dropped axes' / 'its total equals the parent's total' - exactly, never wrapped."""
    import itertools as _it

    from physt.types import Histogram2D, HistogramND

    shape = tuple(case["shape"])
    dt = np.dtype(case["dtype"])
    value = case["value"]
    d = len(shape)
    binnings = [np.arange(n + 1, dtype=float) for n in shape]
    freq = np.full(shape, value, dtype=dt)
    klass = Histogram2D if d == 2 else HistogramND
    kw = {} if d == 2 else {"dimension": d}
    parent = klass(binnings, freq, dtype=dt, **kw)
    axes = case["axes"]
    res = call(lambda: parent.projection(*axes))
    out = []
    sig = f"narrow|{dt.name}|k={len(axes)}"
    if not res.ok:
        out.append(V("must_succeed", f"{sig}|raises|{type(res.exc).__name__}", case, "the marginal histogram", res.describe()))
        return out, "raise", True
    r = res.value
    dropped = 1
    for a in range(d):
        if a not in axes:
            dropped *= shape[a]
    want = value * dropped
    got = [int(x) for x in np.asarray(r.frequencies).ravel().tolist()]
    if any(g != want for g in got):
        out.append(V("marginal", f"{sig}|frequencies", case, want, got))
    gote = [float(x) for x in np.asarray(r.errors2).ravel().tolist()]
    if any(g != want for g in gote):
        out.append(V("marginal", f"{sig}|errors2", case, want, gote))
    ptotal = value * int(np.prod(shape))
    if r.total != ptotal:
        out.append(V("total_preserved", f"{sig}|total", case, ptotal, r.total))
    return out, "ok", True


def eval_np_axes(case):
    """Axis indices of numpy integer types (np.argmax(h.shape), np.arange(h.ndim)[i]) select the same axes as the ints."""
    from physt import h2, h3

    d, axes, tname, op = case["d"], case["axes"], case["itype"], case["op"]
    pts = np.array([[0.5] * d, [1.5] * d, [0.5, 1.5, 0.5][:d], [1.5, 0.5, 1.5][:d]])
    edges = [np.array([0.0, 1.0, 2.0]) for _ in range(d)]
    parent = h2(pts[:, 0], pts[:, 1], edges) if d == 2 else h3(pts, edges)
    t = np.dtype(tname).type
    npax = [t(a) for a in axes]
    if op == "projection":
        want = call(lambda: parent.projection(*axes))
        got = call(lambda: parent.projection(*npax))
    else:
        want = call(lambda: parent.accumulate(axes[0]))
        got = call(lambda: parent.accumulate(npax[0]))
    sig = f"np_axes|{op}|{tname}"
    if not want.ok:
        return []
    if not got.ok:
        return [V("must_succeed", f"{sig}|{type(got.exc).__name__}", case, "the same as with int indices", got.describe())]
    if snap(got.value) != snap(want.value):
        return [V("marginal", f"{sig}|differs", case, "the same as with int indices", diff(snap(want.value), snap(got.value)))]
    return []


def eval_reproject(case):
    """projection, then more data entered (fill / fill_n / +=), then the SAME projection again: it must be the marginal
    of the current contents (nothing cached), and the first result must not have changed."""
    from physt import h2, h3

    d = case["d"]
    how = case["how"]
    axes = case["axes"]
    base = np.array([[0.5] * d, [1.5] * d, [0.5, 1.5, 0.5][:d]])
    edges = [np.array([0.0, 1.0, 2.0]) for _ in range(d)]
    cls = case.get("cls", "plain")
    if cls == "plain":
        parent = h2(base[:, 0], base[:, 1], edges) if d == 2 else h3(base, edges)
    else:
        from physt import special_histograms as sh

        maker = {"polar": sh.polar, "cylindrical": sh.cylindrical, "spherical": sh.spherical}[cls]
        pts = np.array([[1.0, 0.5, 0.25], [0.5, -1.0, 2.0], [-2.0, 1.0, -1.0]])[:, :d]
        parent = maker(pts if d == 3 else pts[:, 0], *([] if d == 3 else [pts[:, 1]]))
        c0 = [float((e[0] + e[-1]) / 2) for e in parent.numpy_bins]
        base = np.array([c0])
    out = []
    sig = f"reproject|{cls}|{d}D|{how}|k={len(axes)}"

    def marg(h):
        f = np.asarray(h.frequencies)
        e = np.asarray(h.errors2)
        drop = tuple(a for a in range(d) if a not in axes)
        return f.sum(axis=drop).tolist(), e.sum(axis=drop).tolist()

    r1 = call(lambda: parent.projection(*axes))
    if not r1.ok:
        return [V("must_succeed", f"{sig}|first|{type(r1.exc).__name__}", case, "a projection", r1.describe())], "raise", True
    first = (np.asarray(r1.value.frequencies).tolist(), np.asarray(r1.value.errors2).tolist())
    if first != marg(parent):
        out.append(V("marginal", f"{sig}|first", case, marg(parent), first))
    more = np.array([[1.5] * d, [0.5] * d])
    if cls != "plain":
        # points given in the histogram's own coordinates (bin centres), entered as already transformed
        more = np.array([[float((e[0, 0] + e[0, 1]) / 2) for e in parent.bins], [float((e[-1, 0] + e[-1, 1]) / 2) for e in parent.bins]])
        if how == "fill":
            for row in more:
                parent.fill(row, 2, transformed=True)
        elif how == "fill_n":
            parent.fill_n(more, transformed=True)
        elif how == "fill_cartesian":
            parent.fill(np.array([0.3, 0.4, 0.5][:d]))
        elif how == "fill_n_cartesian":
            parent.fill_n(np.array([[0.3, 0.4, 0.5][:d], [-0.5, 0.2, 0.1][:d]]))
    if cls != "plain" and how.startswith("fill"):
        pass
    elif how == "fill":
        for row in more:
            parent.fill(row, 2)
    elif how == "fill_n":
        parent.fill_n(more)
    elif how == "iadd":
        parent += parent.copy()
    else:
        parent *= 3
    r2 = call(lambda: parent.projection(*axes))
    if not r2.ok:
        out.append(V("must_succeed", f"{sig}|second|{type(r2.exc).__name__}", case, "a projection", r2.describe()))
        return out, "raise", True
    second = (np.asarray(r2.value.frequencies).tolist(), np.asarray(r2.value.errors2).tolist())
    if second != marg(parent):
        out.append(V("marginal", f"{sig}|second_stale", case, marg(parent), second))
    if (np.asarray(r1.value.frequencies).tolist(), np.asarray(r1.value.errors2).tolist()) != first:
        out.append(V("projection_independent", f"{sig}|first_changed", case, first, np.asarray(r1.value.frequencies).tolist()))
    return out, "ok", True


EVAL = {"proj": eval_proj, "chain": eval_chain, "T": eval_T, "acc": eval_acc, "invalid": eval_invalid, "data": eval_data,
        "narrow": eval_narrow, "reproject": eval_reproject,
        "np_axes": lambda case: (eval_np_axes(case), "np_axes", True)}


def evaluate(case):
    return EVAL[case["kind"]](case)


def replay(case):
    return evaluate(case)[0]


# ---------------------------------------------------------------------------------------------
# enumeration
# ---------------------------------------------------------------------------------------------


def shapes_for(d, maxbins):
    out = []
    for s in itertools.product(range(1, maxbins + 1), repeat=d):
        if int(np.prod(s)) <= MAXCELLS:
            out.append(list(s))
    # the asymmetric shapes of the design first
    first = [s for s in ([2, 3], [3, 1, 2], [2, 3, 1, 2], [3, 2, 2, 1]) if s in out]
    return first + [s for s in out if s not in first]


def pairings(thorough):
    if thorough:
        return [(n, b) for n in NAMESETS for b in ("A", "B")]
    return [("xyzt", "A"), ("scr", "B"), ("num", "A")]


def parent_specs(cls, shape, thorough, contents=CONTENTS):
    for content in contents:
        if not content_ok(content, shape):
            continue
        for names, bins in pairings(thorough):
            yield {"cls": cls, "shape": list(shape), "content": content, "names": names, "bins": bins}


def transformed_specs():
    for tag, (cname, d, names) in TRANSFORMED.items():
        for shape in ([[2, 3], [3, 1], [1, 2]] if d == 2 else [[3, 1, 2], [2, 3, 2], [1, 2, 3]]):
            for content in ("int", "float", "noerr"):
                for bins in ("A", "B"):
                    yield {"cls": tag, "shape": shape, "content": content, "names": "default", "bins": bins}


def parent_names(ps):
    d = len(ps["shape"])
    if ps["cls"] in TRANSFORMED:
        cname, dd, names = TRANSFORMED[ps["cls"]]
        if names:
            return list(names)
        from physt import special_histograms as S

        return list(getattr(S, cname).default_axis_names)[:d]
    return NAMESETS[ps["names"]][:d]


def chain_steps(cur, names, full, depth=0):
    """All chains (lists of specs) of length >= 1 starting from an histogram with original axes `cur`."""
    for T in proper_subsets(cur):
        for spec in spec_variants(T, cur, names, full):
            yield [spec]
            if len(T) > 1:
                for rest in chain_steps(list(T), names, full, depth + 1):
                    yield [spec] + rest


def invalid_cases(ps):
    """(op, axes, expect, why, equiv) for one parent."""
    d = len(ps["shape"])
    names = parent_names(ps)
    P = "projection"
    out = []
    out.append((P, [], MUST_RAISE, "empty", None))
    for ax in (["nope"], [names[0], "nope"], ["nope", 0], [names[0].upper() + "_"], [""], [0, "axis7"]):
        out.append((P, ax, MUST_RAISE, "unknown_name", None))
    for ax in ([d], [d + 3], [0, d], [d, 0], [names[1], d]):
        out.append((P, ax, MUST_RAISE, "index_out_of_range", None))
    out.append((P, [-d - 1], MUST_RAISE, "index_out_of_range", None))
    for ax in ([0, 0], [1, 1], [0, names[0]], [names[1], 1], [names[0], names[0]], [0, 1, 0], [1, 0, 1], [names[0], 1, names[0]]):
        out.append((P, ax, MUST_RAISE, "duplicate", None))
    out.append((P, list(range(d)) + [0], MUST_RAISE, "duplicate", None))
    out.append((P, [-1, d - 1], MUST_RAISE, "duplicate", None))
    for ax in ([None], [0, None], [1.5]):
        out.append((P, ax, MUST_RAISE, "not_an_axis", None))
    # one list argument instead of separate axes: refused today, a correct marginal would not contradict the statement
    out.append((P, [[0]], EITHER, "list_argument", [0]))
    # may be refused; when accepted the result has to be the right marginal
    for k in range(1, d + 1):
        out.append((P, [-k], EITHER, "negative_index", [d - k]))
    if d >= 3:
        out.append((P, [0, -1], EITHER, "negative_index", [0, d - 1]))
    out.append((P, [{"np": "int64", "v": 0}], EITHER, "numpy_integer", [0]))
    out.append((P, [{"np": "int32", "v": 1}, 0], EITHER, "numpy_integer", [0, 1]))
    out.append((P, [True], EITHER, "bool", [1]))
    for perm in itertools.permutations(range(d)):
        for rep in ((0,) * d, (1,) * d, tuple(i % 2 for i in range(d))):
            out.append((P, [names[a] if r else a for a, r in zip(perm, rep)], EITHER, "all_axes", list(range(d))))
    Acc = "accumulate"
    for ax, why in (("nope", "unknown_name"), (d, "index_out_of_range"), (d + 2, "index_out_of_range"), (-d - 1, "index_out_of_range"), (None, "not_an_axis"), (0.5, "not_an_axis")):
        out.append((Acc, [ax], MUST_RAISE, why, None))
    out.append((Acc, [], MUST_RAISE, "empty", None))
    out.append((Acc, [-1], EITHER, "negative_index", [d - 1]))
    out.append((Acc, [{"np": "int64", "v": 0}], EITHER, "numpy_integer", [0]))
    return out


def chunks(lst, n):
    k = max(1, math.ceil(len(lst) / n))
    return [lst[i:i + k] for i in range(0, len(lst), k)]


def units(tier, seed):
    thorough = tier == "thorough"
    maxb = 4 if thorough else 3
    us = []
    # (1) single projections
    us.append({"kind": "proj", "cls": ["H2D", "ND"], "shapes": shapes_for(2, 4)})
    for part in chunks(shapes_for(3, maxb), 6 if thorough else 3):
        us.append({"kind": "proj", "cls": ["ND"], "shapes": part})
    for part in chunks(shapes_for(4, maxb), 64 if thorough else 20):
        us.append({"kind": "proj", "cls": ["ND"], "shapes": part})
    us.append({"kind": "transformed"})
    # (2) chains
    for part in chunks(shapes_for(3, maxb), 6 if thorough else 3):
        us.append({"kind": "chain", "shapes": part, "full": True, "contents": ["int", "float", "sparse"]})
    shapes4 = shapes_for(4, 3) if thorough else DESIGN4
    for shape in shapes4:
        design = shape in DESIGN4
        for content in (("int", "float") if design else ("int",)):
            for names, bins in ([("xyzt", "A"), ("num", "B")] if design else [("scr", "B")]):
                ps = {"cls": "ND", "shape": shape, "content": content, "names": names, "bins": bins}
                for first in (range(5) if design else [-1]):
                    us.append({"kind": "chain4", "parent": ps, "first": first, "full": bool(thorough and design)})
    # (3) T, accumulate, invalid
    us.append({"kind": "T2"})
    for part in chunks(shapes_for(3, maxb) + shapes_for(4, maxb), 40 if thorough else 6):
        us.append({"kind": "Tvia+acc", "shapes": part})
    us.append({"kind": "invalid"})
    us.append({"kind": "narrow"})
    us.append({"kind": "reproject"})
    us.append({"kind": "np_axes"})
    # (6) data-driven
    for wmode in (None, "int", "float"):
        us.append({"kind": "data", "cfg": "d2", "wmode": wmode, "L": 3, "part": 0, "nparts": 1})
        n3 = 12 if thorough else 1
        for part in range(n3):
            us.append({"kind": "data", "cfg": "d3", "wmode": wmode, "L": 3 if thorough else 2, "part": part, "nparts": n3})
    for wmode in ((None, "int", "float") if thorough else (None, "float")):
        for part in range(3):
            us.append({"kind": "data", "cfg": "d4", "wmode": wmode, "L": 2, "part": part, "nparts": 3})
    # cheap and structurally different units first, the big 4D sweeps last (what a time cap would cut)
    order = ["invalid", "narrow", "reproject", "np_axes", "T2", "transformed", "proj2", "proj3", "chain", "datad2", "chain4", "datad3", "Tvia+acc", "proj4", "datad4"]

    def prio(u):
        k = u["kind"]
        if k == "proj":
            k += str(len(u["shapes"][0]))
        elif k == "data":
            k += u["cfg"]
        return order.index(k)

    us.sort(key=prio)
    return us


class Runner:
    def __init__(self, p, ctx, what):
        self.p = p
        self.ctx = ctx
        self.what = what
        self.n = 0
        self.stop = False

    def __call__(self, case, sample_at=(7,)):
        if self.stop:
            return
        self.n += 1
        if (self.n & 127) == 0 and self.ctx.expired():
            self.p.capped = True
            self.p.notes.append(f"{self.what}: stopped after {self.n} cases")
            self.stop = True
            return
        vs, label, nontrivial = evaluate(case)
        self.p.ev(nontrivial)
        self.p.count(case["kind"])
        self.p.outcome(label)
        self.p.extend(vs)
        if self.n in sample_at:
            self.p.sample(case)


def run_unit(unit, ctx):
    p = Partial()
    kind = unit["kind"]
    thorough = ctx.thorough
    run = Runner(p, ctx, f"{kind} {unit.get('shapes', unit.get('parent', ''))!s:.60}")
    if kind == "np_axes":
        import itertools as _it

        case = None
        for d in (2, 3):
            for k in range(1, d):
                for axes in _it.permutations(range(d), k):
                    for tname in ("int64", "int32", "uint8", "intp"):
                        for op in ("projection", "accumulate"):
                            if op == "accumulate" and k != 1:
                                continue
                            case = {"kind": "np_axes", "d": d, "axes": list(axes), "itype": tname, "op": op}
                            vs = eval_np_axes(case)
                            p.ev(True)
                            p.outcome("np_axes:" + op)
                            p.extend(vs)
        p.sample(case)
        return p
    if kind == "reproject":
        import itertools as _it

        for d in (2, 3):
            for k in range(1, d):
                for axes in _it.permutations(range(d), k):
                    for cls in ("plain",) + (("polar",) if d == 2 else ("cylindrical", "spherical")):
                        hows = ("fill", "fill_n", "iadd", "imul") + (() if cls == "plain" else ("fill_cartesian", "fill_n_cartesian"))
                        for how in hows:
                            case = {"kind": "reproject", "d": d, "axes": list(axes), "how": how, "cls": cls}
                            vs, label, nt = evaluate(case)
                            p.ev(True)
                            p.outcome(f"reproject:{cls}:{label}")
                            p.extend(vs)
        p.sample(case)
        return p
    if kind == "narrow":
        import itertools as _it

        for dtype, value in (("int16", 20000), ("int32", 1500000000), ("int16", 1), ("int32", 7)):
            for shape in ((2, 3), (3, 2), (2, 2, 2), (3, 1, 2), (2, 3, 1, 2)):
                d = len(shape)
                for k in range(1, d):
                    for axes in _it.combinations(range(d), k):
                        case = {"kind": "narrow", "dtype": dtype, "value": value, "shape": list(shape), "axes": list(axes)}
                        vs, label, nt = evaluate(case)
                        p.ev(True)
                        p.outcome(f"narrow:{dtype}:{label}")
                        p.extend(vs)
        p.sample(case)
        return p
    if kind == "proj":
        for shape in unit["shapes"]:
            d = len(shape)
            for cls in unit["cls"]:
                contents = CONTENTS
                for ps in parent_specs(cls, shape, thorough, contents):
                    names = parent_names(ps)
                    cur = list(range(d))
                    for T in proper_subsets(cur):
                        for spec in spec_variants(T, cur, names, True):
                            run({"kind": "proj", "parent": ps, "axes": spec}, sample_at=(11, 1001))
                            if run.stop:
                                return p
    elif kind == "transformed":
        for ps in transformed_specs():
            names = parent_names(ps)
            d = len(ps["shape"])
            cur = list(range(d))
            for steps in chain_steps(cur, names, True):
                if len(steps) == 1:
                    run({"kind": "proj", "parent": ps, "axes": steps[0]}, sample_at=(5,))
                else:
                    run({"kind": "chain", "parent": ps, "steps": steps}, sample_at=(300,))
            for a in range(d):
                run({"kind": "acc", "parent": ps, "axis": a})
                run({"kind": "acc", "parent": ps, "axis": names[a]})
            if d == 2:
                run({"kind": "T", "parent": ps})
            else:
                for T in itertools.combinations(cur, 2):
                    run({"kind": "T", "parent": ps, "via": list(T)})
            if run.stop:
                return p
    elif kind == "chain":
        for shape in unit["shapes"]:
            for ps in parent_specs("ND", shape, thorough, unit["contents"]):
                names = parent_names(ps)
                for steps in chain_steps(list(range(len(shape))), names, unit["full"]):
                    if len(steps) >= 2:
                        run({"kind": "chain", "parent": ps, "steps": steps}, sample_at=(13,))
                if run.stop:
                    return p
    elif kind == "chain4":
        ps = unit["parent"]
        names = parent_names(ps)
        cur = [0, 1, 2, 3]
        triples = list(itertools.combinations(cur, 3))
        pairs = list(itertools.combinations(cur, 2))
        firsts = (triples + pairs) if unit["first"] < 0 else [triples[unit["first"]]] if unit["first"] < 4 else pairs
        for T in firsts:
            for spec in spec_variants(T, cur, names, unit["full"]):
                for rest in chain_steps(list(T), names, unit["full"]):
                    run({"kind": "chain", "parent": ps, "steps": [spec] + rest}, sample_at=(17,))
                if run.stop:
                    return p
    elif kind == "T2":
        for shape in shapes_for(2, 4):
            for ps in parent_specs("H2D", shape, True):
                run({"kind": "T", "parent": ps}, sample_at=(3,))
                names = parent_names(ps)
                for a in range(2):
                    run({"kind": "acc", "parent": ps, "axis": a})
                    run({"kind": "acc", "parent": ps, "axis": names[a]})
            for ps in parent_specs("ND", shape, False, ["int", "float"]):
                names = parent_names(ps)
                run({"kind": "T", "parent": ps})
                for a in range(2):
                    run({"kind": "acc", "parent": ps, "axis": a})
                    run({"kind": "acc", "parent": ps, "axis": names[a]}, sample_at=(40,))
    elif kind == "Tvia+acc":
        for shape in unit["shapes"]:
            d = len(shape)
            for ps in parent_specs("ND", shape, thorough):
                names = parent_names(ps)
                cur = list(range(d))
                for T in itertools.combinations(cur, 2):
                    vias = list(spec_variants(T, cur, names, True)) if thorough else [[T[0], T[1]], [names[T[1]], names[T[0]]], [T[1], names[T[0]]]]
                    for spec in vias:
                        run({"kind": "T", "parent": ps, "via": spec}, sample_at=(9,))
                for a in range(d):
                    run({"kind": "acc", "parent": ps, "axis": a})
                    run({"kind": "acc", "parent": ps, "axis": names[a]}, sample_at=(50,))
                if run.stop:
                    return p
    elif kind == "invalid":
        parents = []
        for shape in ([2, 3], [3, 2], [1, 4], [3, 1, 2], [2, 2, 2], [2, 3, 1, 2]):
            cls_list = ["H2D", "ND"] if len(shape) == 2 else ["ND"]
            for cls in cls_list:
                for content in ("int", "float"):
                    for names, bins in pairings(False):
                        parents.append({"cls": cls, "shape": shape, "content": content, "names": names, "bins": bins})
        for tag, (cname, d, names) in TRANSFORMED.items():
            parents.append({"cls": tag, "shape": [2, 3] if d == 2 else [3, 1, 2], "content": "int", "names": "default", "bins": "A"})
        for ps in parents:
            for op, axes, expect, why, equiv in invalid_cases(ps):
                run({"kind": "invalid", "parent": ps, "op": op, "axes": axes, "expect": expect, "why": why, "equiv": equiv}, sample_at=(2, 30))
    elif kind == "data":
        cfg = unit["cfg"]
        c = DATA_CFGS[cfg]
        d = len(c["pairs"])
        names = c["names"]
        pts = data_points(cfg)
        L = unit["L"]
        datasets = []
        for n in range(min(L, 2) + 1):
            datasets.extend(itertools.product(pts, repeat=n))
        if L >= 3:
            datasets.extend(itertools.combinations_with_replacement(pts, 3))
        cur = list(range(d))
        specs = []
        for i, T in enumerate(proper_subsets(cur)):
            asc_idx = list(T)
            rev_names = [names[a] for a in reversed(T)]
            if d <= 3:
                specs += [asc_idx, rev_names]
            else:
                specs.append(asc_idx if i % 2 == 0 else rev_names)
        for data in datasets[unit["part"]::unit["nparts"]]:
            rows = [jrow(r) for r in data]
            for spec in specs:
                run({"kind": "data", "cfg": cfg, "rows": rows, "wmode": unit["wmode"], "axes": spec}, sample_at=(400,))
            if run.stop:
                return p
    else:
        raise ValueError(kind)
    return p
