"""C13 - content dtype is consistent and never loses information.

Engine E2: BFS over operation histories; state key = (dtype, exact rational contents, errors2, missed).
"""
from __future__ import annotations

import itertools
import re
from fractions import Fraction

import numpy as np

from mc import histories as H
from mc.core import Partial, V
from mc.outcome import call
from mc.refmodel import eq_exact, frac
from mc.snapshot import diff, fl, snap

ID = "C13"
LEVEL = "model_checking"
RULE = (
    "BFS over histories of depth <= D on 1D (3 bins) and 2D (2x2) histograms started in every supported dtype (int16/32/64, "
    "float16/32/64/128): fill / fill_n with no, python-int, python-float, numpy int64 / float32 / float64 weights; + - += -= with "
    "a partner histogram of every dtype (small contents, and contents beyond the int16 / float16 range); * and / by python and "
    "numpy int / float scalars; normalize, partial_normalize, merge_bins; set_dtype to every supported and several unsupported "
    "types. State = (dtype, exact rational contents, squared errors, missed). Oracles after every transition: h.dtype == "
    "frequencies.dtype == errors2.dtype; kind rules (integer counting stays integer, float weight / factor / division / "
    "normalisation give float); hist o hist == numpy.promote_types; values equal the exact rational model (nothing truncated); "
    "set_dtype accepted iff integral & in range (integer target) / in range (narrower target), otherwise refused with the "
    "snapshot unchanged; integer request with float weights refused. Plus E1 over construction (h1 / h2 / h x dtype x weights). "
    "Non-trivial: a transition that changes the dtype, mixes dtypes, or is a set_dtype."
)
ASSUMPTIONS = [
    "all values are small dyadic rationals (exact in every supported type incl. float16) or integers up to 70000",
    "numpy.promote_types is the statement's reference for histogram-histogram arithmetic",
    "normalize / partial_normalize / merge_bins end a history (their results are checked, not expanded)",
    "overflow of int16 / float16 contents by repeated filling is out of scope (DESIGN 6)",
    "a state whose values approach the precision of float16 (> 128) / float32 (> 2^18) is checked but not expanded further (arithmetic in that type rounds by nature)",
]
BOUNDS = {"quick": "depth <= 2 from 7 start dtypes x {1D, 2D} (+ depth 3 from int64 / float32)", "thorough": "depth <= 3 everywhere, 4 from int64"}
BUDGET = {"quick": 240, "thorough": 3000}

DTYPES = ["int16", "int32", "int64", "float16", "float32", "float64", "float128"]
BAD_DTYPES = ["complex64", "bool", "U3", "uint8x"]
EDGES = np.array([0.0, 1.0, 2.0, 3.0])


def exc_sig(e):
    msg = re.sub(r"[^A-Za-z ]+", "", str(e))[:40].strip()
    return f"{type(e).__name__}:{msg}"


def kind_of(dt):
    return "f" if np.dtype(dt).kind == "f" else "i"


def weight_obj(tag):
    return {"none": None, "pyint": 2, "pyfloat": 0.5, "pyfloat4": 4.0, "npint64": np.int64(3), "npfloat32": np.float32(0.5), "npfloat64": np.float64(0.25)}[tag]


def weight_is_float(tag):
    return tag in ("pyfloat", "pyfloat4", "npfloat32", "npfloat64")


SCALARS = {"py2": 2, "py0.5": 0.5, "npint64_2": np.int64(2), "npfloat32_2": np.float32(2.0), "npfloat64_0.5": np.float64(0.5), "py4": 4}
BIG = 65536  # a plain python int whose products leave the int16 / float16 range: the result must have been widened, not wrapped


# arrays assigned through the frequencies / errors2 setters: tag -> (dtype or "same" or "list", non-integral?)
ASSIGN = {"same": ("same", False), "int64": ("int64", False), "list_int": ("list", False), "float64_integral": ("float64", False),
          "float64_frac": ("float64", True), "float32_frac": ("float32", True)}


def scalar_is_int(tag):
    return tag in ("py2", "npint64_2", "py4")


class DtypeSystem(H.System):
    def __init__(self, cfg):
        self.cfg = cfg
        self.dim = cfg["dim"]
        self.start = cfg["start"]
        self.depth = cfg["depth"]
        self.nb = 3 if self.dim == 1 else 4

    # -- objects ---------------------------------------------------------------------------------
    def make(self, dtype, contents, errors2=None, missed=None):
        from physt.types import Histogram1D, Histogram2D

        dt = np.dtype(dtype)
        if self.dim == 1:
            kw = {}
            if missed:
                kw = {"underflow": missed[0], "overflow": missed[1]}
            return Histogram1D(EDGES.copy(), np.array(contents, dtype=dt), errors2=None if errors2 is None else np.array(errors2, dtype=dt), dtype=dt, **kw)
        return Histogram2D([np.array([0.0, 1.0, 2.0]), np.array([0.0, 1.0, 2.0])], np.array(contents, dtype=dt).reshape(2, 2),
                           errors2=None if errors2 is None else np.array(errors2, dtype=dt).reshape(2, 2), dtype=dt, missed=(missed or [0])[0])

    def init(self):
        c = [1, 0, 2] if self.dim == 1 else [1, 0, 2, 4]
        m = [2, 1] if self.dim == 1 else [3]
        obj = self.make(self.start, c, missed=m)
        model = {"dtype": self.start, "c": tuple(Fraction(x) for x in c), "e2": tuple(Fraction(x) for x in c),
                 "missed": tuple(Fraction(x) for x in m) + ((Fraction(0),) if self.dim == 1 else ()), "depth": 0}
        return model, obj

    def key(self, m):
        return (m["dtype"], m["c"], m["e2"], m["missed"])

    def partner(self, dtype, big=False, frac_=False):
        c = [1, 2, 0] if self.dim == 1 else [0, 1, 2, 1]
        if big:
            c = [40000, 0, 70000] if self.dim == 1 else [40000, 0, 70000, 1]
        if frac_ == "big":
            # large non-integral contents: the fraction is below any relative tolerance, an integer type must still be refused
            # (seeded C13-set-dtype-allclose-large-values)
            c = [120000.25, 0, 250000.5] if self.dim == 1 else [120000.25, 0, 250000.5, 1]
        elif frac_:
            # non-integral contents (float partners only): nothing may be truncated on the way
            c = [0.5, 0, 0.25] if self.dim == 1 else [0.5, 0, 0.25, 1.5]
        return self.make(dtype, c), c

    def ops(self, m):
        if m["depth"] >= self.depth:
            return []
        ops = []
        # "pyfloat4": an integral float weight - the contents stay integral, so a later set_dtype(int) is accepted and a
        # fractional weight after that must promote again (seeded C13-fill-weight-type-cache-survives-set-dtype)
        for w in ("none", "pyint", "pyfloat", "pyfloat4", "npint64", "npfloat32", "npfloat64"):
            ops.append(("fill", w))
        for w in ("none", "int64", "float32", "float64"):
            ops.append(("fill_n", w))
        for t in DTYPES:
            for o in ("add", "sub", "iadd", "isub"):
                ops.append((o, t))
        for t in ("float16", "float32", "float64", "float128"):
            for o in ("add_frac", "sub_frac", "iadd_frac", "isub_frac"):
                ops.append((o, t))
        ops.append(("add_big", "int64"))
        ops.append(("add_bigfrac", "float64"))
        ops.append(("iadd_bigfrac", "float64"))
        ops.append(("iadd_big", "float64"))
        for s in SCALARS:
            for o in ("mul", "imul", "div", "idiv", "rmul"):
                ops.append((o, s))
        if m["depth"] == 0:
            ops.append(("mul_big", "mul"))
            ops.append(("mul_big", "imul"))
            ops.append(("mul_big", "rmul"))
        ops.append(("normalize", False))
        ops.append(("normalize", True))
        ops.append(("merge", None))
        if self.dim == 2:
            ops.append(("partial_normalize", 0))
            ops.append(("partial_normalize_inplace", 1))
        for t in DTYPES + BAD_DTYPES:
            ops.append(("set_dtype", t))
        # direct assignment of contents / squared errors (public setters)
        for what in ("set_frequencies", "set_errors2"):
            for tag in ASSIGN:
                ops.append((what, tag))
        return ops

    def describe(self, hist, op):
        return {"config": self.cfg, "history": H.listify(hist), "op": H.listify(op)}

    def confluence_signature(self, model, a, b):
        return f"confluence|{self.dim}D|{'+'.join(sorted(diff(a, b)))}"

    def snap(self, obj):
        return snap(obj, meta=False, stats=False)

    def nontrivial(self, m, op, m2):
        return op[0] == "set_dtype" or m2 is None or m2["dtype"] != m["dtype"] or op[0].split("_")[0] in ("add", "sub", "iadd", "isub")

    # -- the oracle ------------------------------------------------------------------------------
    def consistency(self, obj):
        probs = []
        dt = np.dtype(obj.dtype)
        if obj.frequencies.dtype != dt or obj.errors2.dtype != dt:
            probs.append(("dtype_consistency", str(dt), [str(obj.frequencies.dtype), str(obj.errors2.dtype)]))
        return probs

    def values(self, obj, c, e2, missed=None):
        probs = []
        f = obj.frequencies.ravel().tolist()
        e = obj.errors2.ravel().tolist()
        if len(f) != len(c) or not all(eq_exact(o, x) for o, x in zip(f, c)):
            probs.append(("values_frequencies", [float(x) for x in c], [fl(x) for x in f]))
        if len(e) != len(e2) or not all(eq_exact(o, x) for o, x in zip(e, e2)):
            probs.append(("values_errors2", [float(x) for x in e2], [fl(x) for x in e]))
        return probs

    def step(self, m, obj, op, hist):
        name, arg = op
        sb = f"{self.dim}D|{name}"

        def mk(oracle, sig, e, o):
            return V(oracle, sig, self.describe(hist, op), e, o)

        before = self.snap(obj)
        cur = np.dtype(m["dtype"])
        c, e2, missed = list(m["c"]), list(m["e2"]), list(m["missed"])
        new_obj = None
        expect_dtype = None  # exact dtype demanded
        expect_kind = None
        expect_raise = False
        terminal = False
        inplace = True
        approx = False
        either = False
        # ---- perform
        if name == "fill":
            w = weight_obj(arg)
            v = 1.5 if self.dim == 1 else np.array([0.5, 1.5])
            idx = 1
            res = call(obj.fill, v) if w is None else call(obj.fill, v, w)
            ww = Fraction(1) if w is None else frac(float(w))
            c[idx] += ww
            e2[idx] += ww * ww
            expect_kind = "f" if (cur.kind == "f" or weight_is_float(arg)) else "i"
        elif name == "fill_n":
            vals = np.array([0.5, 2.5]) if self.dim == 1 else np.array([[0.5, 0.5], [1.5, 1.5]])
            idxs = [0, 2] if self.dim == 1 else [0, 3]
            if arg == "none":
                res = call(obj.fill_n, vals)
                ws = [Fraction(1), Fraction(1)]
            else:
                warr = np.array([1, 2], dtype=np.int64) if arg == "int64" else np.array([0.5, 0.25], dtype=arg)
                res = call(obj.fill_n, vals, warr)
                ws = [frac(float(x)) for x in warr.tolist()]
            for i, ww in zip(idxs, ws):
                c[i] += ww
                e2[i] += ww * ww
            expect_kind = "f" if (cur.kind == "f" or arg.startswith("float")) else "i"
        elif name in ("add", "sub", "iadd", "isub", "add_big", "iadd_big", "add_frac", "sub_frac", "iadd_frac", "isub_frac",
                      "add_bigfrac", "iadd_bigfrac"):
            big = name.endswith("_big")
            fr = "big" if name.endswith("_bigfrac") else name.endswith("_frac")
            base = name.replace("_bigfrac", "").replace("_big", "").replace("_frac", "")
            p, pc = self.partner(arg, big, fr)
            psnap = self.snap(p)
            pcf = [Fraction(x) for x in pc]
            if base in ("add", "iadd"):
                c = [a + b for a, b in zip(c, pcf)]
            else:
                c = [a - b for a, b in zip(c, pcf)]
                if any(x < 0 for x in c):
                    expect_raise = True
            e2 = [a + b for a, b in zip(e2, pcf)]
            if base == "add":
                res = call(lambda: obj + p)
                inplace = False
            elif base == "sub":
                res = call(lambda: obj - p)
                inplace = False
            elif base == "iadd":
                def f():
                    o = obj
                    o += p
                    return o
                res = call(f)
            else:
                def f():
                    o = obj
                    o -= p
                    return o
                res = call(f)
            expect_dtype = np.promote_types(cur, np.dtype(arg))
            if res.ok and self.snap(p) != psnap:
                return None, [mk("operand_untouched", f"partner_modified|{sb}", "partner unchanged", diff(psnap, self.snap(p)))], False
        elif name in ("mul", "imul", "div", "idiv", "rmul"):
            s = SCALARS[arg]
            fs = frac(float(s))
            if name in ("mul", "imul", "rmul"):
                c = [x * fs for x in c]
                e2 = [x * fs * fs for x in e2]
                missed = [x * fs for x in missed]
                expect_kind = "i" if (cur.kind != "f" and scalar_is_int(arg)) else "f"
            else:
                c = [x / fs for x in c]
                e2 = [x / (fs * fs) for x in e2]
                missed = [x / fs for x in missed]
                expect_kind = "f"
            if name == "mul":
                res = call(lambda: obj * s)
                inplace = False
            elif name == "rmul":
                res = call(lambda: s * obj)
                inplace = False
            elif name == "div":
                res = call(lambda: obj / s)
                inplace = False
            elif name == "imul":
                def f():
                    o = obj
                    o *= s
                    return o
                res = call(f)
            else:
                def f():
                    o = obj
                    o /= s
                    return o
                res = call(f)
        elif name == "mul_big":
            fs = Fraction(BIG)
            c = [x * fs for x in c]
            e2 = [x * fs * fs for x in e2]
            missed = [x * fs for x in missed]
            expect_kind = "f" if cur.kind == "f" else "i"
            terminal = True
            if cur.kind == "f" and cur.itemsize < 8:
                approx = True  # float16 / float32 starts: only dtype rules (the products exceed their precision / range)
            if arg == "mul":
                res = call(lambda: obj * BIG)
                inplace = False
            elif arg == "rmul":
                res = call(lambda: BIG * obj)
                inplace = False
            else:
                def f():
                    o = obj
                    o *= BIG
                    return o
                res = call(f)
        elif name == "normalize":
            if sum(c) == 0:
                return None, [], False
            res = call(obj.normalize, inplace=arg)
            inplace = arg
            expect_kind = "f"
            terminal = approx = True
        elif name in ("partial_normalize", "partial_normalize_inplace"):
            res = call(obj.partial_normalize, arg, inplace=name.endswith("inplace"))
            inplace = name.endswith("inplace")
            expect_kind = "f"
            terminal = approx = True
        elif name == "merge":
            res = call(obj.merge_bins, 2, axis=0)
            inplace = False
            terminal = True
            expect_dtype = cur
            if self.dim == 1:
                c = [c[0] + c[1], c[2]]
                e2 = [e2[0] + e2[1], e2[2]]
            else:
                c = [c[0] + c[2], c[1] + c[3]]
                e2 = [e2[0] + e2[2], e2[1] + e2[3]]
        elif name in ("set_frequencies", "set_errors2"):
            dt_tag, fractional = ASSIGN[arg]
            n = len(c)
            newv = ([0.5, 0.25, 2.0, 1.5] if fractional else [3, 1, 0, 2])[:n]
            if dt_tag == "list":
                value = newv if self.dim == 1 else [newv[:2], newv[2:]]
            else:
                value = np.array(newv, dtype=cur if dt_tag == "same" else np.dtype(dt_tag))
                if dt_tag == "same" and cur.kind != "f":
                    pass
                if self.dim == 2:
                    value = value.reshape(2, 2)
            if dt_tag == "same" and fractional:
                raise ValueError("no such case")
            attr = "frequencies" if name == "set_frequencies" else "errors2"
            res = call(lambda: setattr(obj, attr, value))
            if name == "set_frequencies":
                c = [frac(float(x)) for x in newv]
            else:
                e2 = [frac(float(x)) for x in newv]
            # the statement fixes neither the resulting dtype nor whether a value of another kind is taken at all
            # (a refusal that changes nothing is as good as a promotion): judged are consistency and exact values
            either = dt_tag != "same"
            if fractional or cur.kind == "f":
                expect_kind = "f"
        elif name == "set_dtype":
            try:
                target = np.dtype(arg)
                supported = target.kind in "iuf"
            except TypeError:
                target, supported = None, False
            if not supported:
                expect_raise = True
            else:
                allv = c + e2
                if target.kind in "iu":
                    info = np.iinfo(target)
                    ok = all(x.denominator == 1 and info.min <= x <= info.max for x in allv)
                else:
                    info = np.finfo(target)
                    fmax = float(info.max)  # inf for float128: everything fits
                    ok = fmax == float("inf") or all(abs(x) <= frac(fmax) for x in allv)
                expect_raise = not ok
                expect_dtype = target
                if ok and target.kind == "f" and target.itemsize < 8:
                    # a narrower float type is accepted when the values are in range: they are rounded to it
                    rnd = lambda x: frac(float(target.type(float(x))))  # noqa: E731
                    c = [rnd(x) for x in c]
                    e2 = [rnd(x) for x in e2]
                    missed = [rnd(x) for x in missed]
            res = call(obj.set_dtype, arg)
        else:
            raise ValueError(name)

        # ---- judge
        vs = []
        if expect_raise:
            if res.ok:
                after_dt = res.value.dtype if (not inplace and hasattr(res.value, "dtype")) else obj.dtype
                vs.append(mk("must_raise", f"accepted|{sb}|{'negative' if name.split('_')[0] in ('sub', 'isub') else arg}|from={kind_of(cur)}", "refused", f"accepted, dtype now {after_dt}"))
                return None, vs, False
            after = self.snap(obj)
            if after != before:
                # "at most the dtype may already have been promoted losslessly" (C18) - values must be unchanged
                d = diff(before, after)
                only_dtype = set(d) <= {"dtype", "frequencies", "errors2", "underflow", "overflow", "inner_missed", "missed"} and \
                    [float(x) for x in obj.frequencies.ravel().tolist()] == [float(x) for x in m["c"]] and \
                    [float(x) for x in obj.errors2.ravel().tolist()] == [float(x) for x in m["e2"]]
                if name == "set_dtype" or not only_dtype:
                    vs.append(mk("refused_unchanged", f"refused_but_changed|{sb}|{'+'.join(sorted(d))}", "snapshot unchanged", d))
                vs.extend(mk(o, f"{o}|{sb}|after_refusal", e, ob) for o, e, ob in self.consistency(obj))
            return None, vs, False
        if not res.ok and either:
            after = self.snap(obj)
            if after != before:
                vs.append(mk("refused_unchanged", f"refused_but_changed|{sb}|{'+'.join(sorted(diff(before, after)))}", "snapshot unchanged", diff(before, after)))
            return None, vs, False
        if not res.ok:
            vs.append(mk("must_succeed", f"must_succeed|{sb}|{arg}|from={cur.name}|{exc_sig(res.exc)}", "accepted", res.describe()))
            # the state after the failure must still be consistent
            vs.extend(mk(o, f"{o}|{sb}|after_failure", e, ob) for o, e, ob in self.consistency(obj))
            return None, vs, False
        result = obj if inplace else res.value
        if not (hasattr(result, "frequencies") and hasattr(result, "binnings")):
            return None, [mk("returns_histogram", f"not_a_histogram|{sb}|{arg}", "a histogram", type(result).__name__)], False
        if not inplace:
            if self.snap(obj) != before:
                vs.append(mk("operand_untouched", f"operand_modified|{sb}", "unchanged", diff(before, self.snap(obj))))
            new_obj = result
        for o, e, ob in self.consistency(result):
            vs.append(mk(o, f"{o}|{sb}|{arg}|from={cur.name}", e, ob))
        rdt = np.dtype(result.dtype)
        if expect_dtype is not None and rdt != expect_dtype:
            vs.append(mk("dtype_exact", f"dtype_exact|{sb}|from={kind_of(cur)}|with={kind_of(arg) if name not in ('merge',) and isinstance(arg, str) and arg in DTYPES else '-'}",
                         str(expect_dtype), str(rdt)))
        if expect_kind is not None and kind_of(rdt) != expect_kind:
            vs.append(mk("dtype_kind", f"dtype_kind|{sb}|{arg}|from={kind_of(cur)}", expect_kind, str(rdt)))
        if not approx:
            for o, e, ob in self.values(result, c, e2):
                vs.append(mk(o, f"{o}|{sb}|{arg}|from={cur.name}", e, ob))
        m2 = {"dtype": rdt.name, "c": tuple(c), "e2": tuple(e2), "missed": tuple(missed), "depth": m["depth"] + 1}
        # the exact model is only valid while every value (and every later sum) is exactly representable in the
        # current type: histories are not expanded beyond a state whose values approach a narrow float's precision
        big = max([abs(x) for x in c + e2] + [Fraction(0)])
        if (rdt.kind == "f" and rdt.itemsize == 2 and big > 128) or (rdt.kind == "f" and rdt.itemsize == 4 and big > 2 ** 18):
            terminal = True
        if terminal:
            return None, vs, False
        return m2, vs, False, new_obj


# ---------------------------------------------------------------------------------------------
# E1: construction
# ---------------------------------------------------------------------------------------------


def eval_construct(case):
    from physt import h, h1, h2

    fn = case["fn"]
    dtype = case["dtype"]
    wkind = case["weights"]
    data1 = np.array([0.5, 1.5, 1.5, 2.5])
    w = None
    if wkind == "int":
        w = np.array([1, 2, 3, 1])
    elif wkind in ("float32", "float64"):
        w = np.array([0.5, 0.25, 1.0, 2.0], dtype=wkind)
    kw = {}
    if dtype is not None:
        kw["dtype"] = dtype
    if w is not None:
        kw["weights"] = w
    if fn == "h1":
        res = call(h1, data1, EDGES.copy(), **kw)
    elif fn == "h2":
        res = call(h2, data1, data1[::-1].copy(), [EDGES.copy(), EDGES.copy()], **kw)
    else:
        arr = np.stack([data1, data1[::-1], data1], axis=1)
        res = call(h, arr, [EDGES.copy()] * 3, **kw)
    out = []
    sig = f"construct|{fn}|w={'float' if wkind and wkind.startswith('float') else wkind}|dtype={'none' if dtype is None else kind_of(dtype)}"
    must_raise = dtype is not None and kind_of(dtype) == "i" and wkind in ("float32", "float64")
    if must_raise:
        if res.ok:
            out.append(V("must_raise", f"accepted|{sig}", case, "refused: integer histogram requested with float weights", f"dtype {res.value.dtype}"))
        return out
    if not res.ok:
        out.append(V("must_succeed", f"must_succeed|{sig}|{exc_sig(res.exc)}", case, "a histogram", res.describe()))
        return out
    hh = res.value
    dt = np.dtype(hh.dtype)
    if hh.frequencies.dtype != dt or hh.errors2.dtype != dt:
        out.append(V("dtype_consistency", f"dtype_consistency|{sig}", case, str(dt), [str(hh.frequencies.dtype), str(hh.errors2.dtype)]))
    if dtype is not None and dt != np.dtype(dtype):
        out.append(V("dtype_requested", f"dtype_requested|{sig}", case, dtype, str(dt)))
    if dtype is None:
        want = "f" if wkind in ("float32", "float64") else "i"
        if kind_of(dt) != want:
            out.append(V("dtype_kind", f"dtype_kind|{sig}", case, want, str(dt)))
    tot = Fraction(4) if w is None else sum(frac(float(x)) for x in w.tolist())
    if not eq_exact(hh.total, tot):
        out.append(V("values", f"values|{sig}", case, float(tot), hh.total))
    return out


# contents handed to the class constructors: tag -> (array factory, exact values)
CTOR_VALUES = {
    "int": lambda n: np.array([1, 0, 2, 4][:n], dtype=np.int64),
    "int32": lambda n: np.array([1, 0, 2, 4][:n], dtype=np.int32),
    "float_integral": lambda n: np.array([1.0, 0.0, 2.0, 4.0][:n]),
    "float_frac": lambda n: np.array([0.5, 0.0, 2.25, 4.0][:n]),
    "float32_frac": lambda n: np.array([0.5, 0.0, 2.25, 4.0][:n], dtype=np.float32),
    "big": lambda n: np.array([40000, 0, 70000, 1][:n], dtype=np.int64),
    "list_frac": lambda n: [0.5, 0.0, 2.25, 4.0][:n],
}


def fits(values, dtype):
    """Can every value be stored exactly in dtype?"""
    dt = np.dtype(dtype)
    for x in values:
        fx = frac(float(x))
        if dt.kind in "iu":
            info = np.iinfo(dt)
            if fx.denominator != 1 or not (info.min <= fx <= info.max):
                return False
        else:
            with np.errstate(over="ignore"):
                r = float(dt.type(float(x)))
            if r != float(x):
                return False
    return True


def eval_class_construct(case):
    """Histogram1D / Histogram2D(bins, frequencies, errors2=..., dtype=...): whatever is accepted is stored exactly and
    reported consistently; what fits the requested type (or no type is requested) is accepted."""
    from physt.types import Histogram1D, Histogram2D

    dim = case["dim"]
    n = 3 if dim == 1 else 4
    f = CTOR_VALUES[case["f"]](n)
    e = None if case["e2"] is None else CTOR_VALUES[case["e2"]](n)
    fv = [float(x) for x in (f if isinstance(f, list) else f.tolist())]
    ev = [abs(x) for x in fv] if e is None else [float(x) for x in (e if isinstance(e, list) else e.tolist())]
    kw = {}
    if case["dtype"] is not None:
        kw["dtype"] = np.dtype(case["dtype"])
    if dim == 1:
        res = call(lambda: Histogram1D(EDGES.copy(), f, errors2=e, **kw))
    else:
        sh2 = (lambda a: a if a is None else (np.asarray(a).reshape(2, 2) if not isinstance(a, list) else [a[:2], a[2:]]))
        res = call(lambda: Histogram2D([np.array([0.0, 1.0, 2.0]), np.array([0.0, 1.0, 2.0])], sh2(f), errors2=sh2(e), **kw))
    fk = "frac" if "frac" in case["f"] else case["f"]
    ek = "none" if case["e2"] is None else ("frac" if "frac" in case["e2"] else case["e2"])
    sig = f"class_construct|f={fk}|e2={ek}|dtype={'none' if case['dtype'] is None else kind_of(case['dtype'])}"
    out = []
    must = case["dtype"] is None or (fits(fv, case["dtype"]) and fits(ev, case["dtype"]))
    if not res.ok:
        if must:
            out.append(V("must_succeed", f"must_succeed|{sig}|{exc_sig(res.exc)}", case, "a histogram (every value fits)", res.describe()))
        return out, "refused"
    hh = res.value
    dt = np.dtype(hh.dtype)
    if hh.frequencies.dtype != dt or hh.errors2.dtype != dt:
        out.append(V("dtype_consistency", f"dtype_consistency|{sig}", case, str(dt), [str(hh.frequencies.dtype), str(hh.errors2.dtype)]))
    if case["dtype"] is not None and dt != np.dtype(case["dtype"]):
        out.append(V("dtype_requested", f"dtype_requested|{sig}", case, case["dtype"], str(dt)))
    gotf = [float(x) for x in hh.frequencies.ravel().tolist()]
    gote = [float(x) for x in hh.errors2.ravel().tolist()]
    if gotf != fv:
        out.append(V("values_frequencies", f"values_lost|frequencies|{sig}", case, fv, gotf))
    if gote != ev:
        out.append(V("values_errors2", f"values_lost|errors2|{sig}", case, ev, gote))
    return out, "accepted"


def eval_range_edge(case):
    """An explicit change to an integer type at the very edge of its range: max is accepted, max + 1 (the first float that does not
    fit - iinfo.max itself is not representable in narrower floats) and min - 1 are refused, nothing changes."""
    from physt.types import Histogram1D, Histogram2D

    src, tgt, which, via = case["src"], case["tgt"], case["value"], case["via"]
    info = np.iinfo(np.dtype(tgt))
    exact = {"max": int(info.max), "max_plus_1": int(info.max) + 1, "min_minus_1": int(info.min) - 1, "half_max": int(info.max) // 2 + 1}[which]
    sdt = np.dtype(src)
    with np.errstate(over="ignore"):
        try:
            stored = sdt.type(exact)
        except OverflowError:
            return [], "not_representable"
    if not np.isfinite(float(stored)) or int(stored) != exact:
        return [], "not_representable"  # this source type cannot hold the value exactly: nothing to decide
    fits = info.min <= exact <= info.max
    negative = exact < 0
    if negative:
        return [], "negative"  # contents cannot be negative: the low edge is only reachable through free arithmetics
    arr = np.array([stored, sdt.type(1), sdt.type(0)], dtype=sdt)
    out = []
    sig = f"range_edge|{via}|{which}|to={tgt}"
    if via == "set_dtype":
        h = Histogram1D(EDGES.copy(), arr.copy(), errors2=np.array([1, 1, 0], dtype=sdt), dtype=sdt)
        before = snap(h, meta=False, stats=False)
        res = call(h.set_dtype, tgt)
        after_h = h
    elif via == "dtype_setter":
        h = Histogram2D([np.array([0.0, 1.0, 2.0]), np.array([0.0, 1.0, 2.0])], np.array([[stored, 1], [0, 0]], dtype=sdt), errors2=np.array([[1, 1], [0, 0]], dtype=sdt), dtype=sdt)
        before = snap(h, meta=False, stats=False)
        res = call(lambda: setattr(h, "dtype", tgt))
        after_h = h
    else:
        before = None
        res = call(lambda: Histogram1D(EDGES.copy(), arr.copy(), errors2=np.array([1, 1, 0], dtype=sdt), dtype=np.dtype(tgt)))
        after_h = res.value if res.ok else None
    if fits:
        if not res.ok:
            out.append(V("must_succeed", f"{sig}|refused|{exc_sig(res.exc)}", case, "accepted (the value fits)", res.describe()))
        elif int(np.asarray(after_h.frequencies).ravel()[0]) != exact or np.dtype(after_h.dtype) != np.dtype(tgt):
            out.append(V("values_frequencies", f"{sig}|value_changed", case, exact, [str(after_h.dtype), np.asarray(after_h.frequencies).ravel().tolist()]))
        return out, "fits"
    if res.ok:
        out.append(V("must_raise", f"{sig}|accepted", case, "refused: the value is outside the type's range", [str(after_h.dtype), np.asarray(after_h.frequencies).ravel().tolist()]))
    elif before is not None and snap(h, meta=False, stats=False) != before:
        out.append(V("refused_unchanged", f"{sig}|refused_but_changed", case, before, snap(h, meta=False, stats=False)))
    return out, "outside"


def eval_accumulate(case):
    """accumulate(): the reported dtype is the element type of both arrays and the running sums are not wrapped."""
    from physt.types import Histogram2D

    dt = np.dtype(case["dtype"])
    vals = np.array(case["values"], dtype=dt).reshape(2, 2)
    h = Histogram2D([np.array([0.0, 1.0, 2.0]), np.array([0.0, 1.0, 2.0])], vals, dtype=dt)
    out = []
    for axis in (0, 1):
        res = call(h.accumulate, axis)
        sig = f"accumulate|{kind_of(dt)}{dt.itemsize * 8}"
        if not res.ok:
            out.append(V("must_succeed", f"{sig}|{exc_sig(res.exc)}", case, "cumulative histogram", res.describe()))
            continue
        r = res.value
        rdt = np.dtype(r.dtype)
        if r.frequencies.dtype != rdt or r.errors2.dtype != rdt:
            out.append(V("dtype_consistency", f"{sig}|dtype_consistency", case, str(rdt), [str(r.frequencies.dtype), str(r.errors2.dtype)]))
        want = np.cumsum(np.array(case["values"], dtype=object).reshape(2, 2), axis=axis).astype(float)
        if np.asarray(r.frequencies, dtype=float).tolist() != want.tolist():
            out.append(V("values_frequencies", f"{sig}|values", case, want.tolist(), np.asarray(r.frequencies).tolist()))
    return out


def eval_adaptive_mixed(case):
    """a + b / a += b for adaptive fixed-width histograms of every dtype pair whose bins differ (both get re-binned)."""
    from physt import h1, h2

    ta, tb = case["a"], case["b"]
    dim = case["dim"]

    def mk(vals, t, shift):
        if dim == 1:
            return h1(np.array(vals) + shift, "fixed_width", bin_width=1.0, adaptive=True, dtype=t)
        x = np.array(vals) + shift
        return h2(x, x[::-1].copy(), "fixed_width", bin_width=[1.0, 1.0], adaptive=True, dtype=t)

    a = mk([0.5, 1.5, 1.5], ta, 0.0)
    b = mk([0.5, 2.5], tb, 4.0)
    out = []
    want = np.promote_types(np.dtype(ta), np.dtype(tb))
    results = {}
    r = call(lambda: a + b)
    results["add"] = r
    c = a.copy()

    def iadd():
        nonlocal c
        c += b
        return c

    results["iadd"] = call(iadd)
    results["sum"] = call(lambda: sum([a, b]))
    for name, r in results.items():
        sig = f"adaptive_mixed|{dim}D|{name}|{kind_of(ta)}+{kind_of(tb)}"
        if not r.ok:
            out.append(V("must_succeed", f"{sig}|{exc_sig(r.exc)}", case, "a sum", r.describe()))
            continue
        hh = r.value
        dt = np.dtype(hh.dtype)
        if hh.frequencies.dtype != dt or hh.errors2.dtype != dt:
            out.append(V("dtype_consistency", f"dtype_consistency|{sig}", case, str(dt), [str(hh.frequencies.dtype), str(hh.errors2.dtype)]))
        if dt != want:
            out.append(V("dtype_exact", f"dtype_exact|{sig}", case, str(want), str(dt)))
        if not eq_exact(hh.total, Fraction(5)):
            out.append(V("values", f"values|{sig}", case, 5, hh.total))
    return out


def units(tier, seed):
    thorough = tier == "thorough"
    us = []
    for dim in (1, 2):
        for start in DTYPES:
            depth = 3 if thorough else 2
            if not thorough and start in ("int64", "float32") and dim == 1:
                depth = 3
            if thorough and start == "int64" and dim == 1:
                depth = 4
            us.append({"kind": "bfs", "config": {"dim": dim, "start": start, "depth": depth}})
    us.append({"kind": "construct"})
    us.append({"kind": "adaptive_mixed"})
    us.append({"kind": "class_construct"})
    us.append({"kind": "range_edge"})
    return us


def run_unit(unit, ctx):
    p = Partial()
    if unit["kind"] == "bfs":
        sysm = DtypeSystem(unit["config"])
        seen = H.bfs(sysm, p, ctx)
        H.dfs_validate(sysm, p, seen, 2, ctx, op_filter=lambda op: op[0] in ("fill", "iadd", "mul", "idiv", "set_dtype", "isub", "isub_frac"))
        for k in seen:
            p.outcome(k[0])
        p.sample({"config": unit["config"], "a_state_history": H.listify(list(seen.values())[-1][3])})
    elif unit["kind"] == "range_edge":
        for src in ("float16", "float32", "float64", "float128", "int64", "int32"):
            for tgt in ("int16", "int32", "int64"):
                for which in ("max", "max_plus_1", "min_minus_1", "half_max"):
                    for via in ("set_dtype", "dtype_setter", "constructor"):
                        case = {"range_edge": True, "src": src, "tgt": tgt, "value": which, "via": via}
                        vs, label = eval_range_edge(case)
                        p.ev(label in ("fits", "outside"))
                        p.states += 1
                        p.outcome("range_edge:" + label)
                        p.extend(vs)
        for dtype in DTYPES:
            for values in ([1, 2, 3, 4], [20000, 20000, 3, 1], [0, 0, 0, 0]):
                if dtype == "float16" and max(values) > 2000:
                    continue  # sums beyond float16's integer precision: the user's choice of type
                case = {"accumulate": True, "dtype": dtype, "values": values}
                vs = eval_accumulate(case)
                p.ev(True)
                p.states += 1
                p.outcome("accumulate")
                p.extend(vs)
        p.sample(case)
    elif unit["kind"] == "class_construct":
        for dim in (1, 2):
            for fk in CTOR_VALUES:
                for ek in [None] + list(CTOR_VALUES):
                    for dtype in [None] + DTYPES:
                        case = {"ctor": True, "dim": dim, "f": fk, "e2": ek, "dtype": dtype}
                        vs, label = eval_class_construct(case)
                        p.ev(True)
                        p.states += 1
                        p.outcome("class_construct:" + label)
                        p.extend(vs)
        p.sample(case)
    elif unit["kind"] == "adaptive_mixed":
        for dim in (1, 2):
            for ta in DTYPES:
                for tb in DTYPES:
                    case = {"a": ta, "b": tb, "dim": dim}
                    vs = eval_adaptive_mixed(case)
                    p.ev(ta != tb)
                    p.states += 1
                    p.transitions += 3
                    p.extend(vs)
        p.sample(case)
    else:
        for fn in ("h1", "h2", "h"):
            for dtype in [None] + DTYPES:
                for wk in (None, "int", "float32", "float64"):
                    case = {"fn": fn, "dtype": dtype, "weights": wk}
                    vs = eval_construct(case)
                    p.ev(True)
                    p.extend(vs)
        p.sample(case)
    return p


def replay(case):
    if case.get("range_edge"):
        return eval_range_edge(case)[0]
    if case.get("accumulate"):
        return eval_accumulate(case)
    if case.get("ctor"):
        return eval_class_construct(case)[0]
    if "fn" in case:
        return eval_construct(case)
    if "a" in case and "dim" in case:
        return eval_adaptive_mixed(case)
    sysm = DtypeSystem(dict(case["config"], depth=99))
    vs, model, obj = H.replay_history(sysm, case["history"], case.get("op"))
    if vs or "other_history" not in case:
        return vs
    vs2, m2, obj2 = H.replay_history(sysm, case["other_history"])
    if vs2:
        return vs2
    if sysm.snap(obj) != sysm.snap(obj2):
        return [V("confluence", sysm.confluence_signature(model, sysm.snap(obj2), sysm.snap(obj)), case, sysm.snap(obj2), sysm.snap(obj))]
    return []
