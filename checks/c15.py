"""C15 - transformed histograms bin points by their true coordinates.

E1 over a grid of points x special classes x entry paths, E2-style short histories (pairs of points,
all orders / chunkings), projections, refusals.  Confluence oracle: every entry path must place a
point into the same bin, which is the bin of the transformed coordinates entered with transformed=True.
"""
from __future__ import annotations

import itertools
import math
import re

import numpy as np

from mc.core import Partial, V
from mc.outcome import call
from mc.snapshot import fl

ID = "C15"
LEVEL = "model_checking"
RULE = (
    "Points: every pair over {-2,-1,-0.0,0.0,0.5,1,3,4} (64 2D points: all quadrants, axes, origin, signed zeros, 3-4-5) and "
    "every triple over {-1,-0.0,0.0,1,2} (125 3D points). Classes: Polar, Radial (2D and 3D source), Azimuthal, Spherical, "
    "SphericalSurface, Cylindrical. For every (class, point): Class.transform against math-module formulas and their inverses; "
    "entry paths facade (columns / array), fill, fill_n, find_bin on Cartesian input and fill / fill_n / find_bin / facade with "
    "transformed=True on the transformed coordinates - all must hit the same cell, which is the cell of the transformed "
    "coordinates (states = cells reached, transitions = entry operations). Histories: every ordered pair of points entered by "
    "fill+fill, fill_n([a,b]), fill_n([b,a]), facade([a,b]) must give identical contents; all points at once == sum of single "
    "points; array transform == per-point transform. Projections of a filled histogram onto every axis subset: class map and "
    "marginal contents, radius of the cylinder surface. Refusals: wrong dimensionality in transform / fill / fill_n / find_bin. "
    "Non-trivial: a point on an axis, at the origin, with a signed zero, on a bin edge, or outside the radial bins."
)
ASSUMPTIONS = [
    "math.atan2 / math.hypot are the reference for the coordinate formulas (1e-12 relative)",
    "the expected cell is computed from the library's own transformed coordinates (checked against the formulas) by plain comparisons",
    "facade(transformed=True) may be unsupported for a class (refused); if it returns a histogram it must agree",
    "CylindricalSurfaceHistogram is only demanded as the type of the (phi, z) projection of a cylindrical histogram",
]
BOUNDS = {"quick": "64 / 125 points x 7 class configurations x 2 bin sets, all ordered pairs over 24 selected points", "thorough": "all ordered pairs over all 64 2D points / 60 3D points"}
BUDGET = {"quick": 240, "thorough": 3000}

TWO_PI = 2 * math.pi
V2 = [-2.0, -1.0, -0.0, 0.0, 0.5, 1.0, 3.0, 4.0]
V3 = [-1.0, -0.0, 0.0, 1.0, 2.0]
R_EDGES = [0.0, 1.0, 2.5, 6.0]
Z_EDGES = [-1.5, -0.5, 0.5, 3.0]
PHI_EDGES = np.linspace(0, TWO_PI, 5)
THETA_EDGES = np.linspace(0, math.pi, 4)

CLASSES = {
    # name: (class name, source dim, axes of transformed coordinates)
    "polar": ("PolarHistogram", 2, ["r", "phi"]),
    "radial2": ("RadialHistogram", 2, ["r"]),
    "radial3": ("RadialHistogram", 3, ["r3"]),
    "azimuthal": ("AzimuthalHistogram", 2, ["phi"]),
    "spherical": ("SphericalHistogram", 3, ["r3", "theta", "phi"]),
    "spherical_surface": ("SphericalSurfaceHistogram", 3, ["theta", "phi"]),
    "cylindrical": ("CylindricalHistogram", 3, ["rho", "phi", "z"]),
}
EDGES_A = {"r": R_EDGES, "r3": R_EDGES, "rho": R_EDGES, "phi": PHI_EDGES.tolist(), "theta": THETA_EDGES.tolist(), "z": Z_EDGES}
# second configuration: bins that do not start at the origin / cover only part of the angular range (points get missed)
EDGES_B = {"r": [0.5, 1.0, 3.0, 5.0], "r3": [0.5, 1.5, 2.0], "rho": [0.5, 1.0, 3.0], "phi": [math.pi / 4, math.pi / 2, math.pi, 1.5 * math.pi],
           "theta": [math.pi / 4, math.pi / 2, 0.75 * math.pi], "z": [-0.5, 0.0, 1.0, 1.5]}
EDGES = dict(EDGES_A)
EDGE_SETS = {"A": EDGES_A, "B": EDGES_B}


def use_bins(which):
    EDGES.clear()
    EDGES.update(EDGE_SETS[which or "A"])


def exc_sig(e):
    msg = re.sub(r"[^A-Za-z ]+", "", str(e))[:40].strip()
    return f"{type(e).__name__}:{msg}"


def klass_of(name):
    from physt import special_histograms as S

    return getattr(S, CLASSES[name][0])


def formulas(name, p):
    """math-module coordinates of a Cartesian point for this class."""
    axes = CLASSES[name][2]
    out = []
    for a in axes:
        if a == "r":
            out.append(math.hypot(p[0], p[1]))
        elif a == "r3":
            out.append(math.sqrt(sum(x * x for x in p)))
        elif a == "rho":
            out.append(math.hypot(p[0], p[1]))
        elif a == "phi":
            out.append(math.atan2(p[1], p[0]) % TWO_PI)
        elif a == "theta":
            out.append(math.atan2(math.hypot(p[0], p[1]), p[2]))
        elif a == "z":
            out.append(p[2])
    return out


def make_empty(name):
    from physt.binnings import StaticBinning

    K = klass_of(name)
    axes = CLASSES[name][2]
    bs = [np.array(EDGES[a]) for a in axes]
    if len(axes) == 1:
        return K(bs[0])
    return K(bs)


def facade_call(name, pts, transformed=False, weights=None):
    import physt

    arr = np.array(pts, dtype=float).reshape(len(pts), -1)
    kw = {"transformed": transformed}
    if weights is not None:
        kw["weights"] = weights
    if name == "polar":
        return physt.polar(arr[:, 0], arr[:, 1], radial_bins=np.array(EDGES["r"]), phi_bins=np.array(EDGES["phi"]), **kw)
    if name == "azimuthal":
        if transformed:
            return physt.azimuthal(arr[:, 0], bins=np.array(EDGES["phi"]), **kw)
        return physt.azimuthal(arr[:, 0], arr[:, 1], bins=np.array(EDGES["phi"]), **kw)
    if name == "radial2":
        if transformed:
            return physt.radial(arr[:, 0], bins=np.array(EDGES["r"]), **kw)
        return physt.radial(arr[:, 0], arr[:, 1], bins=np.array(EDGES["r"]), **kw)
    if name == "radial3":
        if transformed:
            return physt.radial(arr[:, 0], bins=np.array(EDGES["r3"]), **kw)
        return physt.radial(arr[:, 0], arr[:, 1], arr[:, 2], bins=np.array(EDGES["r3"]), **kw)
    if name == "spherical":
        return physt.spherical(arr, radial_bins=np.array(EDGES["r3"]), theta_bins=np.array(EDGES["theta"]), phi_bins=np.array(EDGES["phi"]), **kw)
    if name == "spherical_surface":
        return physt.spherical_surface(arr, theta_bins=np.array(EDGES["theta"]), phi_bins=np.array(EDGES["phi"]), **kw)
    if name == "cylindrical":
        return physt.cylindrical(arr, rho_bins=np.array(EDGES["rho"]), phi_bins=np.array(EDGES["phi"]), z_bins=np.array(EDGES["z"]), **kw)
    raise ValueError(name)


def expected_cell(h, coords):
    """Cell of already transformed coordinates by plain comparisons on the histogram's own bins."""
    idx = []
    for a, x in enumerate(coords):
        bins = np.asarray(h.binnings[a].bins).tolist()
        right = bool(h.binnings[a].includes_right_edge) or h.ndim == 1
        found = None
        for i, (l, r) in enumerate(bins):
            if l <= x < r:
                found = i
                break
        if found is None and right and x == bins[-1][1]:
            found = len(bins) - 1
        if found is None:
            if h.ndim == 1:
                # 1D histograms report -1 / bin count for values below / above the bins
                return (-1,) if x < bins[0][0] else (len(bins),)
            return None
        idx.append(found)
    return tuple(idx)


def cell_of(h):
    """Where the (single) entry of a histogram sits: index tuple, None (missed) or 'multi'."""
    f = np.asarray(h.frequencies)
    nz = np.argwhere(f != 0)
    if len(nz) == 0:
        return None
    if len(nz) > 1 or f[tuple(nz[0])] != 1:
        return "multi:" + repr(f.tolist())
    return tuple(int(i) for i in nz[0])


def as_index(x, ndim):
    if x is None:
        return None
    if ndim == 1:
        try:
            return (int(x),)
        except (TypeError, ValueError):
            return repr(x)
    try:
        return tuple(int(i) for i in x)
    except (TypeError, ValueError):
        return repr(x)


def nontrivial_point(p):
    return any(x == 0 for x in p) or any(x != round(x * 2) / 2 for x in p) or p in ((3.0, 4.0), (4.0, 3.0)) or max(abs(x) for x in p) > 2


# ---------------------------------------------------------------------------------------------
# one (class, point)
# ---------------------------------------------------------------------------------------------


def eval_point(case):
    use_bins(case.get("bins"))
    name = case["cls"]
    p = tuple(case["point"])
    K = klass_of(name)
    out = []
    sb = f"{name}|bins{case.get('bins', 'A')}"
    # --- transform
    t = call(K.transform, np.array(p))
    if not t.ok:
        return [V("transform_succeeds", f"transform_raises|{sb}|{exc_sig(t.exc)}", case, "coordinates", t.describe())]
    coords = [float(x) for x in np.atleast_1d(t.value).ravel().tolist()]
    want = formulas(name, p)
    axes = CLASSES[name][2]
    if len(coords) != len(want):
        return [V("transform", f"transform_shape|{sb}", case, want, coords)]
    for a, (g, w) in zip(axes, zip(coords, want)):
        tol = 1e-12 * max(1.0, abs(w))
        ok = abs(g - w) <= tol
        if a == "phi":
            ok = (ok or abs(abs(g - w) - TWO_PI) <= tol) and 0 <= g <= TWO_PI
        if a == "theta":
            ok = ok and 0 <= g <= math.pi
        if a in ("r", "r3", "rho"):
            ok = ok and g >= 0
        if not ok:
            out.append(V("transform", f"transform|{sb}|{a}", case, {a: w}, {a: g}))
    # inverse formulas recover the point
    try:
        c = dict(zip(axes, coords))
        if name in ("polar",):
            back = (c["r"] * math.cos(c["phi"]), c["r"] * math.sin(c["phi"]))
        elif name == "spherical":
            back = (c["r3"] * math.sin(c["theta"]) * math.cos(c["phi"]), c["r3"] * math.sin(c["theta"]) * math.sin(c["phi"]), c["r3"] * math.cos(c["theta"]))
        elif name == "cylindrical":
            back = (c["rho"] * math.cos(c["phi"]), c["rho"] * math.sin(c["phi"]), c["z"])
        else:
            back = None
        if back is not None and any(abs(b - x) > 1e-12 * max(1.0, max(abs(v) for v in p)) for b, x in zip(back, p)):
            out.append(V("inverse", f"inverse|{sb}", case, list(p), list(back)))
    except KeyError:
        pass
    if out:
        return out
    # --- entry paths
    ref = make_empty(name)
    cell = expected_cell(ref, coords)
    results = {}
    nd = ref.ndim

    def run(path, f):
        r = call(f)
        results[path] = r
        return r

    tc = coords[0] if nd == 1 and len(coords) == 1 else np.array(coords)
    # ONE caller-owned float64 array is handed to every Cartesian entry path in turn: no path may write into it
    shared = np.array(p, dtype=np.float64)
    shared2 = np.array([p], dtype=np.float64)
    # Cartesian input
    h = make_empty(name)
    r = run("find_bin_first", lambda: h.find_bin(shared))
    if r.ok:
        results["find_bin_first"] = (as_index(r.value, nd), "unchanged")
    r = run("fill_shared", lambda: h.fill(shared))
    if r.ok:
        results["fill_shared"] = (as_index(r.value, nd), cell_of(h))
    hs2 = make_empty(name)
    r = run("fill_n_shared", lambda: hs2.fill_n(shared2))
    if r.ok:
        results["fill_n_shared"] = (None, cell_of(hs2))
    r = run("transform_shared", lambda: K.transform(shared2))
    if shared.tolist() != list(p) or shared2.tolist() != [list(p)]:
        out.append(V("input_untouched", f"input_modified|{sb}", case, list(p), {"point": shared.tolist(), "array": shared2.tolist()}))
    results.pop("transform_shared", None)
    h = make_empty(name)
    r = run("fill", lambda: h.fill(np.array(p)))
    if r.ok:
        results["fill"] = (as_index(r.value, nd), cell_of(h))
    h2 = make_empty(name)
    r = run("fill_n", lambda: h2.fill_n(np.array([p])))
    if r.ok:
        results["fill_n"] = (None, cell_of(h2))
    if nd > 1:
        # the same point handed over column-wise (one array per source coordinate)
        hc = make_empty(name)
        r = run("fill_n_columns", lambda: hc.fill_n(np.array([p]).T, columns=True))
        if r.ok:
            results["fill_n_columns"] = (None, cell_of(hc))
        hc2 = make_empty(name)
        r = run("fill_n_columns2", lambda: hc2.fill_n(np.array([p, p]).T, columns=True))
        if r.ok:
            f2 = np.asarray(hc2.frequencies)
            nz = np.argwhere(f2 != 0)
            if len(nz) == 0:
                cc = None
            elif len(nz) == 1 and f2[tuple(nz[0])] == 2:
                cc = tuple(int(i) for i in nz[0])
            else:
                cc = "multi:" + repr(f2.tolist())
            results["fill_n_columns2"] = (None, cc)
    h3 = make_empty(name)
    before = np.asarray(h3.frequencies).copy()
    r = run("find_bin", lambda: h3.find_bin(np.array(p)))
    if r.ok:
        results["find_bin"] = (as_index(r.value, nd), "unchanged" if np.array_equal(before, h3.frequencies) else "CHANGED")
    r = run("facade", lambda: facade_call(name, [p]))
    if r.ok:
        results["facade"] = (None, cell_of(r.value))
    # the same point handed over as a float32 array (all alphabet values are exactly representable in float32):
    # the container's element type must not change the bin
    if all(float(np.float32(x)) == x for x in p):
        p32 = np.array(p, dtype=np.float32)
        h7 = make_empty(name)
        r = run("fill_f32", lambda: h7.fill(p32))
        if r.ok:
            results["fill_f32"] = (as_index(r.value, nd), cell_of(h7))
        h8 = make_empty(name)
        r = run("fill_n_f32", lambda: h8.fill_n(np.array([p], dtype=np.float32)))
        if r.ok:
            results["fill_n_f32"] = (None, cell_of(h8))
        h9 = make_empty(name)
        r = run("find_bin_f32", lambda: h9.find_bin(p32))
        if r.ok:
            results["find_bin_f32"] = (as_index(r.value, nd), "unchanged")
    # transformed input
    h4 = make_empty(name)
    r = run("fill_T", lambda: h4.fill(tc, transformed=True))
    if r.ok:
        results["fill_T"] = (as_index(r.value, nd), cell_of(h4))
    h5 = make_empty(name)
    r = run("fill_n_T", lambda: h5.fill_n(np.array([coords]) if nd > 1 else np.array(coords), transformed=True))
    if r.ok:
        results["fill_n_T"] = (None, cell_of(h5))
    h6 = make_empty(name)
    r = run("find_bin_T", lambda: h6.find_bin(tc, transformed=True))
    if r.ok:
        results["find_bin_T"] = (as_index(r.value, nd), "unchanged")
    r = run("facade_T", lambda: facade_call(name, [coords], transformed=True))
    if r.ok:
        results["facade_T"] = (None, cell_of(r.value))

    for path, res in results.items():
        if not isinstance(res, tuple):
            if path == "facade_T":
                continue  # transformed=True may be unsupported by a facade (ASSUMPTIONS)
            out.append(V("path_succeeds", f"path_raises|{sb}|{path}|{exc_sig(res.exc)}", case, f"{path} accepts the point", res.describe()))
            continue
        ret, where = res
        if path.startswith("find_bin"):
            if ret != cell:
                out.append(V("same_cell", f"cell|{sb}|{path}", case, {"cell": cell}, {"returned": ret}))
            if where == "CHANGED":
                out.append(V("find_bin_pure", f"find_bin_changes|{sb}", case, "unchanged", "contents changed"))
            continue
        inside = cell if (cell is not None and all(0 <= i < n for i, n in zip(cell, ref.shape))) else None
        if where != inside:
            out.append(V("same_cell", f"cell|{sb}|{path}", case, {"cell": inside, "coords": coords}, {"cell": where}))
        elif path.startswith("fill") and not path.startswith("fill_n") and ret != cell:
            out.append(V("fill_return", f"fill_return|{sb}|{path}", case, cell, ret))
    return out


# ---------------------------------------------------------------------------------------------
# pairs / all points / projections / refusals
# ---------------------------------------------------------------------------------------------


def eval_pair(case):
    use_bins(case.get("bins"))
    name = case["cls"]
    a, b = tuple(case["a"]), tuple(case["b"])
    out = []
    hs = {}
    h = make_empty(name)
    r1 = call(lambda: (h.fill(np.array(a)), h.fill(np.array(b))))
    hs["fill_ab"] = h if r1.ok else r1
    h = make_empty(name)
    r2 = call(lambda: (h.fill(np.array(b)), h.fill(np.array(a))))
    hs["fill_ba"] = h if r2.ok else r2
    h = make_empty(name)
    r3 = call(lambda: h.fill_n(np.array([a, b])))
    hs["fill_n_ab"] = h if r3.ok else r3
    h = make_empty(name)
    r4 = call(lambda: (h.fill_n(np.array([b])), h.fill(np.array(a))))
    hs["fill_n_b_fill_a"] = h if r4.ok else r4
    r5 = call(lambda: facade_call(name, [a, b]))
    hs["facade_ab"] = r5.value if r5.ok else r5
    r6 = call(lambda: facade_call(name, [a]) + facade_call(name, [b]))
    hs["facade_sum"] = r6.value if r6.ok else r6
    ref = None
    for path, hh in hs.items():
        if not hasattr(hh, "frequencies"):
            out.append(V("path_succeeds", f"pair_raises|{name}|{path}|{exc_sig(hh.exc)}", case, "accepted", hh.describe()))
            continue
        cur = (np.asarray(hh.frequencies).tolist(), np.asarray(hh.errors2).tolist(), fl(hh.missed) if hh.ndim > 1 else (fl(hh.underflow), fl(hh.overflow)))
        if ref is None:
            ref = (path, cur)
        elif cur != ref[1]:
            out.append(V("pair_confluence", f"pair|{name}|{path}_vs_{ref[0]}", case, {ref[0]: ref[1]}, {path: cur}))
    return out


def all_points(name):
    return [tuple(q) for q in (itertools.product(V2, repeat=2) if CLASSES[name][1] == 2 else itertools.product(V3, repeat=3))]


def near_edge_points(name):
    """float32-representable points whose radius is within a float32 ulp of a radial bin edge."""
    pts = []
    for R in (1.0, 2.5, 0.5, 3.0):
        for k in range(64):
            t = k * math.pi / 32 + 0.01
            x, y = float(np.float32(R * math.cos(t))), float(np.float32(R * math.sin(t)))
            pts.append((x, y) if CLASSES[name][1] == 2 else (x, y, 0.0))
    return pts


def eval_all(case):
    use_bins(case.get("bins"))
    name = case["cls"]
    pts = all_points(name)
    K = klass_of(name)
    out = []
    # array transform == per-point transform
    ta = call(K.transform, np.array(pts))
    if not ta.ok:
        return [V("transform_succeeds", f"array_transform_raises|{name}|{exc_sig(ta.exc)}", case, "coordinates", ta.describe())]
    arr = np.asarray(ta.value)
    for i, p in enumerate(pts):
        single = np.atleast_1d(K.transform(np.array(p))).ravel().tolist()
        row = np.atleast_1d(arr[i]).ravel().tolist()
        if single != row:
            out.append(V("array_vs_single", f"array_vs_single|{name}", dict(case, point=list(p)), single, row))
            break
    # all at once == sum of singles (by fill)
    hf = call(lambda: facade_call(name, pts))
    if not hf.ok:
        out.append(V("path_succeeds", f"facade_all_raises|{name}|{exc_sig(hf.exc)}", case, "accepted", hf.describe()))
        return out
    acc = make_empty(name)
    for p in pts:
        acc.fill(np.array(p))
    if np.asarray(acc.frequencies).tolist() != np.asarray(hf.value.frequencies).tolist():
        out.append(V("all_vs_singles", f"all_vs_singles|{name}|frequencies", case, np.asarray(acc.frequencies).tolist(), np.asarray(hf.value.frequencies).tolist()))
    hn = make_empty(name)
    hn.fill_n(np.array(pts))
    if np.asarray(hn.frequencies).tolist() != np.asarray(hf.value.frequencies).tolist():
        out.append(V("all_vs_singles", f"all_vs_fill_n|{name}|frequencies", case, np.asarray(hn.frequencies).tolist(), np.asarray(hf.value.frequencies).tolist()))
    # weights through the facade
    w = np.array([2.0 ** -(i % 20 + 1) for i in range(len(pts))])
    hw = call(lambda: facade_call(name, pts, weights=w))
    if hw.ok:
        hh = make_empty(name)
        for p, ww in zip(pts, w.tolist()):
            hh.fill(np.array(p), ww)
        if not np.allclose(np.asarray(hh.frequencies), np.asarray(hw.value.frequencies), rtol=1e-12, atol=0):
            out.append(V("all_vs_singles", f"weighted_all_vs_singles|{name}", case, np.asarray(hh.frequencies).tolist(), np.asarray(hw.value.frequencies).tolist()))
    else:
        out.append(V("path_succeeds", f"facade_weights_raises|{name}|{exc_sig(hw.exc)}", case, "accepted", hw.describe()))
    return out


PROJ_MAP = {
    "polar": {(0,): "RadialHistogram", (1,): "AzimuthalHistogram"},
    "spherical": {(0,): "RadialHistogram", (1, 2): "SphericalSurfaceHistogram"},
    "cylindrical": {(0,): "RadialHistogram", (1,): "AzimuthalHistogram", (0, 1): "PolarHistogram", (1, 2): "CylindricalSurfaceHistogram"},
    "spherical_surface": {},
}


def eval_projection(case):
    use_bins(case.get("bins"))
    name = case["cls"]
    axes = tuple(case["axes"])
    h = make_empty(name)
    h.fill_n(np.array(all_points(name)))
    h.name = "filled"
    names = h.axis_names
    spec = [names[a] if case.get("by_name") else a for a in axes]
    res = call(lambda: h.projection(*spec))
    out = []
    sb = f"projection|{name}|axes={''.join(map(str, axes))}"
    if not res.ok:
        return [V("projection_succeeds", f"{sb}|raises|{exc_sig(res.exc)}", case, "a projection", res.describe())]
    r = res.value
    want_cls = PROJ_MAP[name].get(tuple(sorted(axes)))
    if want_cls is not None and type(r).__name__ != want_cls:
        out.append(V("projection_class", f"{sb}|class", case, want_cls, type(r).__name__))
    f = np.asarray(h.frequencies)
    drop = tuple(a for a in range(h.ndim) if a not in axes)
    want = f.sum(axis=drop)
    if tuple(sorted(axes)) != axes:
        pass  # kept axes stay in their original order
    if np.asarray(r.frequencies).tolist() != want.tolist():
        out.append(V("projection_contents", f"{sb}|contents", case, want.tolist(), np.asarray(r.frequencies).tolist()))
    # the same projection again after more points were entered one by one (nothing stale may be served)
    extra = all_points(name)[::7]
    for q in extra:
        h.fill(np.array(q))
    res2 = call(lambda: h.projection(*spec))
    if not res2.ok:
        out.append(V("projection_succeeds", f"{sb}|second_raises|{exc_sig(res2.exc)}", case, "a projection", res2.describe()))
    else:
        want2 = np.asarray(h.frequencies).sum(axis=drop)
        if np.asarray(res2.value.frequencies).tolist() != want2.tolist():
            out.append(V("projection_contents", f"{sb}|contents_after_fill", case, want2.tolist(), np.asarray(res2.value.frequencies).tolist()))
        if np.asarray(r.frequencies).tolist() != want.tolist():
            out.append(V("projection_independent", f"{sb}|first_projection_changed", case, want.tolist(), np.asarray(r.frequencies).tolist()))
    kept = sorted(axes)
    for i, a in enumerate(kept):
        if np.asarray(r.binnings[i].bins).tolist() != np.asarray(h.binnings[a].bins).tolist():
            out.append(V("projection_bins", f"{sb}|bins", case, np.asarray(h.binnings[a].bins).tolist(), np.asarray(r.binnings[i].bins).tolist()))
    if want_cls == "CylindricalSurfaceHistogram":
        rad = getattr(r, "radius", None)
        if rad != EDGES["rho"][-1]:
            out.append(V("projection_radius", f"{sb}|radius", case, EDGES["rho"][-1], fl(rad) if rad is not None else None))
    # the cylinder-surface projection is a working histogram: emptied and given the same Cartesian points again (one by
    # one, as a batch, and as find_bin questions), it shows the same marginal
    if want_cls == "CylindricalSurfaceHistogram":
        pts = np.array(all_points(name))
        e1 = r.copy(include_frequencies=False)
        rr1 = call(lambda: e1.fill_n(pts))
        e2 = r.copy(include_frequencies=False)

        def one_by_one():
            for q in pts:
                ix = e2.find_bin(q)
                if e2.fill(q) != ix:
                    raise AssertionError("fill and find_bin disagree")

        rr2 = call(one_by_one)
        # reference: the (phi, z) coordinates by the formulas, entered as already transformed (every point counts here, also
        # those whose rho lies outside the parent's rho bins)
        e3 = r.copy(include_frequencies=False)
        tc = np.array([formulas("cylindrical", tuple(q))[1:] for q in pts])
        e3.fill_n(tc, transformed=True)
        ref = np.asarray(e3.frequencies).tolist()
        for nm, rr, e in (("fill_n", rr1, e1), ("fill", rr2, e2)):
            if not rr.ok:
                out.append(V("projection_usable", f"{sb}|surface_{nm}_raises|{exc_sig(rr.exc)}", case, "accepted", rr.describe()))
            elif np.asarray(e.frequencies).tolist() != ref:
                out.append(V("projection_usable", f"{sb}|surface_{nm}_contents", case, ref, np.asarray(e.frequencies).tolist()))
    if want_cls in ("RadialHistogram", "AzimuthalHistogram") and name in ("polar",):
        p = (0.5, 0.5)
        rr = call(lambda: r.find_bin(np.array(p)))
        if rr.ok:
            coords = formulas("radial2" if want_cls == "RadialHistogram" else "azimuthal", p)
            cell = expected_cell(r, coords)
            if as_index(rr.value, 1) != cell:
                out.append(V("projection_usable", f"{sb}|find_bin", case, cell, as_index(rr.value, 1)))
    return out


def eval_refusal(case):
    use_bins(case.get("bins"))
    name = case["cls"]
    K = klass_of(name)
    src = CLASSES[name][1]
    wrong = [1.0] * (src + 1) if not (name.startswith("radial")) else [1.0] * 4
    wrong2 = [1.0] * (src - 1) if src > 2 or name not in ("radial2",) else [1.0]
    if name.startswith("radial"):
        wrong2 = [1.0]
    out = []
    h = make_empty(name)
    before = np.asarray(h.frequencies).copy()
    tests = {
        "transform_too_many": lambda: K.transform(np.array(wrong)),
        "transform_too_few": lambda: K.transform(np.array(wrong2)),
        "transform_array_wrong": lambda: K.transform(np.array([wrong, wrong])),
        "fill_wrong": lambda: h.fill(np.array(wrong)),
        "fill_n_wrong": lambda: h.fill_n(np.array([wrong, wrong])),
        "find_bin_wrong": lambda: h.find_bin(np.array(wrong)),
        "transform_3d_array": lambda: K.transform(np.ones((2, 2, src))),
    }
    for tname, f in tests.items():
        r = call(f)
        if r.ok:
            out.append(V("must_raise", f"refusal|{name}|{tname}", case, "refused (wrong dimensionality)", r.describe()))
    if not np.array_equal(before, h.frequencies):
        out.append(V("refusal_unchanged", f"refusal_changed|{name}", case, "contents unchanged", np.asarray(h.frequencies).tolist()))
    return out


# ---------------------------------------------------------------------------------------------


def pair_points(name, thorough):
    if CLASSES[name][1] == 2:
        pts = [(0.0, 0.0), (-0.0, 1.0), (1.0, -0.0), (-1.0, 0.0), (0.5, 0.5), (3.0, 4.0), (-2.0, -2.0), (4.0, 4.0), (0.0, -1.0), (0.5, -2.0), (1.0, 1.0), (-1.0, 3.0)]
    else:
        pts = [(0.0, 0.0, 0.0), (0.0, 0.0, 1.0), (0.0, 0.0, -1.0), (1.0, 0.0, 0.0), (-1.0, -0.0, 2.0), (1.0, 1.0, 1.0), (2.0, 2.0, 2.0), (-1.0, 2.0, -1.0),
               (0.0, 1.0, 0.0), (2.0, -1.0, 0.0), (-0.0, -0.0, 2.0), (1.0, 2.0, -1.0)]
    extra = all_points(name)
    if thorough:
        pts = pts + [q for q in extra if q not in pts]
        if CLASSES[name][1] == 3:
            pts = pts[:60]
    else:
        pts = pts + [q for q in extra[::5] if q not in pts][:12]
    return pts


def units(tier, seed):
    us = []
    for name in CLASSES:
        for bins in ("A", "B"):
            us.append({"kind": "points", "cls": name, "bins": bins})
            us.append({"kind": "pairs", "cls": name, "bins": bins})
            us.append({"kind": "misc", "cls": name, "bins": bins})
    return us


def run_unit(unit, ctx):
    p = Partial()
    name = unit["cls"]
    if unit["kind"] == "points":
        for pt in all_points(name) + near_edge_points(name):
            case = {"cls": name, "point": list(pt), "bins": unit["bins"]}
            vs = eval_point(case)
            p.ev(nontrivial_point(pt))
            p.transitions += 9
            p.states += 1
            p.traces += 9
            p.extend(vs)
        p.sample(case)
        p.outcome(f"points:{name}")
    elif unit["kind"] == "pairs":
        pts = pair_points(name, ctx.thorough)
        for a, b in itertools.product(pts, repeat=2):
            case = {"cls": name, "a": list(a), "b": list(b), "bins": unit["bins"]}
            vs = eval_pair(case)
            p.ev(True)
            p.transitions += 8
            p.states += 1
            p.traces += 6
            p.extend(vs)
        p.sample(case)
        p.outcome(f"pairs:{name}")
    else:
        case = {"cls": name, "all": True, "bins": unit["bins"]}
        p.extend(eval_all(case))
        p.ev(True)
        nd = len(CLASSES[name][2])
        if nd > 1:
            for k in range(1, nd):
                for axes in itertools.permutations(range(nd), k):
                    for by_name in (False, True):
                        c = {"cls": name, "axes": list(axes), "by_name": by_name, "bins": unit["bins"]}
                        p.extend(eval_projection(c))
                        p.ev(True)
        c = {"cls": name, "refusal": True, "bins": unit["bins"]}
        p.extend(eval_refusal(c))
        p.ev(True)
        p.states += 1
        p.transitions += 1
        p.sample(c)
        p.outcome(f"misc:{name}")
    return p


def replay(case):
    if "point" in case and "all" not in case:
        return eval_point(case)
    if "a" in case:
        return eval_pair(case)
    if "axes" in case:
        return eval_projection(case)
    if "refusal" in case:
        return eval_refusal(case)
    return eval_all({k: v for k, v in case.items() if k != "point"})
