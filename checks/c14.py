"""C14 - statistics are those of the raw data entered, not of the bins.

Engine E2: BFS over construction / fill / fill_n / add / copy / scale histories on dyadic in-range
values; state = multiset of (value, effective weight); exact rational oracle.
"""
from __future__ import annotations

import itertools
import math
import re
from fractions import Fraction

import numpy as np

from mc import histories as H
from mc.core import Partial, V
from mc.outcome import call
from mc.refmodel import frac
from mc.snapshot import fl

ID = "C14"
LEVEL = "model_checking"
RULE = (
    "1D histogram over bins [0,1,2,4]; in-range dyadic values {0, 0.25, 0.5, 1, 1.75, 2, 3.5, 4} (edges included, 4 = closed last "
    "edge) with weights none / 2 / 0.5. BFS over histories: start states = h1(data) for every data tuple <= 2 (x 3 weight "
    "modes) and the empty histogram; operations fill(v[,w]), fill_n(batch <= 2, empty, with NaN), + with four partner histograms, "
    "sum([..]), copy(), *2, *0.5, /2 (once per history); state = multiset of (value, effective weight). Oracles on every state: "
    "statistics.sum / sum2 / weight / min / max == exact rationals, mean() correctly rounded, variance()/std() within 1e-12, "
    "median == data median after unweighted construction (NaN or the true median later, never a wrong number), empty => weight 0 "
    "and NaN mean, confluence over all chunkings / orders. Terminal checks: normalize() (mean/variance/min/max invariant, weight "
    "1), invalidating operations (a-b, array arithmetic under free arithmetics, bare frequencies, h[i:j]) => every field NaN. "
    "Non-trivial: any transition except the unweighted fill of an interior value into an empty histogram."
)
ASSUMPTIONS = [
    "values and weights are dyadic: every sum is exact in double precision whatever the order",
    "values outside the bins are not in the alphabet (construction and fill treat them differently; outside the statement)",
    "median for weighted construction is left open",
]
BOUNDS = {"quick": "multisets <= 3 over 8 values x 3 weights, batches <= 2, one scaling per history", "thorough": "multisets <= 4"}
BUDGET = {"quick": 240, "thorough": 3000}

EDGES = [0.0, 1.0, 2.0, 4.0]
VALUES = [0.0, 0.25, 0.5, 1.0, 1.75, 2.0, 3.5, 4.0]
WEIGHTS = [None, 2, 0.5]
NAN = float("nan")


def exc_sig(e):
    msg = re.sub(r"[^A-Za-z ]+", "", str(e))[:40].strip()
    return f"{type(e).__name__}:{msg}"


def mk_hist(data, w=None):
    from physt import h1

    kw = {}
    if w is not None:
        kw["weights"] = np.array([w] * len(data), dtype=(np.int64 if isinstance(w, int) and not isinstance(w, bool) else np.float64))
    return h1(np.array(data, dtype=float), np.array(EDGES), **kw)


PARTNERS = {
    "p_zero": ([3.5, 0.0], 0.0),   # total weight 0, but values were entered: min / max must still count
    "p_empty": ([], None),
    "p_one": ([0.25], None),
    "p_two_w": ([3.5, 0.0], 0.5),
    "p_edge": ([4.0, 1.0], 2),
}


def stats_tuple(h):
    st = h.statistics
    return tuple(fl(getattr(st, k)) for k in ("sum", "sum2", "weight", "min", "max"))


class StatsSystem(H.System):
    def __init__(self, cfg):
        self.cfg = cfg
        self.N = cfg["N"]
        self.start = cfg["start"]  # [data list, weight]
        self.entries_alpha = [(v, w) for v in VALUES for w in WEIGHTS]
        self._ops = {}

    def init(self):
        data, w = self.start
        obj = mk_hist(data, w)
        entries = tuple(sorted(((x, Fraction(1) if w is None else frac(w)) for x in data), key=repr))
        med = None
        if data and w is None:
            s = sorted(data)
            n = len(s)
            med = s[n // 2] if n % 2 else (s[n // 2 - 1] + s[n // 2]) / 2
        return {"entries": entries, "median": med, "fresh": True, "scaled": False}, obj

    def key(self, m):
        return (m["entries"], m["scaled"], m["fresh"] and m["median"] is not None)

    def ops(self, m):
        room = self.N - len(m["entries"])
        k = (room, m["scaled"])
        if k not in self._ops:
            ops = [("copy",), ("fill_n", (), None), ("fill_n", (), ()), ("fill_n", ("nan",), None), ("sum1",)]
            if room >= 1:
                for v, w in self.entries_alpha:
                    ops.append(("fill", v, w))
                for v in VALUES:
                    ops.append(("fill_n", (v,), None))
                ops.append(("fill_n", ("nan", 1.75), (2, 2)))
                ops.append(("add", "p_one"))
                ops.append(("radd", "p_one"))
            ops.append(("add", "p_empty"))
            if room >= 1:
                ops.append(("fill", 4.0, 0.0))
                ops.append(("fill_n", (0.0,), (0.0,)))
            if room >= 2:
                ops.append(("add", "p_zero"))
                ops.append(("radd", "p_zero"))
                ops.append(("iadd", "p_zero"))
                ops.append(("fill_n", (0.0, 4.0), (0.0, 0.0)))
            if room >= 2:
                for a, b in itertools.product(VALUES, repeat=2):
                    ops.append(("fill_n", (a, b), None))
                for a, b in itertools.product(VALUES[::2], repeat=2):
                    ops.append(("fill_n", (a, b), (0.5, 2)))
                    ops.append(("fill_n", (a, b), (2, 2)))
                ops.append(("add", "p_two_w"))
                ops.append(("iadd", "p_edge"))
                ops.append(("sum_list", "p_two_w"))
            if not m["scaled"]:
                ops += [("mul", 2), ("mul", 0.5), ("div", 2), ("imul", 2), ("rmul", 0.5)]
            self._ops[k] = ops
        return self._ops[k]

    def describe(self, hist, op):
        return {"config": self.cfg, "history": H.listify(hist), "op": H.listify(op)}

    def confluence_signature(self, model, a, b):
        return "confluence|" + "+".join(k for k in a if a[k] != b[k])

    def snap(self, obj):
        return {"stats": stats_tuple(obj), "frequencies": tuple(float(x) for x in obj.frequencies.tolist()),
                "errors2": tuple(float(x) for x in obj.errors2.tolist())}

    def nontrivial(self, m, op, m2):
        return not (op[0] == "fill" and op[2] is None and not m["entries"] and op[1] in (0.25, 0.5, 1.75, 3.5))

    # -- exact oracle -------------------------------------------------------------------------
    def check_stats(self, obj, m):
        probs = []
        ent = m["entries"]
        st = obj.statistics
        if not ent:
            if not (st.weight == 0 and math.isnan(st.mean())):
                probs.append(("empty", {"weight": 0, "mean": "nan"}, {"weight": fl(st.weight), "mean": fl(st.mean())}))
            return probs
        s1 = sum(frac(x) * w for x, w in ent)
        s2 = sum(frac(x) * frac(x) * w for x, w in ent)
        ww = sum(w for _, w in ent)
        mn = min(x for x, _ in ent)
        mx = max(x for x, _ in ent)
        got = {"sum": st.sum, "sum2": st.sum2, "weight": st.weight, "min": st.min, "max": st.max}
        want = {"sum": s1, "sum2": s2, "weight": ww, "min": frac(mn), "max": frac(mx)}
        for k in want:
            g = got[k]
            try:
                ok = not math.isnan(float(g)) and frac(float(g)) == want[k]
            except (TypeError, ValueError, OverflowError):
                ok = False
            if not ok:
                probs.append((k, float(want[k]), fl(g)))
        if probs:
            return probs
        if ww > 0:
            mean = s1 / ww
            var = s2 / ww - mean * mean
            gm = st.mean()
            if float(mean) != gm:
                probs.append(("mean", float(mean), fl(gm)))
            gv = st.variance()
            if not (abs(frac(gv) - var) <= abs(var) * Fraction(1, 10 ** 12) + Fraction(1, 10 ** 15)):
                probs.append(("variance", float(var), fl(gv)))
            gs = st.std()
            if not (math.isnan(gs) and var < 0) and abs(gs - math.sqrt(max(float(var), 0.0))) > 1e-7 * max(1.0, math.sqrt(max(float(var), 0.0))):
                probs.append(("std", math.sqrt(max(float(var), 0.0)), fl(gs)))
        # median
        med = st.median
        if m["fresh"] and m["median"] is not None:
            if not (med == m["median"]):
                probs.append(("median_after_construction", m["median"], fl(med)))
        elif not math.isnan(med):
            # later: NaN ('unknown') or the true median of the unweighted data, never a wrong number
            xs = sorted(x for x, w in ent)
            n = len(xs)
            true = xs[n // 2] if n % 2 else (xs[n // 2 - 1] + xs[n // 2]) / 2
            if not (all(w == ent[0][1] for _, w in ent) and med == true):
                probs.append(("median_stale", "nan or the true median", fl(med)))
        return probs

    def step(self, m, obj, op, hist):
        name = op[0]
        ent = m["entries"]
        new_obj = None
        m2 = dict(m)
        m2["fresh"] = False

        def mk(oracle, sig, e, o):
            return V(oracle, sig, self.describe(hist, op), e, o)

        def unk(v):
            return NAN if v == "nan" else v

        if name == "copy":
            res = call(obj.copy)
            new_obj = res.value if res.ok else None
            m2["fresh"] = m["fresh"]
        elif name == "sum1":
            res = call(lambda: sum([obj]))
            new_obj = res.value if res.ok else None
            m2["fresh"] = m["fresh"]
        elif name == "fill":
            v, w = op[1], op[2]
            res = call(obj.fill, v) if w is None else call(obj.fill, v, w)
            m2["entries"] = tuple(sorted(ent + ((v, Fraction(1) if w is None else frac(w)),), key=repr))
        elif name == "fill_n":
            vals = [unk(v) for v in op[1]]
            ws = op[2]
            arr = np.array(vals, dtype=float)
            if ws is None:
                res = call(obj.fill_n, arr)
            else:
                res = call(obj.fill_n, arr, np.array(ws, dtype=(np.int64 if ws and all(isinstance(x, int) for x in ws) else np.float64)))
            add = tuple((v, Fraction(1) if ws is None else frac(ws[i])) for i, v in enumerate(vals) if not (isinstance(v, float) and math.isnan(v)))
            m2["entries"] = tuple(sorted(ent + add, key=repr))
            if not add:
                m2["fresh"] = m["fresh"]  # nothing entered
        elif name in ("add", "radd", "iadd", "sum_list"):
            pdata, pw = PARTNERS[op[1]]
            p = mk_hist(pdata, pw)
            pst = stats_tuple(p)
            if name == "add":
                res = call(lambda: obj + p)
            elif name == "radd":
                res = call(lambda: p + obj)
            elif name == "sum_list":
                res = call(lambda: sum([obj, p]))
            else:
                def f():
                    o = obj
                    o += p
                    return o
                res = call(f)
            if res.ok and stats_tuple(p) != pst:
                return None, [mk("operand_untouched", f"partner_stats_modified|{name}", pst, stats_tuple(p))], False
            if name != "iadd":
                new_obj = res.value if res.ok else None
            m2["entries"] = tuple(sorted(ent + tuple((x, Fraction(1) if pw is None else frac(pw)) for x in pdata), key=repr))
        elif name in ("mul", "div", "imul", "rmul"):
            c = op[1]
            f = frac(c) if name != "div" else 1 / frac(c)
            if name == "mul":
                res = call(lambda: obj * c)
                new_obj = res.value if res.ok else None
            elif name == "rmul":
                res = call(lambda: c * obj)
                new_obj = res.value if res.ok else None
            elif name == "div":
                res = call(lambda: obj / c)
                new_obj = res.value if res.ok else None
            else:
                def g():
                    o = obj
                    o *= c
                    return o
                res = call(g)
            m2["entries"] = tuple(sorted(((x, w * f) for x, w in ent), key=repr))
            m2["scaled"] = True
        else:
            raise ValueError(name)
        sb = name + ("_w" if name in ("fill", "fill_n") and op[2] is not None else "")
        if not res.ok:
            return None, [mk("must_succeed", f"must_succeed|{sb}|{exc_sig(res.exc)}", "accepted", res.describe())], False
        target = new_obj if new_obj is not None else obj
        vs = [mk("statistics", f"stats|{sb}|{field}", {field: e}, {field: o}) for field, e, o in self.check_stats(target, m2)]
        loop = self.key(m2) == self.key(m)
        return m2, vs, loop, new_obj


# ---------------------------------------------------------------------------------------------
# terminal checks: normalize and invalidating operations
# ---------------------------------------------------------------------------------------------


def eval_terminal(case):
    from physt.config import config
    from physt.types import Histogram1D

    data, w = case["data"], case["w"]
    kind = case["kind"]
    h = mk_hist(data, w)
    out = []
    st0 = h.statistics
    if kind in ("normalize", "normalize_inplace", "percent"):
        if not data:
            return out
        res = call(h.normalize, inplace=(kind == "normalize_inplace"), percent=(kind == "percent"))
        if not res.ok:
            return [V("must_succeed", f"terminal|{kind}|{exc_sig(res.exc)}", case, "normalized", res.describe())]
        st = res.value.statistics
        target = 100.0 if kind == "percent" else 1.0
        ok = (abs(st.weight - target) <= 1e-12 * target and abs(st.mean() - st0.mean()) <= 1e-12 * max(1.0, abs(st0.mean()))
              and abs(st.variance() - st0.variance()) <= 1e-12 * max(1.0, abs(st0.variance())) and st.min == st0.min and st.max == st0.max)
        if not ok:
            out.append(V("scale_invariance", f"normalize_stats|{kind}", case,
                         {"weight": target, "mean": st0.mean(), "variance": st0.variance(), "min": st0.min, "max": st0.max},
                         {"weight": st.weight, "mean": st.mean(), "variance": st.variance(), "min": st.min, "max": st.max}))
        return out
    # invalidating operations: every field must read NaN
    other = mk_hist([0.25], None)
    if kind == "sub":
        res = call(lambda: h - other)
    elif kind == "isub":
        def f():
            o = h
            o -= other
            return o
        res = call(f)
    elif kind == "free_sub":
        def f():
            with config.enable_free_arithmetics():
                return h - other
        res = call(f)
    elif kind == "free_isub":
        def f():
            with config.enable_free_arithmetics():
                o = h
                o -= other
                return o
        res = call(f)
    elif kind == "free_mul_array":
        def f():
            with config.enable_free_arithmetics():
                return h * np.array([1.0, 2.0, 1.0])
        res = call(f)
    elif kind == "free_add_array":
        def f():
            with config.enable_free_arithmetics():
                return h + np.array([1.0, 2.0, 1.0])
        res = call(f)
    elif kind == "free_div_array":
        def f():
            with config.enable_free_arithmetics():
                return h / np.array([1.0, 2.0, 1.0])
        res = call(f)
    elif kind == "bare_frequencies":
        res = call(lambda: Histogram1D(np.array(EDGES), h.frequencies.copy()))
    elif kind.startswith("set_frequencies"):
        # contents assigned directly (public setter): whatever was recorded about the raw values no longer describes them
        def f():
            o = h
            o.frequencies = np.asarray(o.frequencies) * 3 + np.array([5, 0, 1], dtype=o.frequencies.dtype)
            if kind.endswith("then_fill"):
                o.fill(1.5)
            elif kind.endswith("then_fill_n"):
                o.fill_n(np.array([0.5, 2.5]))
            elif kind.endswith("then_add"):
                o = o + other
            elif kind.endswith("then_iadd"):
                o += other
            elif kind.endswith("then_radd"):
                o = other + o
            elif kind.endswith("then_mul"):
                o = o * 2
            elif kind.endswith("then_idiv"):
                o /= 4
            elif kind.endswith("then_copy"):
                o = o.copy()
            elif kind.endswith("then_merge"):
                o = o.merge_bins(2)
            return o
        res = call(f)
    elif kind in ("valid_plus_bare", "bare_plus_valid", "valid_iadd_bare", "sum_with_bare"):
        # one operand without valid statistics spoils the sum, whichever side it is on
        bare = Histogram1D(np.array(EDGES), np.array([1, 0, 2]))
        if kind == "valid_plus_bare":
            res = call(lambda: h + bare)
        elif kind == "bare_plus_valid":
            res = call(lambda: bare + h)
        elif kind == "sum_with_bare":
            res = call(lambda: sum([h, other, bare]))
        else:
            def f():
                o = h
                o += bare
                return o
            res = call(f)
    elif kind == "slice":
        res = call(lambda: h[0:2])
    elif kind == "mask":
        res = call(lambda: h[np.array([True, False, True])])
    else:
        raise ValueError(kind)
    if not res.ok:
        return out  # refused: nothing claimed
    st = res.value.statistics
    fields = {k: getattr(st, k) for k in ("sum", "sum2", "weight", "min", "max")}
    fields.update({"mean()": st.mean(), "variance()": st.variance(), "std()": st.std()})
    bad = {k: fl(v) for k, v in fields.items() if not math.isnan(v)}
    if bad and not (kind in ("slice", "mask") and False):
        # a wrong number is a violation; for an empty source (no data) zeros are the truth
        if data or kind not in ("bare_frequencies",):
            if not (not data and kind in ("slice", "mask", "sub", "isub", "free_sub", "free_isub")):
                out.append(V("invalid_reads_nan", f"invalidated_not_nan|{kind}", case, "all statistics NaN", bad))
    return out


VALUE_TYPES = {"int8": 100, "int16": 300, "int32": 70000, "uint8": 200, "float16": 300.0, "float32": 0.1, "float64": 0.1, "int64": 7}


def eval_value_types(case):
    """The numeric TYPE of the values entered does not matter: the recorded moments are those of the numbers."""
    from physt import h1
    from physt.types import Histogram1D

    vt, path, w = case["vtype"], case["path"], case["w"]
    dt = np.dtype(vt)
    v = dt.type(VALUE_TYPES[vt])
    x = frac(float(v))
    edges = np.array([0.0, 1.0, 1000.0, 100000.0])
    n = 3
    ww = frac(1 if w is None else w)

    def build():
        if path == "fill":
            h = Histogram1D(edges)
            for _ in range(n):
                h.fill(v) if w is None else h.fill(v, w)
            return h
        arr = np.array([v] * n, dtype=dt)
        kw = {} if w is None else {"weights": np.array([w] * n)}
        if path == "fill_n":
            h = Histogram1D(edges)
            h.fill_n(arr, **({} if w is None else {"weights": kw["weights"]}))
            return h
        return h1(arr, edges, **kw)

    res = call(build)
    sig = f"value_type|{vt}|{path}"
    if not res.ok:
        return [V("must_succeed", f"{sig}|{exc_sig(res.exc)}", case, "a histogram", res.describe())]
    st = res.value.statistics
    want = {"sum": n * ww * x, "sum2": n * ww * x * x, "weight": n * ww, "min": x, "max": x}
    out = []
    tol = 1e-6 if vt in ("float16", "float32") else 1e-12
    bad = {}
    for k, wv in want.items():
        g = float(getattr(st, k))
        if not (math.isfinite(g) and abs(g - float(wv)) <= tol * max(abs(float(wv)), 1e-300)):
            bad[k] = fl(g)
    if bad:
        out.append(V("statistics", f"{sig}|{'+'.join(sorted(bad))}", case, {k: float(v_) for k, v_ in want.items()}, bad))
    # identical values: the variance is 0 up to rounding and never negative, the standard deviation is a number
    var, std = st.variance(), st.std()
    if not (var >= 0) or not math.isfinite(std) or std > 1e-6 * max(1.0, abs(float(x))):
        out.append(V("variance_nonnegative", f"{sig}|variance_of_identical_values", case, "variance >= 0, std ~ 0", {"variance": fl(var), "std": fl(std)}))
    return out


def eval_constant(case):
    """n identical values: variance() >= 0 and std() is a number close to 0 (sum2 - sum^2/weight leaves a rounding residue of either sign)."""
    from physt import h1

    v, n, path = case["value"], case["n"], case["path"]
    edges = np.array([-10.0, 0.0, 10.0])
    if path == "construct":
        h = h1(np.full(n, v), edges)
    else:
        h = h1(None, edges)
        for _ in range(n):
            h.fill(v)
    st = h.statistics
    var, std = st.variance(), st.std()
    if not (var >= 0) or not math.isfinite(std) or std > 1e-7 * max(1.0, abs(v)):
        return [V("variance_nonnegative", f"constant_data|{path}", case, "variance >= 0, std ~ 0", {"variance": fl(var), "std": fl(std)})]
    return []


def eval_self_add(case):
    """h += h, h + h, sum([h, h]): twice the weight and sums, same minimum / maximum."""
    data, w, how = case["data"], case["w"], case["how"]
    h = mk_hist(data, w)
    st0 = h.statistics
    want = {"sum": 2 * frac(float(st0.sum)), "sum2": 2 * frac(float(st0.sum2)), "weight": 2 * frac(float(st0.weight))}
    if how == "iadd_self":
        h += h
        r = h
    elif how == "add_self":
        r = h + h
    elif how == "sum_self":
        r = sum([h, h])
    else:
        c = h.copy()
        c += h
        r = c
    st = r.statistics
    bad = {k: fl(getattr(st, k)) for k, v in want.items() if not (math.isfinite(float(getattr(st, k))) and frac(float(getattr(st, k))) == v)}
    if data and (st.min != st0.min or st.max != st0.max):
        bad["min/max"] = [fl(st.min), fl(st.max)]
    if bad:
        return [V("statistics_added", f"self_add|{how}|{'+'.join(sorted(bad))}", case, {k: float(v) for k, v in want.items()}, bad)]
    return []


def eval_adaptive_add(case):
    """Statistics of a + b for adaptive fixed-width histograms whose bins differ (the sum re-bins both)."""
    from physt import h1

    da, db = case["a"], case["b"]
    wa, wb = case.get("wa"), case.get("wb")

    def mk(d, w):
        kw = {}
        if w is not None:
            kw["weights"] = np.array([w] * len(d))
        return h1(np.array(d, dtype=float) if d else None, "fixed_width", bin_width=1.0, adaptive=True, **kw)

    a, b = mk(da, wa), mk(db, wb)
    ent = [(x, frac(wa if wa is not None else 1)) for x in da] + [(x, frac(wb if wb is not None else 1)) for x in db]
    out = []
    results = {"add": call(lambda: a + b), "radd": call(lambda: b + a), "sum": call(lambda: sum([a, b]))}
    c = a.copy()

    def iadd():
        nonlocal c
        c += b
        return c

    results["iadd"] = call(iadd)
    for name, r in results.items():
        if not r.ok:
            out.append(V("must_succeed", f"adaptive_add|{name}|{exc_sig(r.exc)}", case, "a sum", r.describe()))
            continue
        st = r.value.statistics
        if not ent:
            continue
        want = {"sum": sum(frac(x) * w for x, w in ent), "sum2": sum(frac(x) * frac(x) * w for x, w in ent), "weight": sum(w for _, w in ent),
                "min": frac(min(x for x, _ in ent)), "max": frac(max(x for x, _ in ent))}
        got = {k: getattr(st, k) for k in want}
        def wrong(k):
            try:
                g = float(got[k])
            except (TypeError, ValueError):
                return True
            return math.isnan(g) or math.isinf(g) or frac(g) != want[k]

        bad = [k for k in want if wrong(k)]
        if bad:
            out.append(V("statistics", f"adaptive_add_stats|{name}|{'+'.join(bad)}", case, {k: float(v) for k, v in want.items()}, {k: repr(v) for k, v in got.items()}))
    return out


def units(tier, seed):
    thorough = tier == "thorough"
    N = 4 if thorough else 3
    us = []
    starts = [([], None)]
    for w in WEIGHTS:
        for v in (0.25, 4.0):
            starts.append(([v], w))
        for a, b in ((0.0, 3.5), (1.0, 1.0), (2.0, 0.5)):
            starts.append(([a, b], w))
    for data, w in starts:
        us.append({"kind": "bfs", "config": {"start": [data, w], "N": N}})
    us.append({"kind": "terminal"})
    us.append({"kind": "adaptive_add"})
    us.append({"kind": "value_types"})
    return us


def run_unit(unit, ctx):
    p = Partial()
    if unit["kind"] == "bfs":
        sysm = StatsSystem(unit["config"])
        seen = H.bfs(sysm, p, ctx)
        H.dfs_validate(sysm, p, seen, 2, ctx, op_filter=lambda op: op[0] in ("fill", "mul", "add", "copy"))
        p.outcome(f"start={len(unit['config']['start'][0])}:{unit['config']['start'][1]}")
        p.sample({"config": unit["config"], "a_state_history": H.listify(list(seen.values())[-1][3])})
    elif unit["kind"] == "value_types":
        case = None
        for vt in VALUE_TYPES:
            for path in ("fill", "fill_n", "construct"):
                for w in (None, 2, 0.5):
                    case = {"vt": True, "vtype": vt, "path": path, "w": w}
                    p.ev(True)
                    p.states += 1
                    p.outcome("value_types")
                    p.extend(eval_value_types(case))
        for k in range(1, 100):
            for n in (2, 3, 5, 7):
                for path in ("construct", "fill"):
                    case = {"constant": True, "value": k / 100.0, "n": n, "path": path}
                    p.ev(True)
                    p.states += 1
                    p.outcome("constant")
                    p.extend(eval_constant(case))
        for data in ([], [0.25], [0.25, 1.75, 3.5], [0.5, 0.5]):
            for w in WEIGHTS:
                for how in ("iadd_self", "add_self", "sum_self", "copy_iadd"):
                    case = {"self_add": True, "data": data, "w": w, "how": how}
                    p.ev(bool(data))
                    p.states += 1
                    p.outcome("self_add")
                    p.extend(eval_self_add(case))
        p.sample(case)
    elif unit["kind"] == "adaptive_add":
        sets = [[], [0.5], [0.25, 1.75], [5.5, 7.25], [-3.5], [2.0, 2.0, 9.75]]
        for da in sets:
            for db in sets:
                for wa, wb in ((None, None), (None, 0.5), (2, 0.5)):
                    case = {"a": da, "b": db, "wa": wa, "wb": wb}
                    vs = eval_adaptive_add(case)
                    p.ev(bool(da) and bool(db))
                    p.states += 1
                    p.transitions += 4
                    p.extend(vs)
        p.sample(case)
    else:
        datasets = [[]] + [[v] for v in VALUES] + [[a, b] for a, b in itertools.product(VALUES[::2], repeat=2)] + [[0.25, 1.75, 3.5]]
        for data in datasets:
            for w in WEIGHTS:
                for kind in ("normalize", "normalize_inplace", "percent", "sub", "isub", "free_sub", "free_isub", "free_mul_array", "free_add_array", "free_div_array",
                             "bare_frequencies", "slice", "mask", "set_frequencies", "set_frequencies_then_fill", "set_frequencies_then_fill_n",
                             "set_frequencies_then_add", "set_frequencies_then_iadd", "set_frequencies_then_radd", "set_frequencies_then_mul",
                             "set_frequencies_then_idiv", "set_frequencies_then_copy", "set_frequencies_then_merge",
                             "valid_plus_bare", "bare_plus_valid", "valid_iadd_bare", "sum_with_bare"):
                    case = {"data": data, "w": w, "kind": kind}
                    vs = eval_terminal(case)
                    p.ev(True)
                    p.outcome("terminal:" + kind)
                    p.extend(vs)
        p.sample(case)
    return p


def replay(case):
    if case.get("vt"):
        return eval_value_types(case)
    if case.get("constant"):
        return eval_constant(case)
    if case.get("self_add"):
        return eval_self_add(case)
    if "kind" in case and "data" in case:
        return eval_terminal(case)
    if "a" in case and "b" in case:
        return eval_adaptive_add(case)
    sysm = StatsSystem(dict(case["config"], N=99))
    vs, model, obj = H.replay_history(sysm, case["history"], case.get("op"))
    if vs or "other_history" not in case:
        return vs
    vs2, m2, obj2 = H.replay_history(sysm, case["other_history"])
    if vs2:
        return vs2
    if sysm.snap(obj) != sysm.snap(obj2):
        return [V("confluence", sysm.confluence_signature(model, sysm.snap(obj2), sysm.snap(obj)), case, sysm.snap(obj2), sysm.snap(obj))]
    return []
