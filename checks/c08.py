"""C08 - JSON round trip reproduces the histogram exactly.

Engine E1 (product enumerator).  Every case builds ONE histogram (or collection) through the public
constructors, serialises it (to_json -> parse_json, or save_json(path) -> load_json), and compares
the parsed object with the original through public attributes, bit for bit; then serialises the
parsed object again and compares the two documents.  A second family of cases rewrites the
`physt_compatible` stamp of a valid document and demands refusal exactly for versions newer than
the running one (reference: an independent PEP 440 ordering for release / pre / post / dev forms).
"""
from __future__ import annotations

import itertools
import json
import math
import os
import re
import shutil
import tempfile

import numpy as np

from mc.core import HarnessError, Partial, V
from mc.outcome import call

ID = "C08"
LEVEL = "exploration"
RULE = (
    "Product of histogram class (Histogram1D, Histogram2D, HistogramND 3D/4D, Polar, Radial, Azimuthal, Spherical, "
    "SphericalSurface, Cylindrical, CylindricalSurface built directly and via projection, HistogramCollection with 0..3 members) x "
    "per-axis binning (StaticBinning consecutive / gapped / tiny gap / single bin, NumpyBinning float / integer edges, "
    "FixedWidthBinning plain / shifted / from min / adaptive / adaptive and empty, ExponentialBinning; each with both "
    "includes_right_edge declarations where the class allows) x 7 content dtypes x contents (zeros, extreme values of the dtype, "
    "NaN / inf / -0.0) x missed (0, values, NaN markers) x keep_missed x custom errors2 x metadata (none, name/title/axis names, "
    "nested JSON value, unicode) x path (to_json+parse_json, save_json(file)+load_json, indent/sort_keys, ensure_ascii=False + "
    "pathlib). Oracle: same class, parsed == original (when original == original), field-by-field bit-identical public snapshot, "
    "second serialisation textually equal. Version cases: the physt_compatible stamp of a valid 1D / 2D / collection document is "
    "replaced by every version of a grid around the running one (components -1/0/+1/+2, 0, 10, 99, 100; shorter and longer "
    "release tuples; a/b/rc/dev/post forms of the running and the next patch): newer => must be refused, else must load. A "
    "case is non-trivial when anything deviates from the default histogram (dtype int64/float64, no missed, keep_missed, default "
    "errors, no metadata, default right-edge declaration, text path), or when the version differs from the writer's stamp."
)
ASSUMPTIONS = [
    "histograms are built with the public constructors (frequencies given directly), not by filling: the JSON layer sees the same object state",
    "float128 contents use values that are also exact float64 values (a fix that writes float(x) must pass)",
    "parsed == original is demanded only when original == original holds (HistogramND.__eq__ is not reflexive with NaN contents / NaN missed)",
    "1D underflow / overflow / inner_missed are compared when the original keeps missed values (they read NaN by definition otherwise)",
    "metadata values are JSON-native (dict / list / str / int / float / bool / None); axis names compare as sequences",
    "the dtype of the edge arrays (integer edges) is not compared, only the edge values as exact doubles",
    "version strings that differ from the running version only by a local label (+x), have an epoch or several suffixes, and malformed or missing stamps are left open (EITHER)",
    "statistics are not part of the statement and are not compared",
]
BOUNDS = {
    "quick": "220 043 documents: Histogram1D / Radial / Azimuthal: 19 binnings x 7 dtypes x full option product x 2 paths (29 184 each); "
    "Histogram2D: 19 ordered binning pairs (every binning on either axis, 18 240); HistogramND 1D/2D/3D/4D and 7 transformed "
    "classes: 4-8 binning tuples each (3 840-7 680 each); collections: 19 binnings x all member tuples of length 0..3 over 6 member "
    "variants x 5 collection metadata x 2 paths (49 280); serialisation kwargs (indent+sort_keys, compact separators, "
    "ensure_ascii=False + pathlib) on 3 classes x 19 binning tuples (5 643); 1 728 version documents (216 stamps x 4 documents x 2 paths)",
    "thorough": "826 303 documents: Histogram2D with all 361 ordered binning pairs; 3D: 114 triples; 1D/2D/4D HistogramND and every "
    "transformed class with 19 tuples; collections with 8 member variants (585 member tuples per binning)",
}
BUDGET = {"quick": 240, "thorough": 3000}

NAN = float("nan")
INF = float("inf")

# ---------------------------------------------------------------------------------------------
# alphabets
# ---------------------------------------------------------------------------------------------

E_NICE = [0.0, 1.0, 2.5, 4.0]
E_NASTY = [-1e-320, 0.1, 1.0 / 3.0, 1e300]
P_GAP = [(0.0, 1.0), (2.0, 3.5)]
P_TINY = [(0.0, 1.0), (1.0 + 2.0 ** -20, 2.0)]


def _pairs(edges):
    return [(edges[i], edges[i + 1]) for i in range(len(edges) - 1)]


# name -> (binning class, default right edge?, description of non-default features)
AXES = {
    "S_nasty_r": "StaticBinning, consecutive, edges subnormal/0.1/1/3/1e300, right edge closed (default)",
    "S_nice_o": "StaticBinning, consecutive, right edge open",
    "S_gap_r": "StaticBinning with a gap, closed",
    "S_gap_o": "StaticBinning with a gap, open",
    "S_tiny_r": "StaticBinning with a gap below the allclose tolerance",
    "S_one_o": "StaticBinning, single bin, open",
    "N_nasty_r": "NumpyBinning, float edges, closed (default)",
    "N_nice_o": "NumpyBinning, open",
    "N_int_r": "NumpyBinning, integer edge array",
    "N_one_r": "NumpyBinning, single bin",
    "F_plain": "FixedWidthBinning width 0.5 x 3 from 1.0, open (default)",
    "F_right": "FixedWidthBinning, right edge closed",
    "F_adapt": "FixedWidthBinning, adaptive",
    "F_shift": "FixedWidthBinning width 0.1, bin_shift 0.25, negative bin_times_min",
    "F_min": "FixedWidthBinning built from min=0.3, width 0.1 (shift computed)",
    "F_adapt0": "FixedWidthBinning, adaptive, no bins yet",
    "E_r": "ExponentialBinning, closed (default)",
    "E_o": "ExponentialBinning, open",
    "F_noalign": "FixedWidthBinning, adaptive, align=False, width 0.25 x 2",
}
AXNAMES = list(AXES)
DEFAULT_RIGHT = {"S": True, "N": True, "F": False, "E": True}


def build_axis(name):
    from physt.binnings import ExponentialBinning, FixedWidthBinning, NumpyBinning, StaticBinning

    if name == "S_nasty_r":
        return StaticBinning(np.array(_pairs(E_NASTY)))
    if name == "S_nice_o":
        return StaticBinning(np.array(_pairs(E_NICE)), includes_right_edge=False)
    if name == "S_gap_r":
        return StaticBinning(np.array(P_GAP), includes_right_edge=True)
    if name == "S_gap_o":
        return StaticBinning(np.array(P_GAP), includes_right_edge=False)
    if name == "S_tiny_r":
        return StaticBinning(np.array(P_TINY), includes_right_edge=True)
    if name == "S_one_o":
        return StaticBinning(np.array([(-1.0, 1.0)]), includes_right_edge=False)
    if name == "N_nasty_r":
        return NumpyBinning(np.array(E_NASTY))
    if name == "N_nice_o":
        return NumpyBinning(np.array(E_NICE), includes_right_edge=False)
    if name == "N_int_r":
        return NumpyBinning(np.array([0, 1, 3], dtype=np.int64))
    if name == "N_one_r":
        return NumpyBinning(np.array([0.5, 0.75]))
    if name == "F_plain":
        return FixedWidthBinning(bin_width=0.5, bin_count=3, bin_times_min=2)
    if name == "F_right":
        return FixedWidthBinning(bin_width=0.5, bin_count=3, bin_times_min=2, includes_right_edge=True)
    if name == "F_adapt":
        return FixedWidthBinning(bin_width=0.5, bin_count=2, bin_times_min=-1, adaptive=True)
    if name == "F_shift":
        return FixedWidthBinning(bin_width=0.1, bin_count=4, bin_times_min=-2, bin_shift=0.25)
    if name == "F_min":
        return FixedWidthBinning(bin_width=0.1, bin_count=2, min=0.3)
    if name == "F_adapt0":
        return FixedWidthBinning(bin_width=2.0, bin_count=0, adaptive=True)
    if name == "F_noalign":
        return FixedWidthBinning(bin_width=0.25, bin_count=2, bin_times_min=3, bin_shift=0.0625, adaptive=True, align=False)
    if name == "E_r":
        return ExponentialBinning(log_min=0.0, log_width=0.5, bin_count=3)
    if name == "E_o":
        return ExponentialBinning(log_min=-1.5, log_width=0.1, bin_count=2, includes_right_edge=False)
    raise ValueError(name)


def axis_is_default(name):
    """Right-edge declaration and adaptivity at their class defaults, no gap."""
    return name in ("S_nasty_r", "N_nasty_r", "N_int_r", "N_one_r", "F_plain", "F_shift", "F_min", "E_r")


DTYPES = ["int16", "int32", "int64", "float16", "float32", "float64", "float128"]


def np_dtype(name):
    if name == "float128":
        return np.dtype(np.longdouble)
    return np.dtype(name)


def palette(dtname, which):
    """Content values of a dtype: `plain` contains the extreme values, `special` NaN / inf / -0.0."""
    dt = np_dtype(dtname)
    if which == "small":
        return [0, 1, 5, 3, 2, 11, 7] if dt.kind == "i" else [0.0, 0.5, 5.0, 0.25, 2.5, 11.0, 7.0]
    if dt.kind == "i":
        mx = int(np.iinfo(dt).max)
        return [0, 1, 5, mx, 2, mx - 1, 7]
    if which == "special":
        return [NAN, 0.5, INF, -0.0, 2.0]
    if dtname == "float16":
        return [0.0, 0.5, 65504.0, 2.0 ** -24, 3.0, float(np.float16(0.1)), 7.0]
    if dtname == "float32":
        return [0.0, float(np.float32(0.1)), float(np.finfo(np.float32).max), 2.0 ** -149, 2.5, float(np.float32(1.0 / 3.0)), 7.0]
    return [0.0, 0.1, 1.7976931348623157e308, 5e-324, 2.5, 1.0 / 3.0, 7.0]


def content_array(dtname, which, shape, offset=0):
    pal = palette(dtname, which)
    n = int(np.prod(shape)) if len(shape) else 1
    vals = [pal[(i + offset) % len(pal)] for i in range(n)]
    dt = np_dtype(dtname)
    return np.array(vals, dtype=dt).reshape(shape)


META = {
    "none": {},
    "names": {"name": "h", "title": "The title"},
    "nested": {"name": "n", "note": {"a": [1, 2.5, None, True, {"b": "c"}], "empty": [], "neg": -0.0, "big": 2 ** 70}, "tags": ["x", "y"], "my key": 1.5},
    "unicode": {"name": "Häufigkeit ∑ 频率 \U0001f600", "title": "a\"b\\c\n\t</x>", "ключ": "значение"},
}
AXIS_NAME_POOL = {"names": ["x", "y", "z", "t"], "nested": None, "unicode": ["α", "β µm", "γ\"", "δ\\"], "none": None}

CLASSES_1D = ["Histogram1D", "RadialHistogram", "AzimuthalHistogram"]
CLASSES_ND = {
    "Histogram2D": 2,
    "HistogramND1": 1,
    "HistogramND2": 2,
    "HistogramND3": 3,
    "HistogramND4": 4,
    "PolarHistogram": 2,
    "SphericalHistogram": 3,
    "SphericalSurfaceHistogram": 2,
    "CylindricalHistogram": 3,
    "CylindricalSurfaceHistogram": 2,
    "CylindricalSurface_proj": 2,  # CylindricalHistogram(3 axes).projection("phi", "z")
}


def klass_dim(klass):
    if klass in CLASSES_1D:
        return 1
    return CLASSES_ND[klass]


def family(klass):
    return "1D" if klass in CLASSES_1D else "ND"


def exc_sig(e):
    msg = re.sub(r"[^A-Za-z ]+", "", str(e))[:40].strip()
    return f"{type(e).__name__}:{msg}"


# ---------------------------------------------------------------------------------------------
# building the original
# ---------------------------------------------------------------------------------------------


def missed_values(dtname, mode, n):
    """n missed values (3 for 1D, 1 for ND) for a mode; None when the mode does not apply to the dtype."""
    kind = np_dtype(dtname).kind
    if mode == "zero":
        return [0] * n if kind == "i" else [0.0] * n
    if mode == "values":
        return ([3, 4, 5] if kind == "i" else [0.5, 2.25, 0.1])[:n] if n == 3 else ([7] if kind == "i" else [2.5])
    if mode == "nan":
        if kind == "i":
            return None
        return [NAN, NAN, 1.5][:n] if n == 3 else [NAN]
    raise ValueError(mode)


NPARGS = ["exp_bin_count_np_int64", "fixed_width_np_float32", "range_np_scalars", "keep_missed_np_bool", "adaptive_np_bool", "binning_ctor_np_scalars",
          "h2_np_int_bin_width", "integer_np_range", "name_np_str", "shift_np_float32", "cylindrical_surface_default_radius"]


def build_npargs(which):
    """Histograms whose arguments were numpy scalars (they are kept in the binning / histogram and must still be written)."""
    import physt.special_histograms as sp
    from physt import h1, h2
    from physt.binnings import FixedWidthBinning
    from physt.histogram1d import Histogram1D

    d = np.array([0.5, 1.5, 1.5, 3.25])
    if which == "exp_bin_count_np_int64":
        return h1(d, "exponential", bin_count=np.int64(4))
    if which == "fixed_width_np_float32":
        return h1(d, "fixed_width", bin_width=np.float32(0.5))
    if which == "range_np_scalars":
        return h1(d, 4, range=(np.float32(0.0), np.float64(4.0)))
    if which == "keep_missed_np_bool":
        return h1(d, np.array([0.0, 1.0, 2.0]), keep_missed=np.bool_(True))
    if which == "adaptive_np_bool":
        return h1(d, "fixed_width", bin_width=1.0, adaptive=np.bool_(True))
    if which == "binning_ctor_np_scalars":
        return Histogram1D(FixedWidthBinning(bin_width=np.float64(1.0), bin_count=np.int64(3), min=np.float32(0.0)), [1, 2, 0])
    if which == "h2_np_int_bin_width":
        return h2(d, d[::-1].copy(), "fixed_width", bin_width=np.int64(1))
    if which == "integer_np_range":
        return h1(d, "integer", range=(np.int64(0), np.int64(4)))
    if which == "name_np_str":
        return h1(d, np.array([0.0, 2.0, 4.0]), name=np.str_("n"), title=np.str_("t"))
    if which == "shift_np_float32":
        return h1(d, "fixed_width", bin_width=1.0, bin_shift=np.float32(0.25))
    if which == "cylindrical_surface_default_radius":
        return sp.cylindrical_surface(np.array([[1.0, 1.0, 0.5], [-1.0, 2.0, 1.5], [0.3, -2.0, 0.7]]), phi_bins=4, z_bins=np.array([0.0, 1.0, 2.0]))
    raise HarnessError(which)


def build_hist(case):
    """The original histogram of a `hist` case (or of a collection member)."""
    if case.get("npargs"):
        return build_npargs(case["npargs"])
    import physt.special_histograms as sp
    from physt.histogram1d import Histogram1D
    from physt.histogram_nd import Histogram2D, HistogramND

    klass = case["klass"]
    dtname = case["dtype"]
    dt = np_dtype(dtname)
    axes = case["axes"]
    binnings = [build_axis(a) for a in axes]
    shape = tuple(int(b.bin_count) for b in binnings)
    content = case.get("content", "plain")
    kw = {}
    if content == "zero":
        freq = None
    else:
        freq = content_array(dtname, content, shape)
    if case.get("errors") == "custom":
        kw["errors2"] = content_array(dtname, "plain", shape, offset=3)
    kw["dtype"] = dt
    kw["keep_missed"] = bool(case.get("keep_missed", True))
    meta = dict(META[case.get("meta", "none")])
    pool = AXIS_NAME_POOL[case.get("meta", "none")]
    kw.update(json.loads(json.dumps(meta)))  # fresh nested containers for every histogram
    dim = klass_dim(klass)
    if klass in CLASSES_1D:
        mv = missed_values(dtname, case.get("missed", "zero"), 3)
        if mv is None:
            raise ValueError("NaN markers need a float dtype")
        kw.update(underflow=mv[0], overflow=mv[1], inner_missed=mv[2])
        if pool:
            kw["axis_name"] = pool[0]
        cls = {"Histogram1D": Histogram1D, "RadialHistogram": sp.RadialHistogram, "AzimuthalHistogram": sp.AzimuthalHistogram}[klass]
        return cls(binnings[0], freq, **kw)
    mv = missed_values(dtname, case.get("missed", "zero"), 1)
    if mv is None:
        raise ValueError("NaN markers need a float dtype")
    kw["missed"] = mv[0]
    if klass == "CylindricalSurface_proj":
        names = pool[:3] if pool else None
        if content == "plain":  # sums over the first axis must stay inside the dtype
            freq = content_array(dtname, "small", shape)
        if "errors2" in kw:
            kw["errors2"] = content_array(dtname, "small", shape, offset=3)
        parent = sp.CylindricalHistogram(binnings, freq, axis_names=names, **kw)
        return parent.projection(1, 2)
    if pool:
        kw["axis_names"] = pool[:dim]
    elif klass == "CylindricalSurfaceHistogram":
        kw["axis_names"] = ["phi", "z"]  # the class default has three names for two axes
    if klass == "Histogram2D":
        return Histogram2D(binnings, freq, **kw)
    if klass.startswith("HistogramND"):
        return HistogramND(binnings, freq, dimension=dim, **kw)
    cls = getattr(sp, klass)
    return cls(binnings, freq, **kw)


def build_collection(case):
    from physt.histogram_collection import HistogramCollection

    members = []
    for m in case["members"]:
        mc = dict(MEMBER_VARIANTS[m])
        mc.update(klass=mc.get("klass", "Histogram1D"), axes=[case["axis"]])
        members.append(build_hist(mc))
    ckw = dict(COLL_META[case.get("cmeta", "none")])
    if not members:
        return HistogramCollection(binning=build_axis(case["axis"]), **ckw)
    return HistogramCollection(*members, **ckw)


MEMBER_VARIANTS = {
    "plain_i64": {"dtype": "int64", "content": "plain", "meta": "names"},
    "f64_missed": {"dtype": "float64", "content": "plain", "missed": "values", "meta": "none"},
    "f32_nan": {"dtype": "float32", "content": "plain", "missed": "nan", "meta": "nested"},
    "i32_nokeep": {"dtype": "int32", "content": "plain", "missed": "values", "keep_missed": False, "meta": "none"},
    "f64_unicode": {"dtype": "float64", "content": "special", "meta": "unicode"},
    "i16_err": {"dtype": "int16", "content": "plain", "errors": "custom", "meta": "names"},
    "zero_f16": {"dtype": "float16", "content": "zero", "meta": "none"},
    "f128": {"dtype": "float128", "content": "plain", "meta": "none"},
    # coordinate-transformed 1D members: the member's class must survive too
    "radial_f64": {"dtype": "float64", "content": "plain", "meta": "none", "klass": "RadialHistogram"},
    "azimuthal_i64": {"dtype": "int64", "content": "plain", "missed": "values", "meta": "names", "klass": "AzimuthalHistogram"},
}
COLL_META = {
    "none": {},
    "name": {"name": "coll"},
    "name_title": {"name": "coll", "title": "Collection title"},
    "title": {"title": "only a title"},
    "unicode": {"name": "コレクション", "title": "t\"\\\n"},
}

# ---------------------------------------------------------------------------------------------
# snapshots (public attributes only, exact)
# ---------------------------------------------------------------------------------------------


def _r(v):
    """Exact, NaN-safe, sign-of-zero preserving text of a scalar."""
    if isinstance(v, (bool, np.bool_)):
        return repr(bool(v))
    if isinstance(v, (int, np.integer)):
        return repr(int(v))
    if isinstance(v, np.floating) and np.dtype(type(v)).itemsize > 8:
        return "nan" if np.isnan(v) else "ld:" + repr(v)
    try:
        f = float(v)
    except (TypeError, ValueError):
        return "?" + repr(v)
    if math.isnan(f):
        return "nan"
    return repr(f)


def exact(a, with_dtype=True):
    a = np.asarray(a)
    body = (tuple(a.shape), tuple(_r(v) for v in a.ravel().tolist()))
    return (str(a.dtype),) + body if with_dtype else body


def canon(v):
    """Canonical text of a metadata value (tuples read as lists)."""
    return json.dumps(v, sort_keys=True, default=lambda o: list(o) if isinstance(o, (tuple, set)) else repr(o))


def hist_snap(h):
    """group -> comparable value.  Groups are the items of the statement."""
    s = {}
    s["class"] = type(h).__module__ + "." + type(h).__name__
    bs = list(h.binnings)
    s["ndim"] = int(h.ndim)
    s["binning_class"] = tuple(type(b).__name__ for b in bs)
    s["edges"] = tuple(exact(np.asarray(b.bins, dtype=np.float64), with_dtype=False) for b in bs)
    s["right_edge"] = tuple(bool(b.includes_right_edge) for b in bs)
    s["adaptive"] = tuple(bool(b.is_adaptive()) for b in bs)
    s["contents"] = exact(h.frequencies, with_dtype=False)
    s["errors2"] = exact(h.errors2, with_dtype=False)
    s["dtype"] = (str(np.dtype(h.dtype)), str(h.frequencies.dtype), str(h.errors2.dtype))
    s["keep_missed"] = bool(h.keep_missed)
    if hasattr(h, "underflow"):
        s["missed"] = (_r(h.underflow), _r(h.overflow), _r(h.inner_missed))
    else:
        s["missed"] = (_r(h.missed),)
    s["name"] = canon(h.name)
    s["title"] = canon(h.title)
    s["axis_names"] = canon(list(h.axis_names))
    md = h.meta_data
    s["meta"] = {str(k): canon(md[k]) for k in md}
    return s


GROUP_ORDER = ["class", "ndim", "binning_class", "edges", "right_edge", "adaptive", "contents", "errors2", "dtype", "missed", "keep_missed", "name", "title", "axis_names", "meta"]
# what __eq__ of the histogram classes may legitimately look at
EQ_RELEVANT = ["class", "ndim", "binning_class", "edges", "contents", "errors2", "missed", "keep_missed", "name", "axis_names"]


def snap_diff(a, b, orig_keeps_missed=True):
    """[(group, detail, expected, observed)] for all groups in which two snapshots differ."""
    out = []
    for g in GROUP_ORDER:
        if g == "missed" and len(a["missed"]) == 3 and not orig_keeps_missed:
            continue
        if a[g] == b[g]:
            continue
        detail = ""
        if g == "meta":
            keys = sorted(k for k in set(a[g]) | set(b[g]) if a[g].get(k, "<absent>") != b[g].get(k, "<absent>"))
            known = set()
            for m in META.values():
                known.update(m)
            known.update(["axis_names", "missed", "radius", "dimension", "missed_keep", "keep_missed", "dtype"])
            detail = "|keys=" + "+".join(k if k in known else "other" for k in keys)
        out.append((g, detail, a[g], b[g]))
    return out


# ---------------------------------------------------------------------------------------------
# serialisation paths
# ---------------------------------------------------------------------------------------------

PATHS = {
    "text": {},
    "file": {},
    "text_indent": {"indent": 2, "sort_keys": True},
    "file_utf8": {"ensure_ascii": False},
    "text_compact": {"separators": (",", ":")},
}


class Scratch:
    """A directory under /var/tmp that lives for one unit (or one replayed case)."""

    def __init__(self):
        self.dir = None

    def path(self):
        if self.dir is None:
            self.dir = tempfile.mkdtemp(prefix="c08_", dir="/var/tmp")
        return os.path.join(self.dir, "doc.json")

    def close(self):
        if self.dir is not None:
            shutil.rmtree(self.dir, ignore_errors=True)
            self.dir = None


def serialise(obj, path, scratch):
    """-> (Out of the writer, reader thunk).  `file*` paths go through save_json(path) / load_json."""
    from pathlib import Path

    from physt.io import load_json, parse_json, save_json

    kw = dict(PATHS[path])
    if path.startswith("file"):
        fn = scratch.path()
        if os.path.exists(fn):
            os.remove(fn)
        target = Path(fn) if path == "file_utf8" else fn
        w = call(save_json, obj, target, **kw)
        return w, (lambda: call(load_json, target))
    w = call(obj.to_json, **kw)
    return w, (lambda: call(parse_json, w.value))


def reserialise(obj, path):
    kw = dict(PATHS[path])
    return call(obj.to_json, **kw)


def doc_diff_keys(t1, t2):
    """Top-level keys in which two documents differ (NaN-safe); ['<text>'] if only the text differs."""
    try:
        d1, d2 = json.loads(t1), json.loads(t2)
    except Exception:  # noqa: BLE001
        return ["<unparsable>"]
    if not isinstance(d1, dict) or not isinstance(d2, dict):
        return ["<toplevel>"]
    keys = []
    for k in sorted(set(d1) | set(d2)):
        a = json.dumps(d1.get(k, "<absent>"), sort_keys=False)
        b = json.dumps(d2.get(k, "<absent>"), sort_keys=False)
        if a != b:
            keys.append(k)
    if d1.get("histogram_type") == "histogram_collection" and keys == ["histograms"]:
        sub = set()
        h1, h2 = d1.get("histograms", []), d2.get("histograms", [])
        if len(h1) != len(h2):
            return ["histograms:length"]
        for m1, m2 in zip(h1, h2):
            for k in doc_diff_keys(json.dumps(m1), json.dumps(m2)):
                sub.add("histograms:" + k)
        return sorted(sub)
    return keys or ["<text>"]


# ---------------------------------------------------------------------------------------------
# evaluators
# ---------------------------------------------------------------------------------------------


def eq_cause(diffs):
    groups = [d[0] for d in diffs]
    for g in EQ_RELEVANT:
        if g in groups:
            return g
    return "unexplained"


FAMILY_GROUPS = ("missed", "meta", "axis_names")  # read back by family-specific code (1D vs ND constructors)

# top-level document key -> snapshot groups that explain a difference in it
KEYMAP = {
    "histogram_type": ["class"],
    "binnings": ["binning_class", "edges", "adaptive", "right_edge", "ndim"],
    "frequencies": ["contents"],
    "errors2": ["errors2"],
    "dtype": ["dtype"],
    "meta_data": ["meta", "name", "title", "axis_names"],
    "missed": ["missed"],
    "missed_keep": ["keep_missed"],
}


def compare_hists(orig, parsed, fam, case, out, where=""):
    """Field-by-field comparison of two histograms; appends violations, returns differing groups."""
    a = hist_snap(orig)
    b = hist_snap(parsed)
    diffs = snap_diff(a, b, orig_keeps_missed=a["keep_missed"])
    for g, detail, exp, obs in diffs:
        if g in ("right_edge", "binning_class", "edges", "adaptive"):
            sig = f"field|binning|{g}"
        elif g in FAMILY_GROUPS:
            sig = f"field|{fam}|{g}{detail}"
        else:
            sig = f"field|{g}"
        out.append(V("field:" + g, sig, case, exp, obs))
    return diffs


def unexplained_keys(keys, diffs):
    """Document keys whose difference is not the direct consequence of a reported field difference."""
    groups = {d[0] for d in diffs}
    out = []
    for k in keys:
        base = k.split(":", 1)[1] if k.startswith("histograms:") else k
        if not any(g in groups for g in KEYMAP.get(base, [])):
            out.append(k)
    return out


def evaluate_hist(case, scratch=None):
    own = scratch is None
    scratch = scratch or Scratch()
    try:
        return _evaluate_hist(case, scratch)
    finally:
        if own:
            scratch.close()


def _evaluate_hist(case, scratch):
    out = []
    klass = case["klass"]
    fam = family(klass)
    path = case.get("path", "text")
    b = call(build_hist, case)
    if not b.ok:
        return out, f"{fam}:unconstructible:{type(b.exc).__name__}"
    orig = b.value
    w, reader = serialise(orig, path, scratch)
    if not w.ok:
        out.append(V("serialise", f"serialise|dtype={case['dtype']}|{type(w.exc).__name__}", case, "a JSON document", w.describe()))
        return out, f"{fam}:serialise-raise:{type(w.exc).__name__}"
    text = w.value
    r = reader()
    if not r.ok:
        zero = int(any(int(b.bin_count) == 0 for b in orig.binnings))
        out.append(V("parse", f"parse|{fam}|zero_bins={zero}|{exc_sig(r.exc)}", case, "the histogram", r.describe()))
        return out, f"{fam}:parse-raise:{type(r.exc).__name__}"
    parsed = r.value
    if type(parsed) is not type(orig):
        out.append(V("class", f"class|{fam}|{klass}", case, type(orig).__name__, type(parsed).__name__))
        return out, f"{fam}:other-class"
    diffs = compare_hists(orig, parsed, fam, case, out)
    # == (only meaningful when the original equals itself).  A failing == that follows from a field
    # difference reported above is that same finding, not a new one.
    refl = call(lambda: bool(orig == orig))
    label_eq = "eq"
    if refl.ok and refl.value:
        e = call(lambda: bool(parsed == orig))
        e2 = call(lambda: bool(orig == parsed))
        if not (e.ok and e.value and e2.ok and e2.value):
            label_eq = "neq"
            if eq_cause(diffs) == "unexplained":
                out.append(V("eq", f"eq|{fam}|unexplained", case, "parsed == original and original == parsed", [e.describe(), e2.describe()]))
    else:
        label_eq = "eq-not-reflexive"
    # second serialisation
    s2 = reserialise(parsed, path)
    label_doc = "same-doc"
    if not s2.ok:
        label_doc = "reserialise-raise"
        out.append(V("reserialise", f"reserialise|{fam}|{type(s2.exc).__name__}", case, "the same document", s2.describe()))
    elif s2.value != text:
        label_doc = "other-doc"
        for k in unexplained_keys(doc_diff_keys(text, s2.value), diffs):
            out.append(V("reserialise", f"reserialise|{fam}|key={k}", case, _excerpt(text, k), _excerpt(s2.value, k)))
    groups = "+".join(sorted({d[0] for d in diffs})) or "exact"
    return out, f"{fam}:{label_eq}:{label_doc}:{groups}"


def _excerpt(text, key):
    try:
        d = json.loads(text)
        if key.startswith("histograms:") and isinstance(d.get("histograms"), list):
            k = key.split(":", 1)[1]
            return [m.get(k, "<absent>") if isinstance(m, dict) else m for m in d["histograms"]][:3]
        return d.get(key, "<absent>")
    except Exception:  # noqa: BLE001
        return text[:300]


def evaluate_coll(case, scratch=None):
    own = scratch is None
    scratch = scratch or Scratch()
    try:
        return _evaluate_coll(case, scratch)
    finally:
        if own:
            scratch.close()


def _evaluate_coll(case, scratch):
    from physt.histogram_collection import HistogramCollection

    out = []
    path = case.get("path", "text")
    n = len(case["members"])
    b = call(build_collection, case)
    if not b.ok:
        return out, f"coll:unconstructible:{type(b.exc).__name__}"
    orig = b.value
    w, reader = serialise(orig, path, scratch)
    if not w.ok:
        dts = sorted({MEMBER_VARIANTS[m]["dtype"] for m in case["members"]})
        bad = "float128" if "float128" in dts else "+".join(dts)
        out.append(V("serialise", f"serialise|dtype={bad}|{type(w.exc).__name__}", case, "a JSON document", w.describe()))
        return out, f"coll:serialise-raise:{type(w.exc).__name__}"
    text = w.value
    r = reader()
    if not r.ok:
        out.append(V("parse", f"parse|coll|members={'0' if n == 0 else '>0'}|{exc_sig(r.exc)}", case, "the collection", r.describe()))
        return out, f"coll:parse-raise:{type(r.exc).__name__}"
    parsed = r.value
    if type(parsed) is not HistogramCollection:
        out.append(V("class", "class|coll", case, "HistogramCollection", type(parsed).__name__))
        return out, "coll:other-class"
    pl = call(len, parsed)
    if not pl.ok or pl.value != n:
        out.append(V("members", "coll|length", case, n, pl.describe()))
        return out, "coll:length"
    alld = []
    for i in range(n):
        mo, mp = orig.histograms[i], parsed.histograms[i]
        if type(mo) is not type(mp):
            out.append(V("class", "class|coll-member", case, type(mo).__name__, type(mp).__name__))
            continue
        alld += compare_hists(mo, mp, "1D", case, out)
    coll_d = []
    for attr in ("name", "title"):
        a, bb = getattr(orig, attr, "<absent>"), getattr(parsed, attr, "<absent>")
        if canon(a) != canon(bb):
            coll_d.append(attr)
            out.append(V("field:" + attr, f"field|coll|{attr}", case, a, bb))
    # the shared binning (this is all an empty collection consists of)
    ba, bp = orig.binning, parsed.binning
    if type(ba).__name__ != type(bp).__name__:
        out.append(V("field:binning_class", "field|coll|binning_class", case, type(ba).__name__, type(bp).__name__))
    elif exact(np.asarray(ba.bins, dtype=float), False) != exact(np.asarray(bp.bins, dtype=float), False):
        out.append(V("field:edges", "field|coll|edges", case, np.asarray(ba.bins), np.asarray(bp.bins)))
    refl = call(lambda: bool(orig == orig))
    label_eq = "eq"
    if refl.ok and refl.value:
        e = call(lambda: bool(parsed == orig))
        if not (e.ok and e.value):
            label_eq = "neq"
            if eq_cause(alld) == "unexplained":
                out.append(V("eq", "eq|coll|unexplained", case, "parsed == original", e.describe()))
    else:
        label_eq = "eq-not-reflexive"
    s2 = reserialise(parsed, path)
    label_doc = "same-doc"
    if not s2.ok:
        label_doc = "reserialise-raise"
        out.append(V("reserialise", f"reserialise|coll|{type(s2.exc).__name__}", case, "the same document", s2.describe()))
    elif s2.value != text:
        label_doc = "other-doc"
        for k in unexplained_keys(doc_diff_keys(text, s2.value), alld):
            out.append(V("reserialise", f"reserialise|coll|key={k}", case, _excerpt(text, k), _excerpt(s2.value, k)))
    groups = "+".join(sorted({d[0] for d in alld} | set(coll_d))) or "exact"
    return out, f"coll:{label_eq}:{label_doc}:{groups}"


# ---------------------------------------------------------------------------------------------
# versions
# ---------------------------------------------------------------------------------------------

_VRE = re.compile(r"^v?(\d+(?:\.\d+)*)(?:(?:(a|b|rc)(\d+))|(?:\.post(\d+))|(?:\.dev(\d+)))?(\+[a-z0-9.]+)?$")


def vkey(s):
    """Ordering key of a (simple) PEP 440 version; None if not understood; third item: has a local part."""
    if not isinstance(s, str):
        return None
    m = _VRE.match(s.strip().lower())
    if not m:
        return None
    rel = [int(x) for x in m.group(1).split(".")]
    while len(rel) > 1 and rel[-1] == 0:
        rel.pop()
    if m.group(2):
        stage = ({"a": 1, "b": 2, "rc": 3}[m.group(2)], int(m.group(3)))
    elif m.group(4) is not None:
        stage = (5, int(m.group(4)))
    elif m.group(5) is not None:
        stage = (0, int(m.group(5)))
    else:
        stage = (4, 0)
    return (tuple(rel), stage, bool(m.group(6)))


def running_version():
    import physt

    k = vkey(physt.__version__)
    if k is None:
        raise HarnessError(f"running version {physt.__version__!r} not understood by the reference ordering")
    return physt.__version__, k


def version_expectation(v):
    """MUST_RAISE / MUST_SUCCEED / EITHER for a physt_compatible stamp."""
    _, run = running_version()
    k = vkey(v)
    if k is None:
        return "EITHER"
    if (k[0], k[1]) > (run[0], run[1]):
        return "MUST_RAISE"
    if k[2] and (k[0], k[1]) == (run[0], run[1]):
        return "EITHER"  # same public version plus a local label: "newer" is a matter of convention
    return "MUST_SUCCEED"


def version_grid():
    rv, run = running_version()
    rel = list(run[0]) + [0] * (3 - len(run[0]))
    M, m, p = rel[0], rel[1], rel[2]

    def around(x):
        return sorted({v for v in (0, x - 1, x, x + 1, x + 2, 10, 99, 100) if v >= 0})

    vs = []
    for a in sorted({v for v in (M - 1, M, M + 1, M + 10) if v >= 0}):
        for b in around(m):
            for c in around(p):
                vs.append(f"{a}.{b}.{c}")
    base = f"{M}.{m}.{p}"
    nxt = f"{M}.{m}.{p + 1}"
    prv = f"{M}.{m}.{p - 1}" if p > 0 else f"{M}.{max(m - 1, 0)}.99"
    vs += [f"{M}", f"{M + 1}", f"{M}.{m}", f"{M}.{m + 1}", f"{M}.{m + 2}", f"{base}.0", f"{base}.1", f"{base}.0.0", f"{M}.{m}.{p}.0.1"]
    for b in (base, nxt, prv):
        vs += [b + "a1", b + "b2", b + "rc1", b + "rc10", b + ".dev0", b + ".dev3", b + ".post1", b + ".post0"]
    vs += ["0.3.20", "0.4.5", "0.0.0", "0", "v" + base, "v" + nxt, " " + nxt + " ", base.replace(".", ".0", 1)]
    # left open
    vs += [base + "+local", nxt + "+local", "1!" + base, "", "abc", base + ".x", "newest"]
    seen = []
    for v in vs:
        if v not in seen:
            seen.append(v)
    return seen


VERSION_DOCS = {
    "h1": {"kind": "hist", "klass": "Histogram1D", "axes": ["N_nasty_r"], "dtype": "int64", "content": "plain", "meta": "names"},
    "h2": {"kind": "hist", "klass": "Histogram2D", "axes": ["S_gap_r", "F_plain"], "dtype": "float64", "content": "plain", "meta": "none"},
    "polar": {"kind": "hist", "klass": "PolarHistogram", "axes": ["N_nice_o", "E_r"], "dtype": "float32", "content": "plain", "meta": "none"},
    "coll": {"kind": "coll", "axis": "S_nasty_r", "members": ["plain_i64", "f64_missed"], "cmeta": "name"},
}


def evaluate_version(case, scratch=None):
    own = scratch is None
    scratch = scratch or Scratch()
    try:
        return _evaluate_version(case, scratch)
    finally:
        if own:
            scratch.close()


def _evaluate_version(case, scratch):
    from physt.io import load_json, parse_json

    out = []
    docname = case["doc"]
    spec = VERSION_DOCS[docname]
    obj = build_collection(spec) if spec["kind"] == "coll" else build_hist(spec)
    w = call(obj.to_json)
    if not w.ok:
        out.append(V("serialise", f"serialise|version-doc|{type(w.exc).__name__}", case, "a document", w.describe()))
        return out, "version:serialise-raise"
    d = json.loads(w.value)
    v = case["version"]
    if case.get("stamp") == "absent":
        d.pop("physt_compatible", None)
        exp = "EITHER"
    elif case.get("stamp") == "as_written":
        v = d.get("physt_compatible")
        exp = "MUST_SUCCEED"
        rv, _ = running_version()
        if d.get("physt_version") != rv:
            out.append(V("stamp", "stamp|physt_version", case, rv, d.get("physt_version")))
        if version_expectation(v) != "MUST_SUCCEED":
            out.append(V("stamp", "stamp|physt_compatible-newer-than-running", case, "<= " + rv, v))
    else:
        d["physt_compatible"] = v
        exp = version_expectation(v)
    text = json.dumps(d)
    if case.get("path", "text") == "file":
        fn = scratch.path()
        with open(fn, "w", encoding="utf-8") as f:
            f.write(text)
        r = call(load_json, fn)
    else:
        r = call(parse_json, text)
    cls = "coll" if spec["kind"] == "coll" else "hist"
    if exp == "MUST_RAISE" and r.ok:
        out.append(V("version_refused", f"version|accepted-newer|{cls}", case, "refusal (any exception)", r.describe()))
    elif exp == "MUST_SUCCEED":
        if not r.ok:
            out.append(V("version_accepted", f"version|refused-not-newer|{cls}|{type(r.exc).__name__}", case, "the object", r.describe()))
        elif type(r.value) is not type(obj):
            out.append(V("version_accepted", f"version|other-class|{cls}", case, type(obj).__name__, type(r.value).__name__))
    return out, f"version:{exp}:{'ok' if r.ok else type(r.exc).__name__}"


# ---------------------------------------------------------------------------------------------
# dispatch, replay
# ---------------------------------------------------------------------------------------------


def evaluate(case, scratch=None):
    k = case.get("kind", "hist")
    if k == "hist":
        return evaluate_hist(case, scratch)
    if k == "coll":
        return evaluate_coll(case, scratch)
    if k == "version":
        return evaluate_version(case, scratch)
    raise HarnessError(f"unknown case kind {k!r}")


def replay(case):
    return evaluate(case)[0]


def nontrivial(case):
    k = case.get("kind", "hist")
    if k == "version":
        return case.get("stamp") != "as_written"
    if k == "coll":
        return len(case["members"]) != 1 or case.get("cmeta", "none") != "none" or case.get("path", "text") != "text" or case["members"][0] != "plain_i64"
    return not (
        case["dtype"] in ("int64", "float64")
        and case.get("content", "plain") in ("plain", "zero")
        and case.get("missed", "zero") == "zero"
        and case.get("keep_missed", True)
        and case.get("errors", "default") == "default"
        and case.get("meta", "none") == "none"
        and case.get("path", "text") == "text"
        and all(axis_is_default(a) for a in case["axes"])
    )


# ---------------------------------------------------------------------------------------------
# enumeration
# ---------------------------------------------------------------------------------------------

OPT_FULL = {
    "content": ["plain", "zero", "special"],
    "missed": ["zero", "values", "nan"],
    "keep_missed": [True, False],
    "errors": ["default", "custom"],
    "meta": ["none", "names", "nested", "unicode"],
    "path": ["text", "file"],
}
OPT_ND = dict(OPT_FULL, content=["plain", "special"])
OPT_KWARGS = {
    "content": ["plain", "special"],
    "missed": ["values"],
    "keep_missed": [True],
    "errors": ["default"],
    "meta": ["none", "nested", "unicode"],
    "path": ["text_indent", "file_utf8", "text_compact"],
}
PROFILES = {"full": OPT_FULL, "nd": OPT_ND, "kwargs": OPT_KWARGS}


def option_product(profile, dtypes):
    o = PROFILES[profile]
    for dtname in dtypes:
        isint = np_dtype(dtname).kind == "i"
        for content, missed, keep, err, meta, path in itertools.product(o["content"], o["missed"], o["keep_missed"], o["errors"], o["meta"], o["path"]):
            if isint and (content == "special" or missed == "nan"):
                continue  # not representable in an integer dtype
            yield {"dtype": dtname, "content": content, "missed": missed, "keep_missed": keep, "errors": err, "meta": meta, "path": path}


STRIDE = (0, 5, 11, 16)


def axis_tuples(dim, count):
    """`count` axis tuples; with count >= len(AXNAMES) every binning appears on every axis."""
    n = len(AXNAMES)
    step = max(1, n // count) if count < n else 1
    out = []
    for i in range(count):
        rnd = i // n
        out.append([AXNAMES[(i * step + STRIDE[a] + rnd * a) % n] for a in range(dim)])
    return out


def units(tier, seed):
    thorough = tier == "thorough"
    n = len(AXNAMES)
    g1, g2, g3, gt, gc = [], [], [], [], []
    # 1D family
    for a in AXNAMES:
        for klass in CLASSES_1D:
            g1.append({"kind": "hist", "klass": klass, "axes_list": [[a]], "profile": "full", "dtypes": DTYPES})
    # 2D
    if thorough:
        for a in AXNAMES:
            g2.append({"kind": "hist", "klass": "Histogram2D", "axes_list": [[a, b] for b in AXNAMES], "profile": "nd", "dtypes": DTYPES})
    else:
        for i, a in enumerate(AXNAMES):
            g2.append({"kind": "hist", "klass": "Histogram2D", "axes_list": [[a, AXNAMES[(i + 5) % n]]], "profile": "nd", "dtypes": DTYPES})
    # 3D / 4D
    t3 = axis_tuples(3, 114 if thorough else 8)
    for t in _chunks(t3, 3 if thorough else 1):
        g3.append({"kind": "hist", "klass": "HistogramND3", "axes_list": t, "profile": "nd", "dtypes": DTYPES})
    t4 = axis_tuples(4, 19 if thorough else 4)
    for t in _chunks(t4, 1):
        g3.append({"kind": "hist", "klass": "HistogramND4", "axes_list": t, "profile": "nd", "dtypes": DTYPES})
    # HistogramND with 1 / 2 axes and the transformed ND classes
    for klass, dim in CLASSES_ND.items():
        if klass in ("Histogram2D", "HistogramND3", "HistogramND4"):
            continue
        sdim = 3 if klass == "CylindricalSurface_proj" else dim
        ts = axis_tuples(sdim, 19 if thorough else 6)
        if klass == "CylindricalSurface_proj":
            # the projection reads the last edge of the first axis: it needs at least one bin there
            ts = [["F_noalign" if (i == 0 and a == "F_adapt0") else a for i, a in enumerate(t)] for t in ts]
        for t in _chunks(ts, 2):
            gt.append({"kind": "hist", "klass": klass, "axes_list": t, "profile": "nd", "dtypes": DTYPES})
    # collections
    variants = list(MEMBER_VARIANTS) if thorough else list(MEMBER_VARIANTS)[:4] + ["radial_f64", "azimuthal_i64"]
    for a in AXNAMES:
        gc.append({"kind": "coll", "axis": a, "variants": variants, "max_members": 3})
    # cheap and diverse units first, then the groups interleaved: a run that hits its time budget
    # has still seen every kind of unit
    us = [{"kind": "version"}, {"kind": "npargs"}, {"kind": "coll", "axis": "S_nasty_r", "variants": ["plain_i64", "f128"], "max_members": 2}]
    for klass in ["Histogram1D", "Histogram2D", "SphericalHistogram"]:
        us.append({"kind": "hist", "klass": klass, "axes_list": axis_tuples(klass_dim(klass), n), "profile": "kwargs", "dtypes": DTYPES})
    for row in itertools.zip_longest(gc, g2, gt, g1[0::3], g3, g1[1::3], g1[2::3]):
        us.extend(u for u in row if u is not None)
    return us


def _chunks(lst, k):
    return [lst[i:i + k] for i in range(0, len(lst), k)]


def run_unit(unit, ctx):
    p = Partial()
    scratch = Scratch()
    try:
        _run_unit(unit, ctx, p, scratch)
    finally:
        scratch.close()
    return p


def _record(p, case, scratch, k, sample_at):
    vs, label = evaluate(case, scratch)
    if ":unconstructible:" in label:
        p.count("unconstructible")
        p.outcome(label)
        return
    p.ev(nontrivial(case))
    p.outcome(label[:70])
    p.extend(vs)
    if label.endswith("eq-not-reflexive") or ":eq-not-reflexive:" in label:
        p.count("eq_not_reflexive")
    if case.get("path", "text").startswith("file"):
        p.count("documents_via_file")
    if k in sample_at:
        p.sample(case)


def _run_unit(unit, ctx, p, scratch):
    kind = unit["kind"]
    k = 0
    if kind == "npargs":
        for which in NPARGS:
            for path in ("text", "file"):
                klass = "Histogram2D" if which.startswith("h2") else ("CylindricalSurfaceHistogram" if which.startswith("cyl") else "Histogram1D")
                case = {"kind": "hist", "klass": klass, "npargs": which, "dtype": "int64", "path": path, "axes": [], "content": "plain", "meta": "none"}
                _record(p, case, scratch, k, {3})
                k += 1
        return
    if kind == "hist":
        sample_at = {(37 + 101 * ctx.unit_index + 11 * ctx.seed) % 900}
        for axes in unit["axes_list"]:
            for opt in option_product(unit["profile"], unit["dtypes"]):
                if (k & 127) == 0 and ctx.expired():
                    p.capped = True
                    p.notes.append(f"{unit['klass']} {axes}: stopped after {k} cases")
                    return
                case = {"kind": "hist", "klass": unit["klass"], "axes": axes}
                case.update(opt)
                _record(p, case, scratch, k, sample_at)
                k += 1
    elif kind == "coll":
        sample_at = {(101 + 37 * ctx.unit_index + 13 * ctx.seed) % 2000}
        for n in range(unit["max_members"] + 1):
            for members in itertools.product(unit["variants"], repeat=n):
                for cmeta in COLL_META:
                    for path in ("text", "file"):
                        if (k & 127) == 0 and ctx.expired():
                            p.capped = True
                            p.notes.append(f"collection {unit['axis']}: stopped after {k} cases")
                            return
                        case = {"kind": "coll", "axis": unit["axis"], "members": list(members), "cmeta": cmeta, "path": path}
                        _record(p, case, scratch, k, sample_at)
                        k += 1
    elif kind == "version":
        sample_at = {57 + 7 * (ctx.seed % 5)}
        for doc in VERSION_DOCS:
            for path in ("text", "file"):
                for stamp in ("as_written", "absent"):
                    case = {"kind": "version", "doc": doc, "version": None, "stamp": stamp, "path": path}
                    _record(p, case, scratch, -1, sample_at)
                for v in version_grid():
                    case = {"kind": "version", "doc": doc, "version": v, "path": path}
                    _record(p, case, scratch, k, sample_at)
                    p.count("version:" + version_expectation(v))
                    k += 1
    else:
        raise HarnessError(f"unknown unit kind {kind!r}")
