"""C05 - adding histograms equals histogramming the combined data.

Exhaustive enumeration of operand tuples / partitions / orders / parenthesisations / dask chunkings
and task orders on the real code; differential oracle against construction from the combined data.
"""
from __future__ import annotations

import copy
import functools
import itertools
import math
import re

import numpy as np

from mc import alphabet as A
from mc.core import Partial, V
from mc.outcome import call
from mc.refmodel import frac, ulp_close
from mc.snapshot import content_snap, diff, fl, snap, stats_snap

ID = "C05"
LEVEL = "model_checking"
RULE = (
    "(a) all ordered pairs (and triples of smaller sets) of data sets = multisets of <= 2 entries over the edge alphabet x "
    "weight mode (none / int / float, so that int+float promotion occurs), for 1D regular, 1D gapped and 2D bins: "
    "h(A)+h(B) vs h(A u B), b+a, +=, radd/sum, operands untouched, dtype = promote_types, statistics; "
    "(b) every set partition of data sets of <= 4 entries into chunks x every permutation of the chunks x every "
    "parenthesisation of the sum (states = sub-multisets reached; confluence: all ways give one snapshot), plus sum(list), "
    "HistogramCollection.sum, reduce(iadd); (c) all ordered pairs of adaptive fixed-width histograms (1D three widths, 2D) "
    "over small data sets: union span on the common grid, nothing lost, == direct construction; (d) every dask chunking "
    "(composition of n) x every execution order of the chunk tasks via dask_method; (e) refusals (different edges / shape / "
    "dimension / non-histogram / incompatible adaptive grids / adaptive + missed) leave both operands unchanged. "
    "Non-trivial: operands with under/overflow or edge values, mixed dtypes, differing adaptive ranges, >= 2 chunks."
)
ASSUMPTIONS = [
    "construction from the combined data (C01/C02) is the reference for the sum",
    "statistics sums are compared with exact rationals within 4 ulp (values are not all dyadic); weight/min/max exactly",
    "near-equal edges (within allclose) count as equal for the library; refusal alphabet uses clearly different edges",
]
BOUNDS = {
    "quick": "pairs over multisets<=2 (8 values x 3 weight modes), partitions of 5 data sets of <=4 entries, adaptive multisets<=2 x 3 widths, dask n<=4",
    "thorough": "adds triples, 2D adaptive, partitions of 10 data sets, dask n<=6 (1631 executions per data set)",
}
BUDGET = {"quick": 240, "thorough": 3000}

NAN = float("nan")
REG = A.pairs_from_edges([0, 1, 2, 3])
GAP = [(0.0, 1.0), (2.0, 3.0)]


def exc_sig(e):
    msg = re.sub(r"[^A-Za-z ]+", "", str(e))[:40].strip()
    return f"{type(e).__name__}:{msg}"


def wlist(wmode, n):
    if wmode is None:
        return None
    if wmode == "int":
        return [2] * n
    if wmode == "float":
        return [0.5] * n
    if wmode == "zero":
        return [0.0] * n  # valid (non-negative) weights: entered values still count for min / max
    raise ValueError(wmode)


def build1d(pairs, data, wmode, gapped=False, dtype=None):
    from physt import h1

    kw = {}
    w = wlist(wmode, len(data))
    if w is not None:
        kw["weights"] = np.array(w, dtype=(np.int64 if wmode == "int" else np.float64))
    if gapped and wmode != "float":
        kw["dtype"] = float  # integer contents cannot hold the NaN markers of non-consecutive bins (known finding C01)
    return h1(np.array(data, dtype=float), np.array(pairs), **kw)


def build1d_union(pairs, parts, gapped=False):
    """parts: list of (data, wmode)."""
    from physt import h1

    data = [x for d, _ in parts for x in d]
    modes = {m for d, m in parts if len(d)}
    if modes <= {None}:
        w = None
    else:
        w = [x for d, m in parts for x in (wlist(m, len(d)) or [1] * len(d))]
    kw = {}
    if w is not None:
        isf = any(isinstance(x, float) for x in w)
        kw["weights"] = np.array(w, dtype=(np.float64 if isf else np.int64))
    if gapped and not (w is not None and any(isinstance(x, float) for x in w)):
        kw["dtype"] = float
    return h1(np.array(data, dtype=float), np.array(pairs), **kw)


def stats_close(st, entries):
    """statistics object vs exact rational sums of entries [(x, w)]; sums within 8 ulp of the
    magnitude of the summands (cancellation makes a relative bound on the result meaningless)."""
    if not entries:
        return st.weight == 0
    s1 = sum(frac(x) * frac(w) for x, w in entries)
    s2 = sum(frac(x) * frac(x) * frac(w) for x, w in entries)
    m1 = sum(abs(frac(x) * frac(w)) for x, w in entries)
    ww = sum(frac(w) for _, w in entries)

    def close(obs, exact, mag):
        o = float(obs)
        if math.isnan(o) or math.isinf(o):
            return False
        return abs(frac(o) - exact) <= 8 * frac(math.ulp(float(mag))) if mag else frac(o) == exact

    return (
        close(st.sum, s1, m1)
        and close(st.sum2, s2, s2)
        and frac(st.weight) == ww
        and st.min == min(x for x, _ in entries)
        and st.max == max(x for x, _ in entries)
    )


def entries_of(data, wmode):
    w = wlist(wmode, len(data)) or [1] * len(data)
    return [(x, wi) for x, wi in zip(data, w) if not (isinstance(x, float) and math.isnan(x))]


# ---------------------------------------------------------------------------------------------
# (a) pairs / triples over equal bins
# ---------------------------------------------------------------------------------------------


def eval_pair(case):
    out = []
    pairs = [tuple(p) for p in case["pairs"]]
    gapped = not A.is_consecutive(pairs)
    (da, ma), (db, mb) = case["a"], case["b"]
    da = [A.unjf(x) for x in da]
    db = [A.unjf(x) for x in db]
    a = build1d(pairs, da, ma, gapped)
    b = build1d(pairs, db, mb, gapped)
    u = build1d_union(pairs, [(da, ma), (db, mb)], gapped)
    sa, sb_ = snap(a), snap(b)
    sig = f"1D|{'gapped' if gapped else 'cons'}|{ma}+{mb}"
    res = call(lambda: a + b)
    if not res.ok:
        return [V("must_succeed", f"add_raises|{sig}|{exc_sig(res.exc)}", case, "a sum", res.describe())]
    c = res.value
    cu, cc = content_snap(u), content_snap(c)
    if cu != cc:
        out.append(V("sum_equals_union", f"sum_vs_union|{sig}|{'+'.join(sorted(diff(cu, cc)))}", case, cu, cc))
    want_dt = np.promote_types(a.dtype, b.dtype)
    if np.dtype(c.dtype) != want_dt or c.frequencies.dtype != want_dt or c.errors2.dtype != want_dt:
        out.append(V("dtype_promotion", f"dtype|{sig}", case, str(want_dt), [str(c.dtype), str(c.frequencies.dtype), str(c.errors2.dtype)]))
    ent = [e for e in entries_of(da, ma) + entries_of(db, mb)]
    if not stats_close(c.statistics, ent):
        out.append(V("statistics_added", f"stats|{sig}", case, "sums/min/max of the combined data", stats_snap(c)))
    if snap(a) != sa or snap(b) != sb_:
        out.append(V("operands_untouched", f"operand_modified|{sig}|add", case, "unchanged", diff(sa, snap(a)) or diff(sb_, snap(b))))
    # commutativity
    d = b + a
    if content_snap(d) != cc or str(d.dtype) != str(c.dtype):
        out.append(V("commutative", f"commutative|{sig}", case, cc, content_snap(d)))
    # in-place, radd, sum
    e = a.copy()
    e += b
    if content_snap(e) != cc or snap(b) != sb_:
        out.append(V("iadd", f"iadd|{sig}", case, cc, content_snap(e)))
    s = sum([a, b])
    if content_snap(s) != cc or snap(a) != sa:
        out.append(V("sum_builtin", f"sum_builtin|{sig}", case, cc, content_snap(s)))
    r = 0 + a
    if content_snap(r) != content_snap(a):
        out.append(V("radd_zero", f"radd_zero|{sig}", case, content_snap(a), content_snap(r)))
    return out


def eval_triple(case):
    out = []
    pairs = [tuple(p) for p in case["pairs"]]
    parts = [([A.unjf(x) for x in d], m) for d, m in case["parts"]]
    hs = [build1d(pairs, d, m) for d, m in parts]
    before = [snap(h) for h in hs]
    u = build1d_union(pairs, parts)
    cu = content_snap(u)
    a, b, c = hs
    results = {"(a+b)+c": (a + b) + c, "a+(b+c)": a + (b + c), "(c+a)+b": (c + a) + b, "sum": sum(hs)}
    sig = "1D|triple|" + "+".join(str(m) for _, m in parts)
    for name, r in results.items():
        if content_snap(r) != cu:
            out.append(V("associative", f"triple|{sig}|{name}", case, cu, content_snap(r)))
    dts = {str(r.dtype) for r in results.values()}
    if len(dts) != 1:
        out.append(V("associative_dtype", f"triple_dtype|{sig}", case, "one dtype", sorted(dts)))
    if [snap(h) for h in hs] != before:
        out.append(V("operands_untouched", f"operand_modified|{sig}", case, "unchanged", "changed"))
    return out


def eval_pair2d(case):
    from physt import h2

    out = []
    ax = [np.array([0.0, 1.0, 2.0]), np.array([0.0, 0.5, 2.0, 3.0])]

    def mk(rows, m):
        arr = np.array(rows, dtype=float).reshape(len(rows), 2)
        kw = {}
        w = wlist(m, len(rows))
        if w is not None:
            kw["weights"] = np.array(w, dtype=(np.int64 if m == "int" else np.float64))
        return h2(arr[:, 0], arr[:, 1], [a.copy() for a in ax], **kw)

    (da, ma), (db, mb) = case["a"], case["b"]
    a, b = mk(da, ma), mk(db, mb)
    rows = list(da) + list(db)
    if ma is None and mb is None:
        w = None
    else:
        w = (wlist(ma, len(da)) or [1] * len(da)) + (wlist(mb, len(db)) or [1] * len(db))
    arr = np.array(rows, dtype=float).reshape(len(rows), 2)
    kw = {}
    if w is not None:
        kw["weights"] = np.array(w, dtype=(np.float64 if any(isinstance(x, float) for x in w) else np.int64))
    u = h2(arr[:, 0], arr[:, 1], [x.copy() for x in ax], **kw)
    sa, sb_ = snap(a), snap(b)
    sig = f"2D|{ma}+{mb}"
    res = call(lambda: a + b)
    if not res.ok:
        return [V("must_succeed", f"add_raises|{sig}|{exc_sig(res.exc)}", case, "a sum", res.describe())]
    c = res.value
    cu, cc = content_snap(u), content_snap(c)
    if cu != cc:
        out.append(V("sum_equals_union", f"sum_vs_union|{sig}|{'+'.join(sorted(diff(cu, cc)))}", case, cu, cc))
    want_dt = np.promote_types(a.dtype, b.dtype)
    if np.dtype(c.dtype) != want_dt or c.frequencies.dtype != want_dt:
        out.append(V("dtype_promotion", f"dtype|{sig}", case, str(want_dt), str(c.dtype)))
    if snap(a) != sa or snap(b) != sb_:
        out.append(V("operands_untouched", f"operand_modified|{sig}", case, "unchanged", "changed"))
    if content_snap(b + a) != cc:
        out.append(V("commutative", f"commutative|{sig}", case, cc, content_snap(b + a)))
    return out


# ---------------------------------------------------------------------------------------------
# (b) partitions x permutations x parenthesisations
# ---------------------------------------------------------------------------------------------


def set_partitions(items):
    if not items:
        yield []
        return
    first, rest = items[0], items[1:]
    for p in set_partitions(rest):
        for i in range(len(p)):
            yield p[:i] + [[first] + p[i]] + p[i + 1:]
        yield [[first]] + p


def trees(n):
    """All binary trees over leaves 0..n-1 in order (Catalan)."""
    if n == 1:
        yield 0
        return

    def rec(lo, hi):
        if hi - lo == 1:
            yield lo
            return
        for mid in range(lo + 1, hi):
            for l in rec(lo, mid):
                for r in rec(mid, hi):
                    yield (l, r)

    yield from rec(0, n)


def fold(tree, leaves):
    if isinstance(tree, int):
        return leaves[tree]
    return fold(tree[0], leaves) + fold(tree[1], leaves)


PART_DATA = [
    ([-1.0, 0.0, 1.0, 3.0], [None, None, None, None]),
    ([0.5, 0.5, 2.5, 9.0], [None, 0.5, 2, 0.25]),
    ([1.0, A.nxt(1.0, False), 3.0, A.nxt(3.0, True)], [0.5, 0.5, 0.25, 0.25]),
    ([2.0, NAN, 2.5, -3.0], [2, 2, 2, 2]),
    ([0.0, 3.0, 1.5], [None, None, 0.5]),
    ([0.25, 0.75, 1.25, 2.75], [None, None, None, None]),
    ([3.0, 3.0, 3.0, 0.0], [0.5, None, 2, None]),
    ([-5.0, 7.0], [None, 0.25]),
    ([1.5], [0.5]),
    ([NAN, 1.0, NAN, 2.0], [None, 0.5, 0.5, None]),
]


def eval_partition(case):
    from physt import h1
    from physt.types import HistogramCollection

    out = []
    data = [A.unjf(x) for x in case["data"]]
    ws = case["weights"]
    edges = np.array([0.0, 1.0, 2.0, 3.0])

    def mk(idx):
        d = [data[i] for i in idx]
        w = [ws[i] for i in idx]
        kw = {}
        if any(x is not None for x in w):
            ww = [1 if x is None else x for x in w]
            kw["weights"] = np.array(ww, dtype=(np.float64 if any(isinstance(x, float) for x in ww) else np.int64))
        return h1(np.array(d, dtype=float), edges.copy(), **kw)

    whole = mk(list(range(len(data))))
    cw = content_snap(whole)
    ent = [(x, 1 if w is None else w) for x, w in zip(data, ws) if not (isinstance(x, float) and math.isnan(x))]
    n_eval = 0
    dtypes = set()
    for part in set_partitions(list(range(len(data)))):
        chunks = [mk(idx) for idx in part]
        before = [snap(c) for c in chunks]
        k = len(chunks)
        for perm in itertools.permutations(range(k)):
            leaves = [chunks[i] for i in perm]
            for tree in trees(k):
                r = fold(tree, leaves)
                n_eval += 1
                cr = content_snap(r)
                if cr != cw:
                    out.append(V("partition_confluence", f"partition|k={k}|{'+'.join(sorted(diff(cw, cr)))}",
                                 dict(case, partition=part, perm=list(perm), tree=repr(tree)), cw, cr))
                    return out, n_eval
                if not stats_close(r.statistics, ent):
                    out.append(V("partition_statistics", f"partition_stats|k={k}", dict(case, partition=part, perm=list(perm), tree=repr(tree)),
                                 "sums of all entries", stats_snap(r)))
                    return out, n_eval
            # other summation entry points
            s = sum(leaves)
            col = HistogramCollection(*leaves).sum()
            acc = leaves[0].copy()
            for x in leaves[1:]:
                acc += x
            for name, r in (("sum", s), ("collection_sum", col), ("reduce_iadd", acc)):
                n_eval += 1
                if content_snap(r) != cw:
                    out.append(V("partition_confluence", f"partition|{name}|k={k}", dict(case, partition=part, perm=list(perm)), cw, content_snap(r)))
                    return out, n_eval
        if [snap(c) for c in chunks] != before:
            out.append(V("operands_untouched", f"operand_modified|partition|k={k}", dict(case, partition=part), "unchanged", "changed"))
            return out, n_eval
    return out, n_eval


# ---------------------------------------------------------------------------------------------
# (c) adaptive
# ---------------------------------------------------------------------------------------------


def adaptive_values(w):
    return [-2.5 * w, -1.0 * w, float(f"{-0.3 * w:.10g}"), 0.0, 0.5 * w, float(f"{1.7 * w:.10g}"), 3.0 * w, 12.25 * w]


def mk_adaptive(w, data, weights=None, shift=None):
    from physt import h1

    kw = {}
    if weights is not None:
        kw["weights"] = np.array(weights)
    if shift is not None:
        kw["bin_shift"] = shift
    return h1(np.array(data, dtype=float) if len(data) else None, "fixed_width", bin_width=w, adaptive=True, **kw)


def eval_adaptive(case):
    out = []
    w = case["w"]
    da, db = case["a"], case["b"]
    wa, wb = case.get("wa"), case.get("wb")
    a = mk_adaptive(w, da, [wa] * len(da) if wa else None)
    b = mk_adaptive(w, db, [wb] * len(db) if wb else None)
    wu = None
    if wa or wb:
        wu = [wa or 1] * len(da) + [wb or 1] * len(db)
    u = mk_adaptive(w, list(da) + list(db), wu)
    sa, sb_ = snap(a), snap(b)
    sig = f"adaptive1D|na={min(len(da), 1)}|nb={min(len(db), 1)}"
    res = call(lambda: a + b)
    if not res.ok:
        return [V("must_succeed", f"add_raises|{sig}|{exc_sig(res.exc)}", case, "a sum", res.describe())]
    c = res.value
    cu, cc = content_snap(u), content_snap(c)
    if cu != cc:
        out.append(V("adaptive_union", f"adaptive_vs_union|{sig}|{'+'.join(sorted(diff(cu, cc)))}", case, cu, cc))
    if snap(a) != sa or snap(b) != sb_:
        out.append(V("operands_untouched", f"operand_modified|{sig}", case, "unchanged", diff(sa, snap(a)) or diff(sb_, snap(b))))
    want_dt = np.promote_types(a.dtype, b.dtype)
    e = a.copy()
    e += b
    for nm, r in (("add", c), ("iadd", e)):
        if np.dtype(r.dtype) != want_dt or r.frequencies.dtype != want_dt or r.errors2.dtype != want_dt:
            out.append(V("dtype_promotion", f"dtype|{sig}|{nm}", case, str(want_dt), [str(r.dtype), str(r.frequencies.dtype), str(r.errors2.dtype)]))
    if content_snap(e) != cc:
        out.append(V("iadd", f"iadd|{sig}", case, cc, content_snap(e)))
    d = b + a
    if content_snap(d) != cc:
        out.append(V("commutative", f"commutative|{sig}", case, cc, content_snap(d)))
    if c.total != len(da) * (wa or 1) + len(db) * (wb or 1) or fl(c.underflow) != 0 or fl(c.overflow) != 0:
        out.append(V("nothing_lost", f"lost|{sig}", case, "total == entered, no under/overflow", [c.total, fl(c.underflow), fl(c.overflow)]))
    ent = [(x, wa or 1) for x in da] + [(x, wb or 1) for x in db]
    if not stats_close(c.statistics, ent):
        out.append(V("statistics_added", f"stats|{sig}", case, "sums of combined data", stats_snap(c)))
    # the sum stays usable and independent: growing it must not touch the operands
    c.fill(case.get("offset", 0.0) + 40 * w)
    if snap(a) != sa or snap(b) != sb_:
        out.append(V("operands_untouched", f"operand_modified_after_fill|{sig}", case, "unchanged", diff(sa, snap(a)) or diff(sb_, snap(b))))
    return out


GRIDS = ["default", "shift", "noalign"]


def mk_adaptive_grid(w, data, grid):
    from physt import h1

    kw = {}
    if grid == "shift":
        kw["bin_shift"] = 0.3 * w
    elif grid == "noalign":
        kw["align"] = False
    return h1(np.array(data, dtype=float) if len(data) else None, "fixed_width", bin_width=w, adaptive=True, **kw)


def eval_adaptive_grids(case):
    """Adaptive operands whose grids are anchored differently (bin_shift, align=False), one of them possibly still empty:
    the sum is either refused (no common grid; both operands untouched) or it is the histogram of the combined data over
    the bins it reports. (seeded C05-adapt-empty-side-before-shift-check)"""
    from physt import h1

    w, da, db, ga, gb = case["w"], case["a"], case["b"], case["ga"], case["gb"]
    ra, rb = call(mk_adaptive_grid, w, da, ga), call(mk_adaptive_grid, w, db, gb)
    if not (ra.ok and rb.ok):
        return [], "operand-refused"
    a, b = ra.value, rb.value
    sa, sb_ = snap(a), snap(b)
    sig = f"adaptive_grids|{ga}+{gb}|na={min(len(da), 1)}|nb={min(len(db), 1)}"
    out = []
    label = []
    for nm, f in (("add", lambda: a + b), ("radd", lambda: b + a), ("iadd", lambda: _iadd(a.copy(), b))):
        res = call(f)
        if snap(a) != sa or snap(b) != sb_:
            out.append(V("operands_untouched", f"operand_modified|{sig}|{nm}", case, "unchanged", diff(sa, snap(a)) or diff(sb_, snap(b))))
            break
        if not res.ok:
            label.append("refused")
            continue
        label.append("sum")
        c = res.value
        data = list(da) + list(db)
        if fl(c.total) != len(data) or fl(c.underflow) != 0 or fl(c.overflow) != 0:
            out.append(V("nothing_lost", f"lost|{sig}|{nm}", case, "total == entered, no under/overflow", [fl(c.total), fl(c.underflow), fl(c.overflow)]))
            continue
        if not data:
            continue
        edges = np.asarray(c.numpy_bins, dtype=float)
        want = [0] * (len(edges) - 1)
        for v in data:
            k = int(np.searchsorted(edges, v, side="right")) - 1
            if 0 <= k < len(want):
                want[k] += 1
        got = [fl(x) for x in c.frequencies.tolist()]
        if got != want:
            out.append(V("adaptive_union", f"adaptive_vs_combined_data|{sig}|{nm}", case, {"edges": edges.tolist(), "frequencies": want}, got))
    return out, "+".join(label)


def _iadd(x, y):
    x += y
    return x


def eval_adaptive2d(case):
    from physt import h2

    out = []
    ws = case["w"]

    wts = case.get("weights")

    def mk(rows, first=0):
        if not rows:
            return h2(None, None, "fixed_width", bin_width=list(ws), adaptive=True)
        arr = np.array(rows, dtype=float)
        kw = {}
        if wts:
            kw["weights"] = np.array([wts[(first + i) % len(wts)] for i in range(len(rows))])
        return h2(arr[:, 0], arr[:, 1], "fixed_width", bin_width=list(ws), adaptive=True, **kw)

    da, db = case["a"], case["b"]
    a, b, u = mk(da), mk(db, len(da)), mk(list(da) + list(db))
    if wts and (float(a.missed) != 0 or float(b.missed) != 0):
        return [V("nothing_lost", "adaptive2D|weighted|missed_residue", case, 0, [fl(a.missed), fl(b.missed)])]
    sa, sb_ = snap(a), snap(b)
    sig = f"adaptive2D|na={min(len(da), 1)}|nb={min(len(db), 1)}"
    res = call(lambda: a + b)
    if not res.ok:
        return [V("must_succeed", f"add_raises|{sig}|{exc_sig(res.exc)}", case, "a sum", res.describe())]
    c = res.value
    cu, cc = content_snap(u), content_snap(c)
    if cu != cc:
        out.append(V("adaptive_union", f"adaptive_vs_union|{sig}|{'+'.join(sorted(diff(cu, cc)))}", case, cu, cc))
    if snap(a) != sa or snap(b) != sb_:
        out.append(V("operands_untouched", f"operand_modified|{sig}", case, "unchanged", "changed"))
    rev = call(lambda: b + a)
    if not rev.ok:
        out.append(V("commutative", f"commutative|{sig}|reverse_raises|{exc_sig(rev.exc)}", case, cc, rev.describe()))
    elif content_snap(rev.value) != cc:
        out.append(V("commutative", f"commutative|{sig}", case, cc, content_snap(rev.value)))
    return out


def eval_adaptive_missed(case):
    """An adaptive operand that already carries weight outside its bins (built over a range): its sum with another adaptive
    histogram cannot 'lose nothing' - refused from either side, or else equal to the histogram of the combined data."""
    from physt import h1

    side, other_data = case["side"], case["other"]
    a = h1(np.array([0.5, 1.5, 5.5]), "fixed_width", bin_width=1.0, adaptive=True, range=(0, 3))
    b = h1(np.array(other_data), "fixed_width", bin_width=1.0, adaptive=True)
    sa, sb_ = snap(a), snap(b)
    r1 = call(lambda: a + b)
    r2 = call(lambda: b + a)
    out = []
    sig = f"adaptive_missed|{side}"
    if r1.ok != r2.ok:
        out.append(V("commutative", f"{sig}|one_order_refused", case, "both refused or both equal", {"a+b": r1.describe()[:80], "b+a": r2.describe()[:80]}))
    for nm, r in (("a+b", r1), ("b+a", r2)):
        if r.ok:
            h = r.value
            if float(h.total) + fl(h.underflow) + fl(h.overflow) != 3 + len(other_data) or (float(h.overflow) > 0 and h.bins[-1][1] > 5.5):
                out.append(V("nothing_lost", f"{sig}|accepted_with_stale_overflow", case, "refused, or the value 5.5 inside the extended bins",
                             {"order": nm, "bins": [float(h.bins[0][0]), float(h.bins[-1][1])], "overflow": fl(h.overflow), "total": fl(h.total)}))
    if snap(a) != sa or snap(b) != sb_:
        out.append(V("operands_untouched", f"{sig}|operand_modified", case, "unchanged", "changed"))
    return out


# ---------------------------------------------------------------------------------------------
# (d) dask
# ---------------------------------------------------------------------------------------------


def eval_dask(case):
    import dask.array as da
    from physt import h1
    from physt.compat import dask as pdask
    from mc.sched_dask import enumerating_method

    data = np.array(case["data"], dtype=float)
    chunks = tuple(case["chunks"])
    order = case["order"]
    w = case["w"]
    ref = h1(data, "fixed_width", bin_width=w, adaptive=True)
    arr = da.from_array(data, chunks=(chunks,))
    res = call(pdask.h1, arr, "fixed_width", bin_width=w, dask_method=enumerating_method(order))
    sig = f"dask|k={len(chunks)}"
    if not res.ok:
        return [V("must_succeed", f"dask_raises|{sig}|{exc_sig(res.exc)}", case, "a histogram", res.describe())]
    c = res.value
    out = []
    cr, cc = content_snap(ref), content_snap(c)
    if cr != cc:
        out.append(V("dask_equals_array", f"dask_vs_array|{sig}|{'+'.join(sorted(diff(cr, cc)))}", case, cr, cc))
    elif not stats_close(c.statistics, [(x, 1) for x in data.tolist()]):
        out.append(V("dask_statistics", f"dask_stats|{sig}", case, "sums of all data", stats_snap(c)))
    return out


# ---------------------------------------------------------------------------------------------
# (e) refusals
# ---------------------------------------------------------------------------------------------


def refusal_cases():
    from physt import h1, h2
    from physt.types import Histogram1D

    def base():
        return h1(np.array([0.5, 1.5, 1.5, 7.0]), np.array([0.0, 1.0, 2.0, 3.0]))

    def base2():
        return h2(np.array([0.5, 1.5]), np.array([0.5, 2.5]), [np.array([0.0, 1.0, 2.0]), np.array([0.0, 1.0, 2.0, 3.0])])

    cases = {
        "different_edges": (base, lambda: h1(np.array([0.5]), np.array([0.0, 1.0, 2.5, 3.0]))),
        "different_bin_count": (base, lambda: h1(np.array([0.5]), np.array([0.0, 1.0, 2.0]))),
        "shifted_edges": (base, lambda: h1(np.array([0.5]), np.array([10.0, 11.0, 12.0, 13.0]))),
        "different_dimension": (base, base2),
        "different_dimension_rev": (base2, base),
        "nd_different_edges": (base2, lambda: h2(np.array([0.5]), np.array([0.5]), [np.array([0.0, 1.0, 2.0]), np.array([0.0, 1.0, 2.0, 4.0])])),
        "nd_transposed_shape": (base2, lambda: h2(np.array([0.5]), np.array([0.5]), [np.array([0.0, 1.0, 2.0, 3.0]), np.array([0.0, 1.0, 2.0])])),
        "scalar": (base, lambda: 4),
        "list": (base, lambda: [1, 2, 3]),
        "ndarray": (base, lambda: np.array([1, 2, 3])),
        "string": (base, lambda: "abc"),
        "none": (base, lambda: None),
        "adaptive_other_width": (lambda: mk_adaptive(1.0, [0.5, 2.5]), lambda: mk_adaptive(0.5, [0.25, 7.0])),
        "adaptive_other_shift": (lambda: mk_adaptive(1.0, [0.5, 2.5]), lambda: mk_adaptive(1.0, [0.75, 7.0], shift=0.5)),
        "adaptive_plus_missed": (lambda: mk_adaptive(1.0, [0.5, 2.5]),
                                 lambda: Histogram1D(mk_adaptive(1.0, [5.5]).binning.copy(), [3], underflow=2.0)),
        "adaptive_plus_irregular_static": (lambda: mk_adaptive(1.0, [0.5, 2.5]), lambda: h1(np.array([0.5]), np.array([0.0, 1.0, 2.5, 7.0]))),
    }
    return cases


def eval_refusal(case):
    name = case["name"]
    mk_a, mk_b = refusal_cases()[name]
    out = []
    for opname in ("add", "iadd", "radd_rev"):
        a, b = mk_a(), mk_b()
        sa = snap(a)
        sb_ = snap(b) if hasattr(b, "binnings") else copy.deepcopy(b)
        if opname == "add":
            res = call(lambda: a + b)
        elif opname == "iadd":
            def f():
                nonlocal a
                a += b
                return a
            res = call(f)
        else:
            if isinstance(b, np.ndarray) or b is None:
                # ndarray + histogram is evaluated by numpy itself (via __array__) and yields a plain
                # array, not a histogram: outside what physt can refuse (DESIGN 4 C05, L)
                continue
            if not hasattr(b, "binnings"):
                res = call(lambda: b + a)
            else:
                continue
        if res.ok:
            out.append(V("must_raise", f"refusal|{name}|{opname}", case, "refused with an error", res.describe()))
        if snap(a) != sa:
            out.append(V("operands_untouched", f"refusal_modified_left|{name}|{opname}", case, "unchanged", diff(sa, snap(a))))
        if hasattr(b, "binnings") and snap(b) != sb_:
            out.append(V("operands_untouched", f"refusal_modified_right|{name}|{opname}", case, "unchanged", diff(sb_, snap(b))))
    return out


# ---------------------------------------------------------------------------------------------


def datasets(vals, n):
    for k in range(n + 1):
        yield from itertools.combinations_with_replacement(vals, k)


def units(tier, seed):
    thorough = tier == "thorough"
    us = []
    for name, pairs in (("regular", REG), ("gapped", GAP)):
        for ma in (None, "int", "float"):
            for mb in (None, "int", "float"):
                us.append({"kind": "pairs", "pairs": pairs, "ma": ma, "mb": mb})
    for ma, mb in ((None, "zero"), ("zero", None), ("float", "zero"), ("zero", "zero"), ("zero", "int")):
        us.append({"kind": "pairs", "pairs": REG, "ma": ma, "mb": mb})
    us.append({"kind": "triples", "pairs": REG})
    for ma in (None, "float"):
        for mb in (None, "int", "float"):
            us.append({"kind": "pairs2d", "ma": ma, "mb": mb})
    nparts = len(PART_DATA) if thorough else 5
    for i in range(nparts):
        us.append({"kind": "partition", "index": i})
    for w in (1.0, 0.1, 0.3):
        for wa, wb in ((None, None), (None, 0.5), (2, 0.5)):
            us.append({"kind": "adaptive", "w": w, "wa": wa, "wb": wb})
    # the same pairs far from the origin and on a very fine grid (bins must be told apart relative to their width),
    # and operands that already carry missed weight (refused from either side)
    for w, offset in ((1.0, 1.0e6), (1.0, -3.0e7), (1.0e-9, 0.0), (0.25, 1.7e9)):
        us.append({"kind": "adaptive", "w": w, "wa": None, "wb": None, "offset": offset})
    us.append({"kind": "adaptive_missed"})
    for w in (1.0, 0.3):
        for ga in GRIDS:
            for gb in GRIDS:
                if (ga, gb) != ("default", "default"):
                    us.append({"kind": "adaptive_grids", "w": w, "ga": ga, "gb": gb})
    us.append({"kind": "adaptive2d", "w": [1.0, 0.3], "n": 2 if thorough else 1})
    us.append({"kind": "adaptive2d", "w": [1.0, 0.3], "n": 1, "weights": [0.1, 0.3, 0.7]})
    nd = 6 if thorough else 4
    for k in range(3 if thorough else 2):
        us.append({"kind": "dask", "n": nd, "dataset": k})
    us.append({"kind": "refusals"})
    return us


DASK_DATA = [
    [0.5, 1.7, -2.3, 1.7, 12.0, 0.0],
    [3.0, 3.0, 2.999, -0.1, 0.3, 0.30000000000000004],
    [100.0, -100.0, 0.25, 0.5, 0.75, 1.0],
]


def run_unit(unit, ctx):
    p = Partial()
    kind = unit["kind"]
    if kind == "pairs":
        pairs = [tuple(q) for q in unit["pairs"]]
        vals = A.small_alphabet(pairs)[:9] + [NAN]
        vals = [v for i, v in enumerate(vals) if v not in vals[:i] or (isinstance(v, float) and math.isnan(v))]
        ds = list(datasets(vals, 2))
        for da, db in itertools.product(ds, repeat=2):
            case = {"pairs": pairs, "a": [[A.jf(x) for x in da], unit["ma"]], "b": [[A.jf(x) for x in db], unit["mb"]]}
            vs = eval_pair(case)
            p.ev(unit["ma"] != unit["mb"] or any(A.classify(x, pairs) != "inside" for x in da + db))
            p.states += 1      # the union multiset A u B reached by a+b, b+a, +=, sum
            p.transitions += 5
            p.traces += 1
            p.extend(vs)
            p.outcome("viol" if vs else f"ok:{len(da)}+{len(db)}")
        p.sample(case)
        p.count("sums", len(ds) ** 2 * 5)
    elif kind == "triples":
        pairs = [tuple(q) for q in unit["pairs"]]
        vals = [-1.0, 0.0, 1.5, 3.0, A.nxt(3.0, True)]
        ds = list(datasets(vals, 1))
        for parts in itertools.product(ds, repeat=3):
            for modes in itertools.product((None, "int", "float"), repeat=3):
                case = {"pairs": pairs, "parts": [[list(d), m] for d, m in zip(parts, modes)]}
                vs = eval_triple(case)
                p.ev(True)
                p.extend(vs)
        p.sample(case)
    elif kind == "pairs2d":
        rows = [(0.5, 0.25), (2.0, 3.0), (1.0, 0.5), (-1.0, 1.0), (1.5, 9.0), (0.0, 0.0)]
        ds = list(datasets(rows, 2))
        for da, db in itertools.product(ds, repeat=2):
            case = {"a": [[list(r) for r in da], unit["ma"]], "b": [[list(r) for r in db], unit["mb"]]}
            vs = eval_pair2d(case)
            p.ev(True)
            p.extend(vs)
        p.sample(case)
    elif kind == "partition":
        data, ws = PART_DATA[unit["index"]]
        case = {"data": [A.jf(x) for x in data], "weights": ws}
        vs, n = eval_partition(case)
        p.ev(True, n)
        p.states += 2 ** len(data)
        p.transitions += n
        p.traces += n
        p.extend(vs)
        p.sample(case)
    elif kind == "adaptive":
        w = unit["w"]
        vals = [v + unit.get("offset", 0.0) for v in adaptive_values(w)]
        ds = list(datasets(vals, 2))
        for da, db in itertools.product(ds, repeat=2):
            case = {"w": w, "a": list(da), "b": list(db), "wa": unit["wa"], "wb": unit["wb"]}
            if unit.get("offset"):
                case["offset"] = unit["offset"]
            vs = eval_adaptive(case)
            p.states += 1
            p.transitions += 3
            p.traces += 1
            p.ev(bool(da) and bool(db) and (min(da) != min(db) or max(da) != max(db)))
            p.extend(vs)
        p.sample(case)
    elif kind == "adaptive_grids":
        w = unit["w"]
        ds = list(datasets(adaptive_values(w), 2))
        for da, db in itertools.product(ds, repeat=2):
            case = {"w": w, "a": list(da), "b": list(db), "ga": unit["ga"], "gb": unit["gb"]}
            vs, label = eval_adaptive_grids(case)
            p.states += 1
            p.transitions += 3
            p.traces += 1
            p.ev(True)
            p.outcome(f"adaptive_grids:{label}")
            p.extend(vs)
        p.sample(case)
    elif kind == "adaptive_missed":
        for other in ([6.5], [0.5], [-2.5, 7.5], [2.5, 3.5]):
            case = {"adaptive_missed": True, "side": "left_has_overflow", "other": other}
            vs = eval_adaptive_missed(case)
            p.ev(True)
            p.states += 1
            p.extend(vs)
        p.sample(case)
    elif kind == "adaptive2d":
        ws = unit["w"]
        rows = [(-2.5 * ws[0], 0.5 * ws[1]), (0.0, 0.0), (1.7 * ws[0], -1.3 * ws[1]), (3.0 * ws[0], 3.0 * ws[1]), (0.5 * ws[0], 12.0 * ws[1])]
        ds = list(datasets(rows, unit["n"]))
        for da, db in itertools.product(ds, repeat=2):
            case = {"w": ws, "a": [list(r) for r in da], "b": [list(r) for r in db]}
            if unit.get("weights"):
                case["weights"] = unit["weights"]
            vs = eval_adaptive2d(case)
            p.ev(True)
            p.extend(vs)
        p.sample(case)
    elif kind == "dask":
        from mc.sched_dask import compositions

        data = DASK_DATA[unit["dataset"]][: unit["n"]]
        for comp in compositions(len(data)):
            for order in itertools.permutations(range(len(comp))):
                case = {"data": data, "chunks": list(comp), "order": list(order), "w": 1.0 if unit["dataset"] != 1 else 0.1}
                vs = eval_dask(case)
                p.ev(len(comp) >= 2)
                p.schedules += 1
                p.traces += 1
                p.transitions += len(comp) + 1
                p.extend(vs)
        p.sample(case)
    elif kind == "refusals":
        for name in refusal_cases():
            case = {"name": name}
            vs = eval_refusal(case)
            p.ev(True)
            p.extend(vs)
            p.outcome("refusal:" + ("viol" if vs else "ok"))
        p.sample(case)
    return p


def replay(case):
    if case.get("adaptive_missed"):
        return eval_adaptive_missed(case)
    if "ga" in case:
        return eval_adaptive_grids(case)[0]
    if "w" in case and isinstance(case["w"], list):
        return eval_adaptive2d(case)
    if "name" in case:
        return eval_refusal(case)
    if "chunks" in case:
        return eval_dask(case)
    if "parts" in case:
        return eval_triple(case)
    if "weights" in case:
        c = {k: v for k, v in case.items() if k not in ("partition", "perm", "tree")}
        return eval_partition(c)[0]
    if "w" in case:
        return eval_adaptive2d(case) if isinstance(case["w"], list) else eval_adaptive(case)
    if "pairs" in case:
        return eval_pair(case)
    return eval_pair2d(case)
