"""C11 - indexing and slicing follow numpy semantics on the bin grid.

Engine E1 (product enumerator).  Every case is ONE index expression applied to ONE freshly built
histogram on the real code (`h[index]` or `h.select(axis, index)`); the oracle is numpy itself:
the positions an expression selects are `np.arange(n)[index]`, the expected bins / contents /
squared errors are the source's arrays indexed with the same expression.

Fingerprint contents (cell k holds 2^k, its squared error 3*2^k, underflow / overflow / inner_missed
are further distinct powers of two) make every comparison exact and make a sum tell which cells
went into it, so the under/overflow bookkeeping of contiguous slices is checked bit-exactly.

What is demanded (and nothing else):

* int index inside the range            -> MUST_SUCCEED, value == (edges, content)
* slice without step, non-empty (1D)    -> MUST_SUCCEED, numpy-indexed bins/contents/errors2, underflow / overflow increased
                                           by exactly the contents cut off on the left / right (source keeps missed values)
* mask / increasing index array (1D)    -> MUST_SUCCEED, numpy-indexed arrays; under/overflow NaN when the selection is not contiguous
* per-axis ints / slices (ND)           -> MUST_SUCCEED, numpy-indexed arrays, int axes (and their names) dropped
* negative step, wrong-size mask, too many indices, out-of-range ints (also inside index arrays / tuples) -> MUST_RAISE
* unsorted / duplicate index arrays     -> refused, or a histogram with rising bins holding the selected bins in increasing order
* left open (EITHER; a returned value must still agree with numpy): explicit positive step, np.int64 indices, empty selections,
  Ellipsis, lists, 1-tuples / the empty tuple on 1D histograms, arrays handed to Histogram1D.select, axis given by name in 1D
* always: the result is well-formed (bins rising, array shapes == bin counts), the source snapshot is unchanged.

Not demanded (the statement is silent): inner_missed and ND `missed` of the result, keep_missed of the result,
under/overflow of empty or contiguous non-slice selections, whether the result shares memory with the source (C12).
"""
from __future__ import annotations

import itertools
import math

import numpy as np

from mc.core import Partial, V
from mc.outcome import EITHER, MUST_RAISE, MUST_SUCCEED, call
from mc.snapshot import diff, fl, snap

ID = "C11"
LEVEL = "exploration"
RULE = (
    "Sources: 1D histograms with n = 1..5 bins (NumpyBinning, StaticBinning closed/open, gapped StaticBinning, FixedWidthBinning, "
    "adaptive FixedWidthBinning) x keep_missed on/off x int64/float64 contents, non-zero underflow / overflow / inner_missed, "
    "errors2 != contents; 2D..3D (4D thorough) histograms with mixed binning kinds, named or default axis names. Contents are "
    "fingerprints (cell k = 2^k, errors2 = 3*2^k). Expressions 1D: every int and np.int64 in [-n-1, n]; every slice with start/stop in "
    "{None} u [-n-1, n+1] and step in {None, 1, 2, -1}; every boolean mask (array and list), wrong-size / wrong-shape masks; every "
    "increasing index array in every mix of negative / non-negative spelling, as list, in int32 / uint8 / int8; every permutation of "
    "every subset of <= 3 bins, reversed longer subsets, duplicates, out-of-range arrays; 0-, 1- and 2-tuples, Ellipsis; all of these "
    "through h[.] and h.select(0, .) (force_copy on/off), select on a missing axis / by name. ND: every tuple of length 0..d over the "
    "per-axis alphabets (all ints in [-n-1, n], slices incl. negative / out-of-range bounds, steps 1, 2, -1, np.int64), tuples of "
    "length d+1, single ints / slices, select(axis by index / name / missing axis, ., force_copy). Oracle: numpy indexing of the "
    "source's bins / frequencies / errors2, axis names of the non-integer axes, exact under/overflow bookkeeping, refusals, result "
    "well-formed, source snapshot unchanged. A case is non-trivial unless it is an identity selection or a lone in-range "
    "non-negative int: negative or out-of-range components, steps, masks, index arrays, tuples, cuts that move content to under/overflow."
)
ASSUMPTIONS = [
    "numpy's own indexing (np.arange(n)[index], array[index]) defines the expected positions and arrays",
    "fingerprint contents (distinct powers of two, exact in int64 and float64) make sums identify the cells they contain",
    "'reversed slice' means a slice with a negative step (physt: 'Cannot change the order of bins'); start > stop is an empty selection",
    "bool indices (h[True]), None / newaxis, float and str indices, multi-dimensional index arrays and ND masks are outside the statement and not explored",
    "explicit positive steps, np.int64, empty selections, Ellipsis, lists and 1-tuples on 1D, arrays via Histogram1D.select may be refused or accepted; an accepted one must agree with numpy",
    "n <= 5 (7 thorough) bins in 1D, axes of 1..3 bins in ND, d <= 4",
]
BOUNDS = {
    "quick": "1D n=1..5 x 6 binning kinds x keep_missed x int/float, full expression alphabet; 2D (3,2) and (2,3) full per-axis alphabets, (1,3) full x medium, (2,2) medium; 3D (2,3,2) and (3,2,2) medium, (1,2,2) medium/thin",
    "thorough": "1D n up to 7; 2D (3,2) both source variants,(2,3),(1,3),(4,3),(2,2) full; 3D (2,3,2),(3,2,2),(3,2,3) medium, (1,2,2) full/medium; 4D (2,2,3,2) thin and (2,1,2,2) medium/thin",
}
BUDGET = {"quick": 240, "thorough": 3000}

NAN = float("nan")

# ---------------------------------------------------------------------------------------------
# sources
# ---------------------------------------------------------------------------------------------

EDGES = [0.0, 1.0, 2.5, 4.0, 4.5, 7.0, 7.25, 9.0, 12.0]
GAPPED = [(0.0, 1.0), (2.0, 3.0), (3.0, 4.0), (5.0, 5.5), (5.5, 6.0), (8.0, 9.0), (10.0, 11.0), (11.0, 12.0)]
KINDS_1D = ["numpy", "static", "gapped", "fixed", "static_open", "adaptive"]
NAMES = ["x", "y", "z", "t"]


def axis_pairs(kind, n):
    if kind in ("numpy", "static", "static_open"):
        return [(EDGES[i], EDGES[i + 1]) for i in range(n)]
    if kind == "gapped":
        return list(GAPPED[:n])
    if kind in ("fixed", "adaptive"):
        return [(-0.5 + 0.5 * i, 0.5 * i) for i in range(n)]
    raise ValueError(kind)


def make_binning(kind, n):
    from physt.binnings import FixedWidthBinning, NumpyBinning, StaticBinning

    pairs = axis_pairs(kind, n)
    if kind == "numpy":
        return NumpyBinning(np.array([pairs[0][0]] + [p[1] for p in pairs]))
    if kind in ("static", "gapped"):
        return StaticBinning(np.array(pairs))
    if kind == "static_open":
        return StaticBinning(np.array(pairs), includes_right_edge=False)
    if kind == "fixed":
        return FixedWidthBinning(bin_width=0.5, bin_count=n, bin_times_min=-1)
    if kind == "adaptive":
        return FixedWidthBinning(bin_width=0.5, bin_count=n, bin_times_min=-1, adaptive=True)
    raise ValueError(kind)


def build(src):
    """A fresh source histogram from its JSON description."""
    from physt.types import Histogram1D, Histogram2D, HistogramND

    dtype = np.dtype(src.get("dtype", "int64"))
    scale = 1 if dtype.kind == "i" else 0.25
    if src["d"] == 1:
        n = src["n"]
        k = np.arange(n)
        freq = (2 ** k * scale).astype(dtype)
        err = (3 * 2 ** k * scale).astype(dtype)
        kw = {}
        if src.get("named", True):
            kw["axis_name"] = "x"
        h = Histogram1D(
            make_binning(src["binning"], n),
            freq,
            errors2=err,
            keep_missed=src.get("keep_missed", True),
            underflow=2 ** n * scale,
            overflow=2 ** (n + 1) * scale,
            inner_missed=2 ** (n + 2) * scale,
            name="src",
            dtype=dtype,
            **kw,
        )
        want = [axis_pairs(src["binning"], n)]
    else:
        shape = tuple(src["shape"])
        d = len(shape)
        cells = int(np.prod(shape))
        k = np.arange(cells, dtype=np.int64).reshape(shape)
        freq = (2 ** k * scale).astype(dtype)
        err = (3 * 2 ** k * scale).astype(dtype)
        binnings = [make_binning(kd, n) for kd, n in zip(src["kinds"], shape)]
        kw = {"axis_names": NAMES[:d]} if src.get("named", True) else {}
        if d == 2:
            h = Histogram2D(binnings, freq, errors2=err, missed=2 ** cells * scale, name="src", dtype=dtype, **kw)
        else:
            h = HistogramND(binnings, freq, dimension=d, errors2=err, missed=2 ** cells * scale, name="src", dtype=dtype, **kw)
        want = [axis_pairs(kd, n) for kd, n in zip(src["kinds"], shape)]
    got = [[tuple(map(float, r)) for r in np.asarray(b.bins).tolist()] for b in h.binnings]
    if got != [[tuple(map(float, p)) for p in ax] for ax in want]:
        raise AssertionError(f"harness: source bins {got} != requested {want}")
    return h


# ---------------------------------------------------------------------------------------------
# index expressions: JSON encoding <-> Python objects
# ---------------------------------------------------------------------------------------------
# ["int", v] ["npint", v] ["slice", a, b, c] ["mask", flat, shape?] ["mask_list", flat] ["idx", list, dtype] ["idx_list", list]
# ["tuple", [enc, ...]] ["ellipsis"]


def decode(enc):
    t = enc[0]
    if t == "int":
        return int(enc[1])
    if t == "npint":
        return np.int64(enc[1])
    if t == "slice":
        return slice(enc[1], enc[2], enc[3])
    if t == "mask":
        a = np.array(enc[1], dtype=bool)
        if len(enc) > 2 and enc[2] is not None:
            a = a.reshape(enc[2])
        return a
    if t == "mask_list":
        return [bool(x) for x in enc[1]]
    if t == "idx":
        return np.array(enc[1], dtype=np.dtype(enc[2] if len(enc) > 2 else "int64"))
    if t == "idx_list":
        return [int(x) for x in enc[1]]
    if t == "idx_series":
        import pandas as pd

        return pd.Series([int(x) for x in enc[1]], dtype="int64")
    if t == "idx_index":
        import pandas as pd

        return pd.Index([int(x) for x in enc[1]], dtype="int64")
    if t == "idx_range":
        return range(*enc[1])
    if t == "tuple":
        return tuple(decode(e) for e in enc[1])
    if t == "ellipsis":
        return Ellipsis
    raise ValueError(f"harness: unknown index encoding {enc!r}")


class Exp:
    """What the statement demands for one case."""

    __slots__ = ("outcome", "reason", "mode", "form", "sel", "tidx", "missed", "order", "nontrivial", "identity_ok")

    def __init__(self, outcome, form, mode=None, reason=None, sel=None, tidx=None, missed="free", order=None, nontrivial=True):
        self.outcome = outcome
        self.form = form
        self.mode = mode  # "scalar" | "hist"
        self.reason = reason
        self.sel = sel  # 1D: positions (list) or scalar position
        self.tidx = tidx  # ND: tuple of python ints / slices
        self.missed = missed  # "conserve" | "nan" | "free"
        self.order = order  # None | "unsorted" | "dup"
        self.nontrivial = nontrivial
        self.identity_ok = False


def contiguous(sel):
    return len(sel) >= 1 and all(sel[i + 1] - sel[i] == 1 for i in range(len(sel) - 1))


def comp_trivial(enc, n):
    if enc[0] == "int":
        return 0 <= enc[1] < n
    if enc[0] == "slice":
        return enc[3] is None and enc[1] in (None, 0) and enc[2] in (None, n)
    return False


def expect_1d(enc, n):
    t = enc[0]
    if t in ("int", "npint"):
        v = enc[1]
        if not -n <= v < n:
            return Exp(MUST_RAISE, t, reason="out_of_range")
        # (numpy integers - np.argmax(h.frequencies) - are indices like any other: repaired together with the axis arguments)
        return Exp(MUST_SUCCEED, t, mode="scalar", sel=v % n, nontrivial=(t != "int" or v < 0))
    if t == "slice":
        a, b, c = enc[1:4]
        if c is not None and c < 0:
            return Exp(MUST_RAISE, "slice_neg", reason="negative_step")
        sel = np.arange(n)[slice(a, b, c)].tolist()
        form = "slice" if c is None else "slice_step"
        if not sel:
            return Exp(EITHER, form + "_empty", mode="hist", sel=sel, missed="free")
        if c is None:
            return Exp(MUST_SUCCEED, form, mode="hist", sel=sel, missed="conserve", nontrivial=not comp_trivial(enc, n))
        if c == 1:
            return Exp(EITHER, form, mode="hist", sel=sel, missed="conserve")
        return Exp(EITHER, form, mode="hist", sel=sel, missed="free" if contiguous(sel) else "nan")
    if t in ("mask", "mask_list"):
        flat = enc[1]
        shape = tuple(enc[2]) if len(enc) > 2 and enc[2] is not None else (len(flat),)
        if shape != (n,):
            return Exp(MUST_RAISE, t + "_wrong", reason="mask_size")
        sel = [i for i, x in enumerate(flat) if x]
        if not sel:
            return Exp(EITHER, t + "_empty", mode="hist", sel=sel)
        return Exp(MUST_SUCCEED if t == "mask" else EITHER, t, mode="hist", sel=sel, missed="free" if contiguous(sel) else "nan")
    if t in ("idx", "idx_list", "idx_series", "idx_index", "idx_range"):
        vals = list(range(*enc[1])) if t == "idx_range" else list(enc[1])
        if any(not -n <= v < n for v in vals):
            return Exp(MUST_RAISE, t + "_oob", reason="out_of_range")
        norm = [v % n for v in vals]
        if not norm:
            return Exp(EITHER, t + "_empty", mode="hist", sel=[])
        if all(norm[i] < norm[i + 1] for i in range(len(norm) - 1)):
            return Exp(MUST_SUCCEED if t == "idx" else EITHER, t, mode="hist", sel=norm, missed="free" if contiguous(norm) else "nan")
        uniq = sorted(set(norm))
        order = "dup" if len(uniq) != len(norm) else "unsorted"
        return Exp(EITHER, f"{t}_{order}", mode="hist", sel=uniq, missed="free" if contiguous(uniq) else "nan", order=order)
    if t == "ellipsis":
        return Exp(EITHER, "ellipsis", mode="hist", sel=list(range(n)))
    if t == "tuple":
        comps = enc[1]
        if len(comps) >= 2:
            return Exp(MUST_RAISE, "tuple_many", reason="too_many_indices")
        if len(comps) == 0:
            return Exp(EITHER, "tuple0", mode="hist", sel=list(range(n)))
        inner = expect_1d(comps[0], n)
        inner.form = "tuple1_" + inner.form
        if inner.outcome == MUST_SUCCEED:
            inner.outcome = EITHER
        if inner.missed == "conserve":
            inner.missed = "free"
        inner.nontrivial = True
        return inner
    raise ValueError(f"harness: no 1D expectation for {enc!r}")


def comp_class(enc):
    if enc[0] == "slice":
        c = enc[3]
        return "slice" if c is None else ("negstep" if c < 0 else "step")
    return enc[0]


def expect_nd(comps, shape):
    """comps: list of per-axis encodings (ints / np.int64 / slices)."""
    d = len(shape)
    classes = sorted({comp_class(c) for c in comps})
    rel = "len>d" if len(comps) > d else ("len=d" if len(comps) == d else "len<d")
    form = ("+".join(classes) or "none") + "|" + rel
    if len(comps) > d:
        return Exp(MUST_RAISE, form, reason="too_many_indices")
    out = MUST_SUCCEED
    for c, n in zip(comps, shape):
        if c[0] in ("int", "npint"):
            if not -n <= c[1] < n:
                return Exp(MUST_RAISE, form, reason="out_of_range")
            if c[0] == "npint":
                out = EITHER
        elif c[0] == "slice":
            if c[3] is not None and c[3] < 0:
                return Exp(MUST_RAISE, form, reason="negative_step")
            if c[3] is not None:
                out = EITHER
            if len(range(*slice(c[1], c[2], c[3]).indices(n))) == 0:
                out = EITHER
        else:
            raise ValueError(f"harness: no ND expectation for component {c!r}")
    tidx = tuple(int(c[1]) if c[0] in ("int", "npint") else slice(c[1], c[2], c[3]) for c in comps)
    nt = not all(comp_trivial(c, n) for c, n in zip(comps, shape)) or len(comps) > 1
    if len(comps) == d and all(c[0] in ("int", "npint") for c in comps):
        return Exp(out, form, mode="scalar", tidx=tidx, nontrivial=nt)
    return Exp(out, form, mode="hist", tidx=tidx, nontrivial=nt)


# ---------------------------------------------------------------------------------------------
# one case
# ---------------------------------------------------------------------------------------------


def exc_name(e):
    return type(e).__name__


def is_nan(x):
    try:
        return math.isnan(float(x))
    except (TypeError, ValueError):
        return False


def same_arr(got, want, with_dtype=False):
    got = np.asarray(got)
    want = np.asarray(want)
    if got.shape != want.shape:
        return False
    if with_dtype and got.dtype != want.dtype:
        return False
    return bool(np.array_equal(got, want))


def own_wellformed(r):
    probs = []
    try:
        shape = []
        for i, b in enumerate(r.binnings):
            bins = np.asarray(b.bins)
            if bins.ndim != 2 or bins.shape[1] != 2:
                probs.append(f"axis {i}: bins of shape {bins.shape}")
                shape.append(bins.shape[0] if bins.ndim else 0)
                continue
            shape.append(bins.shape[0])
            if bins.shape[0]:
                if np.any(bins[:, 0] >= bins[:, 1]):
                    probs.append(f"axis {i}: bin with left >= right")
                if np.any(bins[1:, 0] < bins[:-1, 1]):
                    probs.append(f"axis {i}: bins not rising")
            if int(b.bin_count) != bins.shape[0]:
                probs.append(f"axis {i}: bin_count {b.bin_count} != {bins.shape[0]} rows")
        if tuple(r.frequencies.shape) != tuple(shape):
            probs.append(f"frequencies shape {tuple(r.frequencies.shape)} != bins {tuple(shape)}")
        if tuple(r.errors2.shape) != tuple(shape):
            probs.append(f"errors2 shape {tuple(r.errors2.shape)} != bins {tuple(shape)}")
        if tuple(r.shape) != tuple(shape):
            probs.append(f"shape {tuple(r.shape)} != bins {tuple(shape)}")
        if len(r.axis_names) != r.ndim:
            probs.append(f"{len(r.axis_names)} axis names for {r.ndim} axes")
    except Exception as e:  # noqa: BLE001
        probs.append(f"inspection raised {type(e).__name__}: {e}")
    return probs


def evaluate(case):
    """Returns (violations, outcome label, nontrivial)."""
    from physt.histogram_base import HistogramBase

    out = []
    src = case["src"]
    h = build(src)
    d = h.ndim
    shape = tuple(int(x) for x in h.shape)
    bins0 = [np.array(b.bins, dtype=float, copy=True) for b in h.binnings]
    freq0 = np.array(h.frequencies, copy=True)
    err0 = np.array(h.errors2, copy=True)
    names0 = tuple(h.axis_names)
    under0 = over0 = None
    if d == 1:
        under0, over0 = h.underflow, h.overflow
    before = snap(h)

    enc = case["index"]
    idx = decode(enc)
    via = case.get("via", "getitem")

    # ---- expectation ------------------------------------------------------------------------
    if via == "getitem":
        if d == 1:
            exp = expect_1d(enc, shape[0])
        else:
            comps = enc[1] if enc[0] == "tuple" else [enc]
            exp = expect_nd(comps, shape)
            if enc[0] != "tuple":
                exp.form = "single_" + exp.form
        viatag = "getitem"
    else:
        axis = case["axis"]
        if isinstance(axis, str):
            ax = names0.index(axis) if axis in names0 else None
            viatag = "select_name"
        else:
            ax = axis if 0 <= axis < d else None
            viatag = "select"
        if case.get("force_copy"):
            viatag += "_fc"
        identity = enc[0] == "slice" and enc[1] is None and enc[2] is None and enc[3] is None
        if ax is None:
            viatag += "_noaxis"
            if identity:
                # nothing is selected: returning the unchanged histogram or refusing are both fine
                exp = Exp(EITHER, "slice", mode="hist", missed="free")
                if d == 1:
                    exp.sel = list(range(shape[0]))
                else:
                    exp.tidx = ()
            else:
                exp = Exp(MUST_RAISE, comp_class(enc), reason="no_such_axis")
        elif d == 1:
            exp = expect_1d(enc, shape[0])
            if exp.outcome == MUST_SUCCEED and (enc[0] not in ("int", "slice") or isinstance(axis, str)):
                exp.outcome = EITHER
        else:
            exp = expect_nd([["slice", None, None, None]] * ax + [enc], shape)
            exp.nontrivial = exp.nontrivial or not comp_trivial(enc, shape[ax])
    # signatures: by name / force_copy variants of select share their root causes
    sigvia = "getitem" if via == "getitem" else ("select_noaxis" if viatag.endswith("_noaxis") else "select")
    if d == 1:
        sb = f"1D|{exp.form}|{sigvia}"
    else:
        # ND: the signature only says whether ints, slices or both take part (one root cause shows up in hundreds of tuple shapes)
        comps_sig = (enc[1] if enc[0] == "tuple" else [enc])
        has_i = any(c[0] in ("int", "npint") for c in comps_sig)
        has_s = any(c[0] == "slice" for c in comps_sig)
        sb = f"ND|{'mixed' if has_i and has_s else ('ints' if has_i else ('slices' if has_s else 'none'))}|{sigvia}"

    # ---- the call ---------------------------------------------------------------------------
    if via == "getitem":
        res = call(lambda: h[idx])
    elif case.get("force_copy"):
        res = call(lambda: h.select(case["axis"], idx, force_copy=True))
    else:
        res = call(lambda: h.select(case["axis"], idx))
    label = f"{exp.form}|{viatag}|{exp.outcome}|{res.label if not res.ok else ('tuple' if isinstance(res.value, tuple) else 'hist')}"

    # ---- source untouched (whatever happened) -----------------------------------------------
    after = snap(h)
    if after != before:
        out.append(V("source_unchanged", f"source_modified|{sb}|{'ok' if res.ok else exc_name(res.exc)}", case, "source snapshot unchanged", diff(before, after)))

    if not res.ok:
        if exp.outcome == MUST_SUCCEED:
            out.append(V("must_succeed", f"must_succeed|{sb}", case, "a result that agrees with numpy indexing", res.describe()))
        return out, label, exp.nontrivial
    if exp.outcome == MUST_RAISE:
        out.append(V("must_raise", f"must_raise|{exp.reason}|{sb}", case, f"refused ({exp.reason})", res.describe()))
        return out, label, exp.nontrivial

    r = res.value
    # ---- scalar results ---------------------------------------------------------------------
    if exp.mode == "scalar":
        if d == 1:
            i = exp.sel
            want = (bins0[0][i].tolist(), fl(freq0[i]))
            ok = (
                isinstance(r, tuple)
                and len(r) == 2
                and same_arr(r[0], bins0[0][i])
                and np.ndim(r[1]) == 0
                and fl(r[1]) == fl(freq0[i])
            )
        else:
            want = ([tuple(bins0[a][j].tolist()) for a, j in enumerate(exp.tidx)], fl(freq0[exp.tidx]))
            ok = False
            if isinstance(r, tuple) and len(r) == 2 and np.ndim(r[1]) == 0:
                try:
                    edges = [tuple(float(x) for x in p) for p in r[0]]
                    ok = edges == [tuple(p) for p in want[0]] and fl(r[1]) == want[1]
                except Exception:  # noqa: BLE001
                    ok = False
        if not ok:
            out.append(V("scalar", f"scalar|{sb}", case, want, repr(r)[:300]))
        return out, label, exp.nontrivial

    # ---- histogram results ------------------------------------------------------------------
    if d == 1:
        sel = np.array(exp.sel, dtype=np.intp)
        want_bins = [bins0[0][sel]]
        want_freq = freq0[sel]
        want_err = err0[sel]
        want_names = names0
    else:
        tidx = exp.tidx + (slice(None),) * (d - len(exp.tidx))
        keep = [a for a in range(d) if isinstance(tidx[a], slice)]
        want_bins = [bins0[a][tidx[a]] for a in keep]
        want_freq = freq0[tidx]
        want_err = err0[tidx]
        want_names = tuple(names0[a] for a in keep)
    if not isinstance(r, HistogramBase) or r.ndim != len(want_bins):
        out.append(V("result_type", f"result_type|{sb}", case, f"a {len(want_bins)}D histogram", repr(r)[:300]))
        return out, label, exp.nontrivial
    got_bins = [np.asarray(b.bins) for b in r.binnings]

    if exp.order is not None:
        # unsorted / duplicate index arrays: "taken in increasing order" - a histogram with non-rising bins is never acceptable
        b = got_bins[0]
        rising = b.ndim == 2 and (b.shape[0] < 2 or not (np.any(b[1:, 0] < b[:-1, 1]) or np.any(b[:, 0] >= b[:, 1])))
        if not rising:
            out.append(V("index_array_order", f"index_array_order|{d}D|{exp.order}", case, {"bins (in increasing order)": want_bins[0].tolist()}, {"bins": b.tolist()}))
            return out, label, exp.nontrivial

    bad_bins = [a for a in range(len(want_bins)) if not same_arr(got_bins[a], want_bins[a])]
    bad = []
    if bad_bins:
        bad.append("bins")
    if not same_arr(r.frequencies, want_freq):
        bad.append("contents")
    if not same_arr(r.errors2, want_err):
        bad.append("errors2")
    if bad:
        # one violation per case: which of the three indexed objects differ from numpy indexing of the source
        out.append(
            V(
                "selection",
                f"selection|{sb}|{'+'.join(bad)}",
                case,
                {"bins": [b.tolist() for b in want_bins], "frequencies": want_freq, "errors2": want_err},
                {"bins": [b.tolist() for b in got_bins], "frequencies": np.asarray(r.frequencies), "errors2": np.asarray(r.errors2)},
            )
        )
    else:
        if np.asarray(r.frequencies).dtype != want_freq.dtype or np.asarray(r.errors2).dtype != want_err.dtype:
            out.append(V("contents_dtype", f"contents_dtype|{sb}", case, str(want_freq.dtype), [str(np.asarray(r.frequencies).dtype), str(np.asarray(r.errors2).dtype)]))
        if tuple(r.axis_names) != tuple(want_names):
            out.append(V("axis_names", f"axis_names|{sb}", case, list(want_names), list(r.axis_names)))
        wf = own_wellformed(r)
        if wf:
            out.append(V("wellformed", f"wellformed|{sb}", case, "rising bins, array shapes == bin counts", wf))

    # ---- under/overflow (1D sources only) ---------------------------------------------------
    if d == 1 and r is not h and hasattr(r, "underflow"):
        if exp.missed == "nan":
            if not (is_nan(r.underflow) and is_nan(r.overflow)):
                out.append(V("missed_unknown", f"missed_not_nan|{sb}", case, ["nan", "nan"], [fl(r.underflow), fl(r.overflow)]))
        elif exp.missed == "conserve" and src.get("keep_missed", True):
            a, b = exp.sel[0], exp.sel[-1]
            wu = float(under0) + float(freq0[:a].sum())
            wo = float(over0) + float(freq0[b + 1:].sum())
            gu, go = r.underflow, r.overflow
            if is_nan(gu) or is_nan(go) or float(gu) != wu or float(go) != wo:
                side = ("under" if (is_nan(gu) or float(gu) != wu) else "") + ("over" if (is_nan(go) or float(go) != wo) else "")
                neg = "neg" if any(isinstance(x, int) and x < 0 for x in enc[1:3]) else "pos"
                out.append(V("missed_bookkeeping", f"missed_bookkeeping|1D|{exp.form}|{side}|{neg}", case, {"underflow": wu, "overflow": wo}, {"underflow": fl(gu), "overflow": fl(go)}))
            else:
                tot0 = float(freq0.sum()) + float(under0) + float(over0)
                tot1 = float(np.asarray(r.frequencies).sum()) + float(gu) + float(go)
                if tot0 != tot1 and not out:
                    out.append(V("conservation", f"conservation|{sb}", case, tot0, tot1))
    return out, label, exp.nontrivial


def replay(case):
    return evaluate(case)[0]


# ---------------------------------------------------------------------------------------------
# enumeration
# ---------------------------------------------------------------------------------------------


def slices_full(n, steps=(None, 1, 2, -1)):
    b = [None] + list(range(-n - 1, n + 2))
    return [["slice", a, e, c] for c in steps for a in b for e in b]


def ints_full(n, tag="int"):
    return [[tag, v] for v in range(-n - 1, n + 1)]


def exprs_1d(n):
    """All 1D index expressions for n bins (for h[.] and select(0, .))."""
    out = []
    out += ints_full(n)
    out += ints_full(n, "npint")
    out += slices_full(n)
    # masks
    for bits in itertools.product([False, True], repeat=n):
        out.append(["mask", list(bits), None])
    for bits in itertools.product([False, True], repeat=n):
        out.append(["mask_list", list(bits)])
    for m in sorted({0, n - 1, n + 1, 2 * n} - {n}):
        out.append(["mask", [True] * m, None])
        out.append(["mask", [i % 2 == 0 for i in range(m)], None])
        if m:  # an empty list is not a mask (numpy reads it as an empty index list)
            out.append(["mask_list", [True] * m])
    out.append(["mask", [True] * (2 * n), [n, 2]])
    out.append(["mask", [True] * n, [n, 1]])
    out.append(["mask", [True] * n, [1, n]])
    # increasing index arrays in every spelling (negative / non-negative per element)
    subsets = [s for r in range(n + 1) for s in itertools.combinations(range(n), r)]
    for s in subsets:
        for signs in itertools.product([False, True], repeat=len(s)):
            out.append(["idx", [v - n if neg else v for v, neg in zip(s, signs)], "int64"])
        out.append(["idx_list", list(s)])
        if s:
            out.append(["idx_series", list(s)])
            out.append(["idx_index", list(s)])
            out.append(["idx", list(s), "int32"])
            out.append(["idx", list(s), "uint8"])
            out.append(["idx", [v - n for v in s], "int8"])
    # unsorted: every non-identity permutation of subsets of <= 3 bins, reversal of longer ones
    for s in subsets:
        if 2 <= len(s) <= 3:
            for perm in itertools.permutations(s):
                if list(perm) != list(s):
                    out.append(["idx", list(perm), "int64"])
            out.append(["idx_list", list(reversed(s))])
            out.append(["idx_series", list(reversed(s))])
            out.append(["idx_index", list(reversed(s))])
            out.append(["idx", [s[-1] - n] + list(s[:-1]), "int64"])
        elif len(s) > 3:
            out.append(["idx", list(reversed(s)), "int64"])
            out.append(["idx", list(s[1:]) + [s[0]], "int64"])
    # duplicates
    for i in range(n):
        out.append(["idx", [i, i], "int64"])
        out.append(["idx", [i, i - n], "int64"])
        out.append(["idx_list", [i, i]])
        out.append(["idx_index", [i, i]])
        for j in range(n):
            if j != i:
                out.append(["idx", sorted([i, i, j]), "int64"])
                out.append(["idx", [i, j, i], "int64"])
    # out of range
    for bad in ([n], [-n - 1], [0, n], [n + 5], [-n - 1, 0], [0, -2 * n - 1]):
        out.append(["idx", bad, "int64"])
        out.append(["idx_list", bad])
    # ranges: forward, every second, backward
    if n:
        out.append(["idx_range", [0, n, 1]])
        out.append(["idx_range", [0, n, 2]])
        out.append(["idx_range", [n - 1, -1, -1]])
        out.append(["idx_range", [n - 1, -1, -2]])
    # tuples, ellipsis
    out.append(["ellipsis"])
    out.append(["tuple", []])
    for e in ints_full(n):
        out.append(["tuple", [e]])
    for e in slices_full(n, steps=(None,))[:: max(1, n)] + [["slice", None, None, -1], ["slice", None, None, 2], ["slice", 1, None, None]]:
        out.append(["tuple", [e]])
    two = [["int", 0], ["int", -1], ["int", n], ["slice", None, None, None], ["slice", 1, None, None]]
    for a in two:
        for b in two:
            out.append(["tuple", [a, b]])
    out.append(["tuple", [["int", 0], ["int", 0], ["int", 0]]])
    return out


def cases_1d(src):
    n = src["n"]
    ex = exprs_1d(n)
    for e in ex:
        yield {"src": src, "via": "getitem", "index": e}
    for e in ex:
        if e[0] in ("tuple", "ellipsis"):
            continue
        yield {"src": src, "via": "select", "axis": 0, "index": e}
        if e[0] == "slice" and e[3] is None:
            yield {"src": src, "via": "select", "axis": 0, "force_copy": True, "index": e}
    few = [["int", 0], ["int", -1], ["int", n], ["slice", None, None, None], ["slice", 1, None, None], ["slice", None, -1, None],
           ["slice", None, None, -1], ["mask", [True] * n, None], ["idx", [0], "int64"]]
    for axis in (1, 2, "x", "nope"):
        for e in few:
            yield {"src": src, "via": "select", "axis": axis, "index": e}
            if e[0] == "slice":
                yield {"src": src, "via": "select", "axis": axis, "force_copy": True, "index": e}


def axis_alphabet(n, level):
    if level == "full":
        return ints_full(n) + slices_full(n)
    if level == "medium":
        b = [None] + list(range(-n, n + 1))
        out = ints_full(n) + [["slice", a, e, None] for a in b for e in b]
        out += [["slice", None, None, 1], ["slice", None, None, 2], ["slice", 1, None, 2], ["slice", None, None, -1], ["slice", 0, None, 1],
                ["slice", n + 1, None, None], ["slice", None, -n - 1, None], ["slice", -n - 1, None, None], ["slice", None, n + 1, None],
                ["slice", n - 1, 0, -1], ["npint", 0], ["npint", -1], ["npint", n]]
        return out
    if level == "thin":
        ints = []
        for v in (0, n - 1, -1, -n, n, -n - 1):
            if ["int", v] not in ints:
                ints.append(["int", v])
        sl = [["slice", None, None, None], ["slice", 1, None, None], ["slice", None, 1, None], ["slice", None, -1, None], ["slice", -1, None, None],
              ["slice", 1, 1, None], ["slice", None, None, 2], ["slice", None, None, -1], ["slice", n + 1, None, None], ["slice", -n - 1, n + 1, None]]
        return ints + sl
    if level == "tiny":
        return [["int", 0], ["int", -1], ["slice", None, None, None], ["slice", 1, None, None]]
    raise ValueError(level)


def cases_nd(src, levels):
    shape = src["shape"]
    d = len(shape)
    names = NAMES[:d] if src.get("named", True) else [f"axis{i}" for i in range(d)]
    alph = [axis_alphabet(n, lv) for n, lv in zip(shape, levels)]
    # the expensive part first (so that every block of the round-robin split gets a fair share)
    for L in range(d, 0, -1):
        for combo in itertools.product(*alph[:L]):
            yield {"src": src, "via": "getitem", "index": ["tuple", list(combo)]}
    yield {"src": src, "via": "getitem", "index": ["tuple", []]}
    tiny = [axis_alphabet(n, "tiny") for n in shape] + [axis_alphabet(1, "tiny")]
    for combo in itertools.product(*tiny):
        yield {"src": src, "via": "getitem", "index": ["tuple", list(combo)]}
    for e in alph[0]:
        yield {"src": src, "via": "getitem", "index": e}
    for a in range(d):
        for axis in (a, names[a]):
            for e in alph[a]:
                yield {"src": src, "via": "select", "axis": axis, "index": e}
                if e[0] == "slice":
                    yield {"src": src, "via": "select", "axis": axis, "force_copy": True, "index": e}
    for axis in (d, d + 3, "nope"):
        for e in axis_alphabet(shape[0], "thin"):
            yield {"src": src, "via": "select", "axis": axis, "index": e}
            if e[0] == "slice":
                yield {"src": src, "via": "select", "axis": axis, "force_copy": True, "index": e}


def count_nd(shape, levels):
    d = len(shape)
    sizes = [len(axis_alphabet(n, lv)) for n, lv in zip(shape, levels)]
    tot = 0
    for L in range(1, d + 1):
        tot += int(np.prod(sizes[:L]))
    return tot + 4 ** (d + 1) + 5 * sum(sizes)


KINDS_ND_A = ["numpy", "gapped", "fixed", "static"]
KINDS_ND_B = ["static_open", "fixed", "numpy", "gapped"]


def nd_src(shape, variant="A"):
    d = len(shape)
    if variant == "A":
        return {"d": d, "shape": list(shape), "kinds": KINDS_ND_A[:d], "dtype": "int64", "named": True}
    return {"d": d, "shape": list(shape), "kinds": KINDS_ND_B[:d], "dtype": "float64", "named": False}


ND_PLAN = {
    "quick": [
        ((3, 2), "A", ["full", "full"]),
        ((1, 3), "B", ["full", "medium"]),
        ((2, 3), "B", ["full", "full"]),
        ((2, 2), "B", ["medium", "medium"]),
        ((2, 3, 2), "A", ["medium", "medium", "medium"]),
        ((3, 2, 2), "B", ["medium", "medium", "medium"]),
        ((1, 2, 2), "B", ["medium", "medium", "thin"]),
    ],
    "thorough": [
        ((3, 2), "A", ["full", "full"]),
        ((3, 2), "B", ["full", "full"]),
        ((1, 3), "B", ["full", "full"]),
        ((4, 3), "A", ["full", "full"]),
        ((2, 3), "B", ["full", "full"]),
        ((2, 2), "B", ["full", "full"]),
        ((2, 3, 2), "A", ["medium", "medium", "medium"]),
        ((3, 2, 2), "B", ["medium", "medium", "medium"]),
        ((3, 2, 3), "B", ["medium", "medium", "medium"]),
        ((1, 2, 2), "B", ["full", "medium", "medium"]),
        ((2, 2, 3, 2), "A", ["thin", "thin", "thin", "thin"]),
        ((2, 1, 2, 2), "B", ["medium", "thin", "medium", "thin"]),
    ],
}
PER_UNIT = 9000


def units(tier, seed):
    thorough = tier == "thorough"
    us = []
    nmax = 7 if thorough else 5
    for n in range(1, nmax + 1):
        for kind in KINDS_1D:
            for keep in (True, False):
                for dtype in ("int64", "float64"):
                    # the small ones are grouped: one unit for n <= 3
                    if n <= 3:
                        if n == 1:
                            us.append({"kind": "1d", "ns": [1, 2, 3], "binning": kind, "keep_missed": keep, "dtype": dtype})
                        continue
                    us.append({"kind": "1d", "ns": [n], "binning": kind, "keep_missed": keep, "dtype": dtype})
    for shape, variant, levels in ND_PLAN[tier]:
        total = count_nd(shape, levels)
        k = max(1, -(-total // PER_UNIT))
        for b in range(k):
            us.append({"kind": "nd", "shape": list(shape), "variant": variant, "levels": levels, "block": b, "of": k})
    return us


def run_unit(unit, ctx):
    p = Partial()
    if unit["kind"] == "1d":
        gens = []
        for n in unit["ns"]:
            src = {"d": 1, "n": n, "binning": unit["binning"], "keep_missed": unit["keep_missed"], "dtype": unit["dtype"], "named": n % 2 == 1}
            gens.append(cases_1d(src))
        it = itertools.chain(*gens)
        what = f"1d {unit['binning']} n={unit['ns']}"
    else:
        src = nd_src(tuple(unit["shape"]), unit["variant"])
        it = itertools.islice(cases_nd(src, unit["levels"]), unit["block"], None, unit["of"])
        what = f"nd {unit['shape']} block {unit['block']}/{unit['of']}"
    for k, case in enumerate(it):
        if (k & 255) == 0 and ctx.expired():
            p.capped = True
            p.notes.append(f"{what}: stopped after {k} cases")
            break
        vs, label, nt = evaluate(case)
        p.ev(nt)
        p.outcome(label)
        if vs:
            p.extend(vs)
        if k in (37, 911):
            p.sample(case)
        p.count("select_calls" if case.get("via") == "select" else "getitem_calls")
    return p
