"""C20 - plots show exactly the histogram's data and never modify it.

Engine E1.  Every case is ONE plotting call on the real code (matplotlib / plotly / ASCII backend,
or the TimeTickHandler); the oracle reads the marks back from the produced artists / traces /
captured stdout and compares them with values computed here from the raw bins, frequencies and
errors2 of the histogram (snapshot taken before the call, compared after it).
"""
from __future__ import annotations

import contextlib
import io
import itertools
import math
import re
from fractions import Fraction

import numpy as np

from mc.core import Partial, V
from mc.outcome import call
from mc.snapshot import diff, snap

ID = "C20"
LEVEL = "exploration"
RULE = (
    "Product of: 1D histograms (regular / irregular / gapped / single bin, zeros, int / float, custom errors2, filled with "
    "under/overflow, meta data set or not) x matplotlib {bar, scatter, line, fill, step} x density x cumulative x errors x "
    "show_values x ticks {None, center, edge} x title/xlabel/ylabel override x call path (plot(), h.plot(kind), h.plot.kind()); "
    "2D histograms (irregular, regular, single bin, zeros, polar) x {map, image, polar_map} x density x show_zero x show_values "
    "x cmap_normalize x override x colorbar; plotly {bar, line, scatter, map}; ASCII {hbar, map} on captured stdout; histogram "
    "collections; one-at-a-time extra options (limits, scales, formats, colours, tick handlers); refusals (wrong dimension, "
    "unknown kind, unknown backend, set_default_backend) over three call paths; TimeTickHandler over 30 level spellings x a "
    "grid of axis ranges (negative, non-multiples, degenerate). Every mark is read back (rectangles, vertices, error segments, "
    "texts, ticks, labels, image array/extent, trace arrays, bar lengths) and the histogram snapshot is compared. A case is "
    "non-trivial when any option differs from the default or the histogram has irregular / gapped bins or zero bins."
)
ASSUMPTIONS = [
    "the histogram's raw bins / frequencies / errors2 (public attributes, read before the call) are the data; densities, cumulative sums and sqrt are recomputed here",
    "density=True with cumulative=True is not defined by the statement: the normalised cumulative sum (CDF) and the cumulative sum of densities are both accepted, the plain cumulative sum is not",
    "options a kind does not support may be refused (any exception): errors/show_values for fill, errors for step, errors with cumulative, step over gapped bins, density+cumulative or ASCII plots of an empty histogram, log scales without positive data, plotly keyword pass-through; if the call succeeds the marks are still checked",
    "cmap_normalize='log' gives a zero cell no colour: map / polar_map with show_zero=True and an empty bin may be refused (today: TypeError from the masked alpha), zero cells are skipped in the colour comparison",
    "an image of a histogram with irregular bins must either be refused or have pixel bounds equal to the bin edges",
    "the ASCII map labels its horizontal direction with the edges of axis 0 and the vertical one with axis 1 (arrows printed by the plot itself); cell positions are judged against these labels",
    "title / axis labels are demanded for the rectilinear matplotlib kinds (which call _add_labels); for polar_map, plotly and ASCII a missing title/label is left open, a present one must be right",
    "title falls back to the name (documented); ticks='edge' must tick every left edge and only edges",
    "colours: grey level (luminance) of the face colour / image pixel / ASCII cell must be weakly monotone in the value in one direction, equal values equally coloured, extreme values distinct; zero cells are exempt under a log norm; plotly colours are rendered client-side and not checked",
    "3D kinds (bar3d, globe_map, cylinder_map, surface_map), folium, write_to and show_stats box contents are outside the statement (3D kinds only appear in refusals)",
    "floating comparisons use a relative tolerance of 1e-9 (values are small dyadic numbers, so physt's results are normally exact)",
]
BOUNDS = {
    "quick": "7 1D histograms x 5 kinds x 16 flag sets x 4 tick/override combos (call path rotated), 8 2D histograms x 3 kinds x full flag product, plotly / ASCII / collections / refusals full, extras on 2 histograms, ~11k tick cases",
    "thorough": "12 1D histograms x full tick/override product x 3 call paths, extras on all histograms x density, 2D with cmap / transform / cmap_min-max variants and colorbar product, wider tick grid",
}
BUDGET = {"quick": 240, "thorough": 3000}

RTOL = 1e-9
PI = math.pi

# ---------------------------------------------------------------------------------------------
# histogram registry (names are the JSON-able handles used in cases)
# ---------------------------------------------------------------------------------------------

H1 = {
    "reg_int": {"edges": [0, 1, 2, 3, 4], "freq": [3, 0, 5, 2], "dtype": "int64", "meta": {"name": "NAME1", "title": "TITLE1", "axis_name": "AX"}},
    "irr_float": {"edges": [0, 0.5, 2, 3], "freq": [1.5, 0.25, 4.0], "dtype": "float64", "errors2": [2.25, 0.0625, 16.0], "meta": {}},
    "irr_neg_int": {"edges": [-2, -1, 0.5, 4], "freq": [0, 7, 1], "dtype": "int64", "meta": {"name": "ONLYNAME"}},
    "gapped": {"pairs": [[0, 1], [2, 3], [3, 5]], "freq": [2, 1, 4], "dtype": "int64", "meta": {"title": "TGAP", "axis_name": "gx"}},
    "single": {"edges": [1, 3], "freq": [4], "dtype": "int64", "meta": {}},
    "zeros": {"edges": [0, 1, 3, 4], "freq": [0, 0, 0], "dtype": "int64", "meta": {"name": "Z"}},
    "filled": {"fill": [-1.0, 0.25, 0.75, 0.75, 1.5, 3.25, 3.5, 9.0], "edges": [0, 1, 2, 4], "meta": {"axis_name": "time"}},
    "weighted": {"fill": [-1.0, 0.25, 0.75, 1.5, 3.25, 9.0], "weights": [0.5, 0.25, 2.0, 1.5, 4.0, 1.0], "edges": [0, 0.5, 2, 4], "meta": {"name": "W", "title": "WT"}},
    "secs": {"edges": [0, 30, 60, 120, 150], "freq": [2, 8, 1, 3], "dtype": "int64", "meta": {"axis_name": "t"}},
    # thorough only
    "large": {"edges": [1000, 1000.25, 1001, 1004], "freq": [1048576, 3, 0], "dtype": "int64", "meta": {"name": "big"}},
    "many": {"edges": [-4, -3.5, -2, -1, -0.75, 0, 0.25, 1, 3, 3.5, 6, 7, 8], "freq": [1, 0, 2, 5, 0, 0, 9, 4, 3, 0, 1, 6], "dtype": "int64", "meta": {"title": "MANY"}},
    "tiny": {"edges": [0, 0.0009765625, 0.001953125, 0.00390625], "freq": [2, 0, 1], "dtype": "float64", "meta": {}},
}
H1_QUICK = ["reg_int", "irr_float", "irr_neg_int", "gapped", "single", "zeros", "weighted"]
H1_AUX = ["filled", "secs"]  # quick tier: plotly / ASCII / extras only
H1_ALL = list(H1)

H2 = {
    "irr": {"edges": [[0, 1, 2, 4], [0, 0.5, 2]], "freq": [[1, 0], [3, 2], [0, 5]], "dtype": "int64", "meta": {"name": "N2", "title": "T2", "axis_names": ["xa", "ya"]}},
    "reg": {"edges": [[0, 1, 2, 3], [10, 12, 14]], "freq": [[1.5, 2.0], [0.0, 4.0], [6.0, 3.0]], "dtype": "float64", "meta": {}},
    "reg_sq": {"edges": [[0, 1, 2], [0, 1, 2]], "freq": [[1, 2], [3, 7]], "dtype": "int64", "meta": {"name": "SQ"}},
    "irr_b": {"edges": [[0, 0.5, 2, 3], [-1, 0, 3]], "freq": [[2, 0], [1, 4], [8, 3]], "dtype": "int64", "meta": {"axis_names": ["p", "q"]}},
    "zeros2": {"edges": [[0, 1, 2], [0, 2, 4]], "freq": [[0, 0], [0, 0]], "dtype": "int64", "meta": {"title": "ZZ"}},
    "single2": {"edges": [[0, 2], [1, 2]], "freq": [[3]], "dtype": "int64", "meta": {}},
    "polar_plain": {"edges": [[0, 1, 2], [0, PI / 2, PI, 2 * PI]], "freq": [[1, 0, 4], [2, 3, 0]], "dtype": "int64", "meta": {"title": "POL"}},
    "polar_hist": {"polar": True, "meta": {"name": "PH"}},
    # thorough only
    "reg_wide": {"edges": [[-2, 0, 2, 4, 6], [0, 0.25, 0.5]], "freq": [[1, 2], [3, 4], [0, 6], [9, 5]], "dtype": "int64", "meta": {}},
    "irr_late": {"edges": [[0, 1, 2, 3, 5], [0, 1, 2, 2.5]], "freq": [[1, 2, 0], [3, 4, 1], [0, 6, 2], [9, 5, 7]], "dtype": "int64", "meta": {}},
}
H2_QUICK = ["irr", "reg", "reg_sq", "irr_b", "zeros2", "single2", "polar_plain", "polar_hist"]
H2_ALL = list(H2)


def build1(name):
    from physt import h1
    from physt.types import Histogram1D

    s = H1[name]
    meta = dict(s.get("meta", {}))
    if "fill" in s:
        w = s.get("weights")
        h = h1(np.array(s["fill"], dtype=float), np.array(s["edges"], dtype=float), weights=None if w is None else np.array(w, dtype=float), **meta)
        return h
    bins = np.array(s["pairs"], dtype=float) if "pairs" in s else np.array(s["edges"], dtype=float)
    kw = {}
    if "errors2" in s:
        kw["errors2"] = np.array(s["errors2"], dtype=float)
    return Histogram1D(bins, np.array(s["freq"], dtype=s["dtype"]), dtype=s["dtype"], **kw, **meta)


def build2(name):
    from physt.types import Histogram2D

    s = H2[name]
    meta = dict(s.get("meta", {}))
    if s.get("polar"):
        from physt.special_histograms import polar

        x = np.array([0.5, 0.5, -1.25, 0.125, 1.5, -0.25, -0.5, 1.0])
        y = np.array([0.25, 0.75, 0.25, -1.5, -0.25, 0.5, -0.5, 1.0])
        return polar(x, y, radial_bins=np.array([0.0, 1.0, 2.0]), phi_bins=4, **meta)
    if "axis_names" in meta:
        meta["axis_names"] = tuple(meta["axis_names"])
    return Histogram2D([np.array(e, dtype=float) for e in s["edges"]], np.array(s["freq"], dtype=s["dtype"]), dtype=s["dtype"], **meta)


def build3():
    from physt import h3

    return h3(np.array([[0.5, 0.5, 0.5], [1.5, 0.5, 1.5], [1.5, 1.5, 0.5]]), [np.array([0.0, 1.0, 2.0])] * 3)


def build_collection(name):
    from physt.types import Histogram1D, HistogramCollection

    if name == "coll_irr":
        edges = np.array([0.0, 0.5, 2.0, 3.0])
        a = Histogram1D(edges, np.array([1, 0, 4]), name="A", axis_name="cx")
        b = Histogram1D(edges, np.array([2.5, 1.0, 0.5]), errors2=np.array([4.0, 1.0, 0.25]), name="B", axis_name="cx")
        c = Histogram1D(edges, np.array([0, 3, 3]), name="C", axis_name="cx")
        return HistogramCollection(a, b, c, title="COLL")
    if name == "coll_one":
        edges = np.array([0.0, 1.0, 2.0])
        return HistogramCollection(Histogram1D(edges, np.array([5, 2]), name="solo"), name="CN")
    raise ValueError(name)


def build(name):
    if name in H1:
        return build1(name)
    if name in H2:
        return build2(name)
    if name == "h3":
        return build3()
    return build_collection(name)


# ---------------------------------------------------------------------------------------------
# helpers
# ---------------------------------------------------------------------------------------------


def sig(*parts):
    return "|".join(str(p) for p in parts)


def exc_name(res):
    return type(res.exc).__name__


def close(a, b, rtol=RTOL):
    try:
        a = np.asarray(a, dtype=float)
        b = np.asarray(b, dtype=float)
    except (TypeError, ValueError):
        return False
    if a.shape != b.shape:
        return False
    if a.size == 0:
        return True
    fin = np.abs(b[np.isfinite(b)])
    scale = float(fin.max()) if fin.size else 0.0
    with np.errstate(invalid="ignore"):
        ok = (a == b) | (np.abs(a - b) <= rtol * np.maximum(np.abs(a), np.abs(b)) + 1e-12 * scale) | (np.isnan(a) & np.isnan(b))
    return bool(np.all(ok))


def lst(a):
    return np.asarray(a, dtype=float).tolist()


def ref1(h):
    bins = np.array(h.bins, dtype=float)
    left, right = bins[:, 0].copy(), bins[:, 1].copy()
    return {
        "n": len(left),
        "left": left,
        "right": right,
        "width": right - left,
        "centre": (left + right) / 2,
        "freq": np.array(h.frequencies, dtype=float),
        "e2": np.array(h.errors2, dtype=float),
        "edges": np.unique(np.concatenate([left, right])),
        "gapped": bool(np.any(left[1:] != right[:-1])),
    }


def ref2(h):
    b0 = np.array(h.bins[0], dtype=float)
    b1 = np.array(h.bins[1], dtype=float)
    n0, n1 = len(b0), len(b1)
    w0 = b0[:, 1] - b0[:, 0]
    w1 = b1[:, 1] - b1[:, 0]
    polar = type(h).__name__ == "PolarHistogram"
    if polar:
        sizes = np.outer((b0[:, 1] ** 2 - b0[:, 0] ** 2) / 2, w1)
    else:
        sizes = np.outer(w0, w1)
    return {"n0": n0, "n1": n1, "b0": b0, "b1": b1, "w0": w0, "w1": w1, "sizes": sizes, "freq": np.array(h.frequencies, dtype=float), "polar": polar}


def data_alternatives(freq, sizes, density, cumulative):
    """Acceptable arrays of plotted values (list); None when the statement leaves the case open."""
    with np.errstate(all="ignore"):
        if density and cumulative:
            tot = freq.sum()
            if tot == 0:
                return None
            return [np.cumsum(freq) / tot, np.cumsum(freq / sizes)]
        if density:
            return [freq / sizes]
        if cumulative:
            return [np.cumsum(freq)]
        return [freq]


def data_how(obs, freq, sizes, density, cumulative):
    """Which other flag setting the observed heights correspond to (coarse root-cause coordinate)."""
    for d, c, name in ((not density, cumulative, "density-ignored"), (density, not cumulative, "cumulative-ignored"), (not density, not cumulative, "both-ignored")):
        alts = data_alternatives(freq, sizes, d, c)
        if alts and match_alt(obs, alts) is not None:
            return name
    return "other"


def match_alt(obs, alts):
    for a in alts:
        if close(obs, a):
            return a
    return None


def invoke(h, backend, kind, kw, path):
    from physt.plotting import plot

    if path == "plot":
        return call(plot, h, kind, backend=backend, **kw)
    if path == "call":
        return call(lambda: h.plot(kind, backend=backend, **kw))
    if path == "attr":
        return call(lambda: getattr(h.plot, kind)(backend=backend, **kw))
    if path == "default":
        return call(plot, h, kind, **kw)
    raise ValueError(path)


PATHS = ["plot", "call", "attr"]

_FIGS = {}


def get_ax(projection=None):
    """One reused figure per projection and worker process; cleared before every plot."""
    import matplotlib.pyplot as plt

    key = projection or "rect"
    fig = _FIGS.get(key)
    if fig is None:
        fig = plt.figure()
        _FIGS[key] = fig
    fig.clf()
    return fig.add_subplot(111, projection=projection)


def close_new_figures(before):
    import matplotlib.pyplot as plt

    for num in plt.get_fignums():
        if num not in before:
            plt.close(num)


def fignums():
    import matplotlib.pyplot as plt

    return set(plt.get_fignums())


def lum(rgba):
    return 0.299 * float(rgba[0]) + 0.587 * float(rgba[1]) + 0.114 * float(rgba[2])


def mono_problems(vals, lums, skip=None, strict_ends=True):
    """Weak monotonicity (one direction) of colour level in value; returns list of problem tags."""
    n = len(vals)
    idx = [i for i in range(n) if not (skip is not None and skip[i])]
    inc = dec = eq_bad = False
    eps = 1e-9
    for a in idx:
        for b in idx:
            if vals[a] < vals[b]:
                if lums[a] < lums[b] - eps:
                    inc = True
                elif lums[a] > lums[b] + eps:
                    dec = True
            elif a < b and vals[a] == vals[b] and abs(lums[a] - lums[b]) > eps:
                eq_bad = True
    out = []
    if inc and dec:
        out.append("not_monotone")
    if eq_bad:
        out.append("equal_values_differ")
    if strict_ends and idx:
        lo = min(idx, key=lambda i: vals[i])
        hi = max(idx, key=lambda i: vals[i])
        if vals[hi] > vals[lo] and abs(lums[hi] - lums[lo]) <= eps:
            out.append("flat")
    return out


def meta_expect(h):
    """Expected title / labels read from the public meta data before the call."""
    md = h.meta_data if hasattr(h, "meta_data") else {}
    title = md.get("title") or md.get("name") or ""
    return {"title": title, "axis_names": tuple(h.axis_names)}


OVERRIDE = {"title": "T-over", "xlabel": "X-over", "ylabel": "Y-over"}


def check_labels(ax, exp, override, ndim, backend, case, out, demand=True, collection=False):
    got = {"title": ax.get_title(), "xlabel": ax.get_xlabel(), "ylabel": ax.get_ylabel()}
    want = {}
    if override:
        want = dict(OVERRIDE)
    else:
        if exp["title"] or not collection:
            want["title"] = exp["title"]
        want["xlabel"] = exp["axis_names"][0]
        if ndim == 2:
            want["ylabel"] = exp["axis_names"][1]
    bad = sorted(k for k, v in want.items() if got[k] != v and (demand or got[k]))
    if bad:
        out.append(V("labels", sig("labels", backend, f"{ndim}d", "override" if override else "meta"), case, want, {k: got[k] for k in bad}))


def check_unchanged(before, h, tag, case, out):
    after = snap(h)
    d = diff(before, after)
    if d:
        out.append(V("unchanged", sig("unchanged", tag), case, "histogram untouched", d))


# ---------------------------------------------------------------------------------------------
# matplotlib, 1D kinds
# ---------------------------------------------------------------------------------------------

KINDS1 = ["bar", "scatter", "line", "fill", "step"]

# name -> (kwargs, outcome may be a refusal, tag for special handling)
EXTRAS1 = {
    "fmt2f": {"kw": {"show_values": True, "value_format": ".2f"}},
    "xlim_tuple": {"kw": {"xlim": (-1.0, 7.0)}},
    "xlim_keep": {"kw": {"xlim": "keep"}},
    "ylim_keep": {"kw": {"ylim": "keep"}},
    "ylim_tuple": {"kw": {"ylim": (-2.0, 50.0)}},
    "invert_y": {"kw": {"invert_y": True}},
    "yscale_log": {"kw": {"yscale": "log"}, "open": True},
    "xscale_log": {"kw": {"xscale": "log"}, "open": True},
    "show_stats": {"kw": {"show_stats": True}, "open_kinds": []},
    "alpha": {"kw": {"alpha": 0.5}},
    "lw": {"kw": {"lw": 2}},
    "color": {"kw": {"color": "red"}},
    "cmap": {"kw": {"cmap": "viridis"}, "open_kinds": ["line", "fill", "step"]},
    "label": {"kw": {"label": "LBL"}},
    "zorder": {"kw": {"zorder": 3}},
    "errors_ecolor": {"kw": {"errors": True, "ecolor": "green"}},
    "th_30s": {"kw": {}, "tick_handler": "30s"},
    "th_min": {"kw": {}, "tick_handler": "min"},
    "th_edge": {"kw": {}, "tick_handler": "edge"},
    "th_center": {"kw": {}, "tick_handler": "center"},
    "th_none": {"kw": {}, "tick_handler": None, "use_handler": True},
}


def step_height(xs, ys, style, x0):
    """Height of a Line2D with the given draw style at abscissa x0 (xs ascending)."""
    n = len(xs)
    if n == 0:
        return float("nan")
    if style == "steps-pre":
        for k in range(n):
            if x0 <= xs[k]:
                return ys[k]
        return float("nan")
    if style == "steps-post":
        for k in range(n - 1, -1, -1):
            if x0 >= xs[k]:
                return ys[k]
        return float("nan")
    if style == "steps-mid":
        for k in range(n):
            hi = (xs[k] + xs[k + 1]) / 2 if k + 1 < n else float("inf")
            if x0 < hi:
                return ys[k]
        return float("nan")
    return float(np.interp(x0, xs, ys))


def mpl1d_kwargs(case):
    kw = {}
    for f in ("density", "cumulative", "errors", "show_values"):
        if case.get(f):
            kw[f] = True
    if case.get("ticks"):
        kw["ticks"] = case["ticks"]
    if case.get("override"):
        kw.update(OVERRIDE)
    ex = case.get("extra")
    handler = None
    if ex:
        spec = EXTRAS1[ex]
        kw.update(spec["kw"])
        if "tick_handler" in spec:
            from physt.plotting.common import TimeTickHandler

            handler = TimeTickHandler(spec["tick_handler"])
            kw["tick_handler"] = handler
    return kw, handler


def eval_mpl1d(case):
    from matplotlib.collections import LineCollection, PathCollection, PolyCollection
    from matplotlib.patches import Rectangle

    out = []
    kind = case["kind"]
    h = build(case["hist"])
    is_coll = case["hist"].startswith("coll")
    members = list(h) if is_coll else [h]
    refs = [ref1(m) for m in members]
    befores = [snap(m) for m in members]
    exp = meta_expect(members[0]) if not is_coll else {"title": h.title or "", "axis_names": tuple(h.axis_names)}
    kw, handler = mpl1d_kwargs(case)
    density, cumulative = bool(kw.get("density")), bool(kw.get("cumulative"))
    errors, show_values = bool(kw.get("errors")), bool(kw.get("show_values"))
    figs_before = fignums()
    noax = bool(case.get("noax"))
    if not noax:
        ax = get_ax()
        kw["ax"] = ax
        figs_before = fignums()
    res = invoke(h, "matplotlib", kind, kw, case.get("path", "plot"))
    tag = f"mpl|{kind}"
    for b, m in zip(befores, members):
        check_unchanged(b, m, tag, case, out)

    ex = case.get("extra")
    spec = EXTRAS1.get(ex, {})
    open_reasons = []
    if errors and cumulative:
        open_reasons.append("errors+cumulative")
    if kind in ("fill", "step") and errors:
        open_reasons.append("errors-unsupported")
    if kind == "fill" and show_values:
        open_reasons.append("show_values-unsupported")
    if kind == "step" and any(r["gapped"] for r in refs):
        open_reasons.append("step-gapped")
    alts_all = [data_alternatives(r["freq"], r["width"], density, cumulative) for r in refs]
    if any(a is None for a in alts_all):
        open_reasons.append("empty-normalised")
    if spec.get("open") or kind in spec.get("open_kinds", []):
        open_reasons.append("extra-open")
    if ex and ex.startswith("th_") and case.get("ticks"):
        open_reasons.append("ticks+handler")
    if ex == "th_edge" and any(r["gapped"] for r in refs):
        open_reasons.append("edge-gapped")
    if ex == "show_stats" and any(np.sum(r["freq"]) == 0 for r in refs):
        open_reasons.append("stats-empty")

    if not res.ok:
        close_new_figures(figs_before)
        if open_reasons:
            return out, f"{tag}:refused:{open_reasons[0]}"
        out.append(V("must_succeed", sig("must_succeed", tag, f"d{int(density)}c{int(cumulative)}e{int(errors)}v{int(show_values)}", ex or "-", exc_name(res)), case, "a plot", res.describe()))
        return out, f"{tag}:raise:{exc_name(res)}"
    if noax:
        ax = res.value
        if not hasattr(ax, "patches"):
            out.append(V("returns_axes", sig("returns_axes", tag), case, "Axes", repr(ax)[:80]))
            close_new_figures(figs_before)
            return out, f"{tag}:ok"
    try:
        _read_mpl1d(case, ax, kind, refs, alts_all, density, cumulative, errors, show_values, exp, is_coll, handler, ex, out, Rectangle, LineCollection, PathCollection, PolyCollection)
    finally:
        close_new_figures(figs_before)
    return out, f"{tag}:ok" + (":open" if open_reasons else "")


def _read_mpl1d(case, ax, kind, refs, alts_all, density, cumulative, errors, show_values, exp, is_coll, handler, ex, out, Rectangle, LineCollection, PathCollection, PolyCollection):
    tag = f"mpl|{kind}"
    flags = f"d{int(density)}c{int(cumulative)}"
    nh = len(refs)
    rects = [p for p in ax.patches if isinstance(p, Rectangle)]
    linecolls = [c for c in ax.collections if isinstance(c, LineCollection)]
    pathcolls = [c for c in ax.collections if isinstance(c, PathCollection)]
    polycolls = [c for c in ax.collections if isinstance(c, PolyCollection)]
    lines = list(ax.lines)
    texts = [t for t in ax.texts if t.get_transform() == ax.transData]
    chosen = [None] * nh  # matched data array per histogram

    def bad_data(k, obs):
        alts = alts_all[k]
        how = data_how(obs, refs[k]["freq"], refs[k]["width"], density, cumulative)
        out.append(V("data", sig("data", tag, how), case, {"flags": flags, "accepted": [lst(a) for a in alts] if alts else "open"}, lst(obs)))

    def judge_heights(k, obs):
        alts = alts_all[k]
        if alts is None:
            return True
        a = match_alt(obs, alts)
        if a is None:
            bad_data(k, obs)
            return False
        chosen[k] = a
        return True

    if kind == "bar":
        n_tot = sum(r["n"] for r in refs)
        if len(rects) != n_tot:
            out.append(V("marks", sig("marks", tag, "count"), case, n_tot, len(rects)))
        else:
            pos = 0
            for k, r in enumerate(refs):
                part = rects[pos:pos + r["n"]]
                pos += r["n"]
                xs = [p.get_x() for p in part]
                ws = [p.get_width() for p in part]
                ys = [p.get_y() for p in part]
                hs = [p.get_height() for p in part]
                if not (close(xs, r["left"]) and close(ws, r["width"])):
                    out.append(V("position", sig("position", tag), case, {"x": lst(r["left"]), "width": lst(r["width"])}, {"x": lst(xs), "width": lst(ws)}))
                    continue
                if not close(ys, np.zeros(r["n"])):
                    out.append(V("baseline", sig("baseline", tag), case, 0, lst(ys)))
                    continue
                judge_heights(k, hs)
    elif kind in ("scatter", "line"):
        seqs = []
        if kind == "scatter":
            seqs += [np.asarray(c.get_offsets(), dtype=float) for c in pathcolls]
            if len(seqs) != nh:
                out.append(V("marks", sig("marks", tag, "count"), case, nh, len(seqs)))
                seqs = []
            # the error-bar data line (markersize 0) must sit on the same points
            extra = [np.asarray(ln.get_xydata(), dtype=float) for ln in lines]
        else:
            seqs += [np.asarray(ln.get_xydata(), dtype=float) for ln in lines]
            if len(seqs) != nh:
                out.append(V("marks", sig("marks", tag, "count"), case, nh, len(seqs)))
                seqs = []
            extra = []
        for k, xy in enumerate(seqs):
            r = refs[k]
            if xy.shape != (r["n"], 2) or not close(xy[:, 0], r["centre"]):
                out.append(V("position", sig("position", tag), case, lst(r["centre"]), xy.tolist()))
                continue
            judge_heights(k, xy[:, 1])
        for j, xy in enumerate(extra):
            k = j if j < nh else nh - 1
            r = refs[k]
            if chosen[k] is not None and not (xy.shape == (r["n"], 2) and close(xy[:, 0], r["centre"]) and close(xy[:, 1], chosen[k])):
                out.append(V("marks", sig("marks", tag, "errorbar-line"), case, [lst(r["centre"]), lst(chosen[k])], xy.tolist()))
    elif kind == "fill":
        if len(polycolls) != nh:
            out.append(V("marks", sig("marks", tag, "count"), case, nh, len(polycolls)))
        else:
            for k, pc in enumerate(polycolls):
                r = refs[k]
                verts = np.concatenate([np.asarray(p.vertices, dtype=float) for p in pc.get_paths()]) if pc.get_paths() else np.zeros((0, 2))
                obs_x = np.unique(verts[:, 0])
                if not close(obs_x, np.unique(r["centre"])):
                    out.append(V("position", sig("position", tag), case, lst(r["centre"]), lst(obs_x)))
                    continue
                tops = []
                ok = True
                for c in r["centre"]:
                    ys = verts[np.isclose(verts[:, 0], c, rtol=RTOL, atol=1e-12), 1]
                    nz = [y for y in ys if abs(y) > 0]
                    if len({round(float(y), 12) for y in nz}) > 1 or not np.any(ys == 0):
                        ok = False
                    tops.append(nz[0] if nz else 0.0)
                if not ok:
                    out.append(V("marks", sig("marks", tag, "polygon"), case, "vertices (centre,0) and (centre,value)", verts.tolist()))
                    continue
                judge_heights(k, tops)
    elif kind == "step":
        if len(lines) != nh:
            out.append(V("marks", sig("marks", tag, "count"), case, nh, len(lines)))
        else:
            for k, ln in enumerate(lines):
                r = refs[k]
                xy = np.asarray(ln.get_xydata(), dtype=float)
                order = np.argsort(xy[:, 0], kind="stable")
                xs, ys = xy[order, 0], xy[order, 1]
                allowed = np.concatenate([r["edges"], r["centre"]])
                if not all(np.any(np.isclose(x, allowed, rtol=RTOL, atol=1e-12)) for x in xs):
                    out.append(V("position", sig("position", tag), case, {"edges": lst(r["edges"])}, lst(xs)))
                    continue
                style = ln.get_drawstyle()
                hs = []
                flat = True
                for i in range(r["n"]):
                    pts = [r["centre"][i], r["left"][i] + r["width"][i] / 4, r["right"][i] - r["width"][i] / 4]
                    vals = [step_height(xs, ys, style, x0) for x0 in pts]
                    if not close(vals, [vals[0]] * 3):
                        flat = False
                    hs.append(vals[0])
                if not flat:
                    out.append(V("marks", sig("marks", tag, "not-flat-over-bin"), case, "constant height over each bin", {"x": lst(xs), "y": lst(ys), "style": style}))
                    continue
                judge_heights(k, hs)

    # error bars ---------------------------------------------------------------------------
    if errors and not cumulative and kind in ("bar", "scatter", "line") and all(c is not None for c in chosen):
        segs = [np.asarray(s, dtype=float) for c in linecolls for s in c.get_segments()]
        n_tot = sum(r["n"] for r in refs)
        if len(segs) != n_tot:
            out.append(V("errors", sig("errors", tag, "count"), case, n_tot, len(segs)))
        else:
            pos = 0
            for k, r in enumerate(refs):
                part = segs[pos:pos + r["n"]]
                pos += r["n"]
                err = np.sqrt(r["e2"]) / (r["width"] if density else 1.0)
                lo, hi = chosen[k] - err, chosen[k] + err
                o_lo = [min(s[:, 1]) for s in part]
                o_hi = [max(s[:, 1]) for s in part]
                o_x = [s[0, 0] for s in part]
                vertical = all(s.shape == (2, 2) and s[0, 0] == s[1, 0] for s in part)
                x_ok = vertical and all(
                    any(abs(x - p) <= 1e-9 * max(1.0, abs(p)) for p in (r["left"][i], r["centre"][i], r["right"][i])) for i, x in enumerate(o_x)
                )
                if not x_ok:
                    out.append(V("errors", sig("errors", tag, "position"), case, lst(r["centre"]), lst(o_x)))
                elif not (close(o_lo, lo) and close(o_hi, hi)):
                    out.append(V("errors", sig("errors", tag, f"span|d{int(density)}"), case, {"lo": lst(lo), "hi": lst(hi)}, {"lo": lst(o_lo), "hi": lst(o_hi)}))

    # value texts --------------------------------------------------------------------------
    if show_values and kind != "fill" and all(c is not None for c in chosen):
        n_tot = sum(r["n"] for r in refs)
        if len(texts) != n_tot:
            out.append(V("values", sig("values", tag, "count"), case, n_tot, len(texts)))
        else:
            pos = 0
            tol = 0.005000001 if ex == "fmt2f" else 0.0
            for k, r in enumerate(refs):
                part = texts[pos:pos + r["n"]]
                pos += r["n"]
                for i, t in enumerate(part):
                    x, y = t.get_position()
                    try:
                        val = float(t.get_text())
                    except ValueError:
                        val = None
                    want = float(chosen[k][i])
                    if not (r["left"][i] - 1e-12 <= x <= r["right"][i] + 1e-12) or not close([y], [want]):
                        out.append(V("values", sig("values", tag, "position"), case, [float(r["centre"][i]), want], [float(x), float(y)]))
                        break
                    if val is None or not (close([val], [want]) or abs(val - want) <= tol):
                        out.append(V("values", sig("values", tag, "text"), case, want, t.get_text()))
                        break
    elif texts and kind == "fill" and all(c is not None for c in chosen):
        pass  # fill does not support value texts; nothing is demanded

    # ticks --------------------------------------------------------------------------------
    r0 = refs[0]
    tk = case.get("ticks")
    if tk in ("center", "edge") or handler is not None:
        got = np.asarray(ax.get_xticks(), dtype=float)
    if handler is None and tk == "center":
        if not close(got, r0["centre"]):
            out.append(V("ticks", sig("ticks", tag, "center"), case, lst(r0["centre"]), lst(got)))
    elif handler is None and tk == "edge":
        in_edges = all(np.any(np.isclose(x, r0["edges"], rtol=RTOL, atol=1e-12)) for x in got)
        has_left = all(np.any(np.isclose(x, got, rtol=RTOL, atol=1e-12)) for x in r0["left"])
        if not (in_edges and has_left):
            out.append(V("ticks", sig("ticks", tag, "edge"), case, lst(r0["left"]), lst(got)))
    elif handler is not None and not tk:
        lo, hi = float(r0["left"][0]), float(r0["right"][-1])
        want = expected_time_ticks(EXTRAS1[ex]["tick_handler"], lo, hi, r0)
        labels = [t.get_text() for t in ax.get_xticklabels()]
        if want is not None and not close(got, want):
            out.append(V("ticks", sig("ticks", "mpl", "handler"), case, lst(want), lst(got)))
        elif len(labels) != len(got) or any(not s for s in labels):
            out.append(V("ticks", sig("ticks", "mpl", "handler-labels"), case, len(got), labels))

    # labels -------------------------------------------------------------------------------
    check_labels(ax, exp, bool(case.get("override")), 1, "mpl", case, out, collection=is_coll)


# ---------------------------------------------------------------------------------------------
# matplotlib, 2D kinds
# ---------------------------------------------------------------------------------------------

KINDS2 = ["map", "image", "polar_map"]

TRANSFORMS = {
    "shear": (lambda x, y: 2 * x + y, lambda x, y: y - 0.5 * x),
    "xonly": (lambda x, y: x * 3 + 1, None),
}

EXTRAS2 = {
    "viridis": {"kw": {"cmap": "viridis"}},
    "greys_r": {"kw": {"cmap": "Greys_r"}},
    "cmap_list": {"kw": {"cmap": ["#ffffff", "#aaaaaa", "#555555", "#000000"]}, "weak": True},
    "cmap_max": {"kw": {"cmap_max": 2.0}, "weak": True},
    "cmap_min": {"kw": {"cmap_min": "min"}},
    "alpha": {"kw": {"alpha": 0.5}},
    "grid": {"kw": {"grid_color": "red", "lw": 2}, "kinds": ["map", "polar_map"]},
    "fmt1f": {"kw": {"show_values": True, "value_format": ".1f"}, "kinds": ["map"]},
    "zorder": {"kw": {"zorder": 2}, "kinds": ["map", "polar_map"]},
    "shear": {"kw": {}, "transform": "shear", "kinds": ["map"]},
    "xonly": {"kw": {"show_values": True}, "transform": "xonly", "kinds": ["map"]},
    "xlim": {"kw": {"xlim": (-1.0, 9.0), "ylim": (-3.0, 20.0)}, "kinds": ["map", "image"]},
    "invert_y": {"kw": {"invert_y": True}, "kinds": ["map", "image"]},
    "interp": {"kw": {"interpolation": "bilinear"}, "kinds": ["image"]},
}


def mpl2d_kwargs(case):
    kind = case["kind"]
    kw = {}
    if case.get("density"):
        kw["density"] = True
    if kind != "image":
        if not case.get("show_zero", True):
            kw["show_zero"] = False
        if case.get("show_values"):
            kw["show_values"] = True
    if case.get("norm"):
        kw["cmap_normalize"] = case["norm"]
    if case.get("override"):
        kw.update(OVERRIDE)
    if not case.get("colorbar"):
        kw["show_colorbar"] = False
    ex = case.get("extra")
    tr = None
    if ex:
        spec = EXTRAS2[ex]
        kw.update(spec["kw"])
        if spec.get("transform"):
            tr = TRANSFORMS[spec["transform"]]
            if tr[0] is not None:
                kw["x"] = tr[0]
            if tr[1] is not None:
                kw["y"] = tr[1]
    return kw, tr


def eval_mpl2d(case):
    from matplotlib.patches import PathPatch, Rectangle

    out = []
    kind = case["kind"]
    h = build(case["hist"])
    r = ref2(h)
    before = snap(h)
    exp = meta_expect(h)
    kw, tr = mpl2d_kwargs(case)
    density = bool(kw.get("density"))
    show_zero = kw.get("show_zero", True)
    show_values = bool(kw.get("show_values"))
    norm = kw.get("cmap_normalize")
    ax = get_ax("polar" if kind == "polar_map" else None)
    kw["ax"] = ax
    figs_before = fignums()
    res = invoke(h, "matplotlib", kind, kw, case.get("path", "plot"))
    tag = f"mpl|{kind}"
    check_unchanged(before, h, tag, case, out)
    with np.errstate(all="ignore"):
        data = r["freq"] / r["sizes"] if density else r["freq"]
    regular = all(close(w, np.full(len(w), w[0])) for w in (r["w0"], r["w1"]))
    open_reasons = []
    if norm == "log" and not np.any(data > 0):
        open_reasons.append("log-without-positive")
    if kind == "image" and not regular:
        open_reasons.append("image-irregular")
    if norm == "log" and kind != "image" and show_zero and np.any(data <= 0):
        # a zero cell has no colour on a logarithmic scale: drawing it may be refused
        open_reasons.append("log-zero-cell")
    if norm == "log" and case.get("extra") in ("cmap_min", "cmap_max"):
        open_reasons.append("log-with-explicit-colour-limits")
    if not res.ok:
        close_new_figures(figs_before)
        if open_reasons:
            return out, f"{tag}:refused:{open_reasons[0]}"
        shape = "single-bin-axis" if min(r["n0"], r["n1"]) == 1 else "multi"
        out.append(V("must_succeed", sig("must_succeed", tag, shape, case.get("extra") or "-", exc_name(res)), case, "a plot", res.describe()))
        return out, f"{tag}:raise:{exc_name(res)}"
    try:
        if kind == "image":
            _read_image(case, ax, r, data, regular, norm, out)
        else:
            _read_cells(case, ax, kind, r, data, show_zero, show_values, norm, tr, out, Rectangle, PathPatch)
        ex = case.get("extra")
        if not (ex in ("shear", "xonly")):
            check_labels(ax, exp, bool(case.get("override")), 2, "mpl" if kind != "polar_map" else "mpl-polar", case, out, demand=(kind != "polar_map"))
    finally:
        close_new_figures(figs_before)
    return out, f"{tag}:ok" + (":open" if open_reasons else "")


def _read_cells(case, ax, kind, r, data, show_zero, show_values, norm, tr, out, Rectangle, PathPatch):
    tag = f"mpl|{kind}"
    n0, n1 = r["n0"], r["n1"]
    cells = []  # (i, j, value, x, y, w, h)
    for i in range(n0):
        for j in range(n1):
            v = float(data[i, j])
            if v != 0 or show_zero:
                if kind == "map":
                    cells.append((i, j, v, r["b0"][i, 0], r["b1"][j, 0], r["w0"][i], r["w1"][j]))
                else:  # polar: angle is the horizontal coordinate of the polar axes
                    cells.append((i, j, v, r["b1"][j, 0], r["b0"][i, 0], r["w1"][j], r["w0"][i]))
    ex = case.get("extra")
    weak = bool(EXTRAS2.get(ex, {}).get("weak"))
    if tr is None:
        patches = [p for p in ax.patches if isinstance(p, Rectangle)]
        obs = [(p.get_x(), p.get_y(), p.get_width(), p.get_height()) for p in patches]
    else:
        patches = [p for p in ax.patches if isinstance(p, PathPatch)]
        obs = [np.asarray(p.get_path().vertices, dtype=float)[:4].ravel().tolist() for p in patches]
    if len(patches) != len(cells):
        out.append(V("cells", sig("cells", tag, "count", f"show_zero={int(bool(show_zero))}"), case, len(cells), len(patches)))
        return
    fx = (tr[0] if tr and tr[0] is not None else (lambda x, y: x))
    fy = (tr[1] if tr and tr[1] is not None else (lambda x, y: y))
    want = []
    for (i, j, v, x, y, w, hh) in cells:
        if tr is None:
            want.append((x, y, w, hh))
        else:
            pts = [(x, y), (x + w, y), (x + w, y + hh), (x, y + hh)]
            want.append([c for p in pts for c in (fx(*p), fy(*p))])
    if not close(obs, want):
        # same set in another order is still one cell per bin at its position, but colours are matched by order
        so, sw = sorted(map(tuple, obs)), sorted(map(tuple, want))
        if not close(so, sw):
            out.append(V("cells", sig("cells", tag, "position"), case, [list(map(float, w)) for w in want], [list(map(float, o)) for o in obs]))
            return
        order = sorted(range(len(obs)), key=lambda k: tuple(obs[k]))
        worder = sorted(range(len(want)), key=lambda k: tuple(want[k]))
        remap = {w: o for w, o in zip(worder, order)}
        patches = [patches[remap[k]] for k in range(len(cells))]
    vals = [c[2] for c in cells]
    lums = [lum(p.get_facecolor()) for p in patches]
    skip = [norm == "log" and v <= 0 for v in vals]
    probs = mono_problems(vals, lums, skip, strict_ends=not weak)
    if probs:
        out.append(V("colour", sig("colour", tag, "+".join(probs), f"norm={norm}"), case, "grey level monotone in value", [[v, round(l, 6)] for v, l in zip(vals, lums)]))
    texts = [t for t in ax.texts if t.get_transform() == ax.transData]
    if show_values and kind == "map":
        if len(texts) != len(cells):
            out.append(V("values", sig("values", tag, "count"), case, len(cells), len(texts)))
        else:
            tol = 0.0500001 if ex == "fmt1f" else 0.0
            for t, (i, j, v, x, y, w, hh) in zip(texts, cells):
                cx, cy = x + w / 2, y + hh / 2
                wx, wy = fx(cx, cy), fy(cx, cy)
                px, py = t.get_position()
                try:
                    val = float(t.get_text())
                except ValueError:
                    val = None
                if not close([px, py], [wx, wy]):
                    out.append(V("values", sig("values", tag, "position"), case, [float(wx), float(wy)], [float(px), float(py)]))
                    break
                if val is None or not (close([val], [v]) or abs(val - v) <= tol):
                    out.append(V("values", sig("values", tag, "text"), case, v, t.get_text()))
                    break


def _read_image(case, ax, r, data, regular, norm, out):
    tag = "mpl|image"
    ims = list(ax.images)
    if len(ims) != 1:
        out.append(V("cells", sig("cells", tag, "count"), case, 1, len(ims)))
        return
    im = ims[0]
    arr = np.ma.asarray(im.get_array())
    n0, n1 = r["n0"], r["n1"]
    if arr.ndim != 2 or arr.shape[0] * arr.shape[1] != n0 * n1:
        out.append(V("cells", sig("cells", tag, "shape"), case, [n1, n0], list(arr.shape)))
        return
    R, C = arr.shape
    left, right, bottom, top = (float(v) for v in im.get_extent())
    upper = im.origin == "upper"
    rgba = np.asarray(im.to_rgba(arr), dtype=float)
    vals, lums, skip = [], [], []
    regtag = "regular" if regular else "irregular"
    for i in range(n0):
        for j in range(n1):
            cx = (r["b0"][i, 0] + r["b0"][i, 1]) / 2
            cy = (r["b1"][j, 0] + r["b1"][j, 1]) / 2
            fx = (cx - left) / (right - left) * C
            fy = (cy - bottom) / (top - bottom) * R
            c, rr = int(math.floor(fx)), int(math.floor(fy))
            if not (0 <= c < C and 0 <= rr < R):
                out.append(V("cells", sig("cells", tag, "position", regtag), case, "bin centre inside the image", {"extent": [left, right, bottom, top], "centre": [cx, cy]}))
                return
            # pixel bounds must be the bin's edges
            pl, pr = left + (right - left) * c / C, left + (right - left) * (c + 1) / C
            pb, pt = bottom + (top - bottom) * rr / R, bottom + (top - bottom) * (rr + 1) / R
            if not (close([min(pl, pr), max(pl, pr)], r["b0"][i]) and close([min(pb, pt), max(pb, pt)], r["b1"][j])):
                out.append(V("cells", sig("cells", tag, "position", regtag), case, {"bin": [lst(r["b0"][i]), lst(r["b1"][j])]}, {"pixel_x": [pl, pr], "pixel_y": [pb, pt]}))
                return
            row = (R - 1 - rr) if upper else rr
            v = float(data[i, j])
            pix = arr[row, c]
            masked = pix is np.ma.masked
            if not masked and not close([float(pix)], [v]):
                dens = bool(case.get("density"))
                with np.errstate(all="ignore"):
                    other = r["freq"] if dens else r["freq"] / r["sizes"]
                how = "density-ignored" if dens and close([float(pix)], [float(other[i, j])]) else "other"
                out.append(V("data", sig("data", tag, how), case, {"bin": [i, j], "value": v}, {"pixel": float(pix), "array": np.ma.filled(arr, np.nan).tolist()}))
                return
            vals.append(v)
            lums.append(lum(rgba[row, c]))
            skip.append(masked or (norm == "log" and v <= 0))
    ex = case.get("extra")
    weak = bool(EXTRAS2.get(ex, {}).get("weak"))
    probs = mono_problems(vals, lums, skip, strict_ends=not weak)
    if probs:
        out.append(V("colour", sig("colour", tag, "+".join(probs), f"norm={norm}"), case, "grey level monotone in value", [[v, round(l, 6)] for v, l in zip(vals, lums)]))


# ---------------------------------------------------------------------------------------------
# plotly
# ---------------------------------------------------------------------------------------------

PLOTLY_EXTRAS = {
    "errors": {"errors": True},
    "title": {"title": "T-over"},
    "show_values": {"show_values": True},
    "alpha": {"alpha": 0.5},
}


def eval_plotly1d(case):
    out = []
    kind = case["kind"]
    h = build(case["hist"])
    is_coll = case["hist"].startswith("coll")
    members = list(h) if is_coll else [h]
    refs = [ref1(m) for m in members]
    befores = [snap(m) for m in members]
    names = [m.name for m in members]
    title = (h.title or "") if is_coll else meta_expect(h)["title"]
    axis = tuple(h.axis_names)[0]
    kw = {}
    density, cumulative = bool(case.get("density")), bool(case.get("cumulative"))
    if density:
        kw["density"] = True
    if cumulative:
        kw["cumulative"] = True
    if case.get("ticks"):
        kw["ticks"] = case["ticks"]
    ex = case.get("extra")
    if ex:
        kw.update(PLOTLY_EXTRAS[ex])
    res = invoke(h, "plotly", kind, kw, case.get("path", "plot"))
    tag = f"plotly|{kind}"
    for b, m in zip(befores, members):
        check_unchanged(b, m, tag, case, out)
    alts_all = [data_alternatives(r["freq"], r["width"], density, cumulative) for r in refs]
    open_reasons = []
    if any(a is None for a in alts_all):
        open_reasons.append("empty-normalised")
    if ex and not (ex == "alpha" and kind == "bar"):
        open_reasons.append("keyword-pass-through")
    if case.get("ticks") and kind == "bar":
        open_reasons.append("bar-ticks-pass-through")
    if not res.ok:
        if open_reasons:
            return out, f"{tag}:refused:{open_reasons[0]}"
        out.append(V("must_succeed", sig("must_succeed", tag, f"d{int(density)}c{int(cumulative)}", exc_name(res)), case, "a figure", res.describe()))
        return out, f"{tag}:raise:{exc_name(res)}"
    fig = res.value
    traces = list(getattr(fig, "data", []))
    flags = f"d{int(density)}c{int(cumulative)}"
    if len(traces) != len(refs):
        out.append(V("marks", sig("marks", tag, "count"), case, len(refs), len(traces)))
        return out, f"{tag}:ok"
    for k, (t, r) in enumerate(zip(traces, refs)):
        want_type = "bar" if kind == "bar" else "scatter"
        if t.type != want_type:
            out.append(V("marks", sig("marks", tag, "type"), case, want_type, t.type))
            continue
        x = np.asarray(t.x, dtype=float)
        y = np.asarray(t.y, dtype=float)
        if kind == "bar":
            w = np.asarray(t.width, dtype=float) if t.width is not None else None
            ok = w is not None and w.shape == x.shape and x.shape == (r["n"],)
            if ok:
                lo = (x - w / 2) if t.offset is None else (x + np.asarray(t.offset, dtype=float))
                ok = close(lo, r["left"]) and close(lo + w, r["right"])
            if not ok:
                out.append(V("position", sig("position", tag), case, {"left": lst(r["left"]), "right": lst(r["right"])}, {"x": lst(x), "width": None if w is None else lst(w)}))
                continue
        else:
            if not close(x, r["centre"]):
                out.append(V("position", sig("position", tag), case, lst(r["centre"]), lst(x)))
                continue
            mode = t.mode or ""
            need = "markers" if kind == "scatter" else "lines"
            if need not in mode:
                out.append(V("marks", sig("marks", tag, "mode"), case, need, mode))
        alts = alts_all[k]
        if alts is not None and match_alt(y, alts) is None:
            out.append(V("data", sig("data", tag, data_how(y, r["freq"], r["width"], density, cumulative)), case, {"flags": flags, "accepted": [lst(a) for a in alts]}, lst(y)))
            continue
        ey = t.error_y
        if ey is not None and ey.array is not None and not cumulative and alts is not None:
            err = np.sqrt(r["e2"]) / (r["width"] if density else 1.0)
            if not close(np.asarray(ey.array, dtype=float), err):
                out.append(V("errors", sig("errors", tag, f"span|d{int(density)}"), case, lst(err), lst(ey.array)))
        if t.name is not None and names[k] is not None and t.name != names[k]:
            out.append(V("trace_name", sig("trace_name", tag), case, names[k], t.name))
    tv = fig.layout.xaxis.tickvals
    tk = case.get("ticks")
    r0 = refs[0]
    if tk == "center" and (tv is None or not close(tv, r0["centre"])):
        out.append(V("ticks", sig("ticks", tag, "center"), case, lst(r0["centre"]), None if tv is None else lst(tv)))
    if tk == "edge":
        got = np.asarray(tv if tv is not None else [], dtype=float)
        in_edges = all(np.any(np.isclose(x, r0["edges"], rtol=RTOL, atol=1e-12)) for x in got)
        has_left = all(np.any(np.isclose(x, got, rtol=RTOL, atol=1e-12)) for x in r0["left"])
        if not (in_edges and has_left):
            out.append(V("ticks", sig("ticks", tag, "edge"), case, lst(r0["left"]), lst(got)))
    # labels: only judged if present
    lt = fig.layout.title.text
    want_t = "T-over" if ex == "title" else title
    if lt and lt != want_t:
        out.append(V("title", sig("title", tag), case, want_t, lt))
    lx = fig.layout.xaxis.title.text
    if lx and lx != axis:
        out.append(V("xlabel", sig("xlabel", tag), case, axis, lx))
    return out, f"{tag}:ok" + (":open" if open_reasons else "")


def eval_plotly_map(case):
    out = []
    h = build(case["hist"])
    r = ref2(h)
    before = snap(h)
    kw = {}
    if case.get("density"):
        kw["density"] = True
    res = invoke(h, "plotly", "map", kw, case.get("path", "plot"))
    tag = "plotly|map"
    check_unchanged(before, h, tag, case, out)
    if not res.ok:
        if kw:
            return out, f"{tag}:refused:density"
        out.append(V("must_succeed", sig("must_succeed", tag, exc_name(res)), case, "a figure", res.describe()))
        return out, f"{tag}:raise:{exc_name(res)}"
    fig = res.value
    traces = list(fig.data)
    if len(traces) != 1 or traces[0].type != "heatmap":
        out.append(V("cells", sig("cells", tag, "trace"), case, "one heatmap", [t.type for t in traces]))
        return out, f"{tag}:ok"
    t = traces[0]
    z = np.asarray(t.z, dtype=float)
    if t.transpose:
        z = z.T
    with np.errstate(all="ignore"):
        data = r["freq"] / r["sizes"] if case.get("density") else r["freq"]
    n0, n1 = r["n0"], r["n1"]
    # plotly: z[row][col], rows run along y, columns along x; axis 0 of the histogram is x
    want = data.T
    if z.shape != want.shape or not close(z, want):
        how = "transposed" if z.shape == data.shape and close(z, data) else "other"
        out.append(V("cells", sig("cells", tag, "orientation", how), case, {"z[y][x]": want.tolist()}, {"z": z.tolist()}))
    for axis, coords, b in (("x", t.x, r["b0"]), ("y", t.y, r["b1"])):
        centres = (b[:, 0] + b[:, 1]) / 2
        edges = np.concatenate([b[:, 0], b[-1:, 1]])
        consecutive = bool(np.all(b[1:, 0] == b[:-1, 1]))
        ok = coords is not None and (close(np.asarray(coords, dtype=float), centres) or (consecutive and close(np.asarray(coords, dtype=float), edges)))
        if not ok:
            # default coordinates 0..n-1 (cells spanning k-0.5..k+0.5) are only right if the bins are exactly these
            default_ok = coords is None and close(b[:, 0], np.arange(len(b)) - 0.5) and close(b[:, 1], np.arange(len(b)) + 0.5)
            if not default_ok:
                out.append(V("cells", sig("cells", tag, "position"), case, {axis: "bin centres or edges", "centres": lst(centres)}, {axis: None if coords is None else lst(coords)}))
                break
    return out, f"{tag}:ok"


# ---------------------------------------------------------------------------------------------
# ASCII
# ---------------------------------------------------------------------------------------------


def eval_ascii_hbar(case):
    out = []
    h = build(case["hist"])
    r = ref1(h)
    before = snap(h)
    kw = {}
    if case.get("width") is not None:
        kw["width"] = case["width"]
    if case.get("show_values"):
        kw["show_values"] = True
    for f in ("density", "cumulative"):
        if case.get(f):
            kw[f] = True
    buf = io.StringIO()
    with contextlib.redirect_stdout(buf):
        res = invoke(h, "ascii", "hbar", kw, case.get("path", "plot"))
    tag = "ascii|hbar"
    check_unchanged(before, h, tag, case, out)
    total = float(r["freq"].sum())
    open_reasons = []
    if total <= 0 or np.any(r["freq"] < 0):
        open_reasons.append("empty-or-negative")
    if case.get("density") or case.get("cumulative"):
        open_reasons.append("unsupported-option")
    if not res.ok:
        if open_reasons:
            return out, f"{tag}:refused:{open_reasons[0]}"
        out.append(V("must_succeed", sig("must_succeed", tag, exc_name(res)), case, "printed bars", res.describe()))
        return out, f"{tag}:raise:{exc_name(res)}"
    if open_reasons:
        return out, f"{tag}:ok:open"
    text = buf.getvalue()
    lines = text.split("\n")
    if lines and lines[-1] == "":
        lines = lines[:-1]
    if len(lines) != r["n"]:
        out.append(V("marks", sig("marks", tag, "count"), case, r["n"], lines))
        return out, f"{tag}:ok"
    width = case.get("width") if case.get("width") is not None else 80
    lengths, values = [], []
    for ln in lines:
        m = re.match(r"^(#*)(?: (.*))?$", ln)
        if not m:
            out.append(V("marks", sig("marks", tag, "format"), case, "'#'*k [value]", ln))
            return out, f"{tag}:ok"
        lengths.append(len(m.group(1)))
        values.append(m.group(2))
    # proportionality: one scale k with |L_i - k f_i| <= 1/2 for every bin
    lo, hi = Fraction(0), None
    ok = True
    for L, f in zip(lengths, r["freq"].tolist()):
        if f == 0:
            ok = ok and L == 0
            continue
        ff = Fraction(f)
        a, b = (Fraction(L) - Fraction(1, 2)) / ff, (Fraction(L) + Fraction(1, 2)) / ff
        lo = max(lo, a)
        hi = b if hi is None else min(hi, b)
    if hi is not None and lo > hi:
        ok = False
    if ok and width >= 2 * r["n"] and max(lengths) == 0:
        ok = False
    if max(lengths) > width:
        ok = False
    if not ok:
        out.append(V("data", sig("data", tag, "proportional"), case, {"frequencies": lst(r["freq"]), "width": width}, lengths))
    if case.get("show_values"):
        got = []
        for v in values:
            try:
                got.append(float(v))
            except (TypeError, ValueError):
                got.append(float("nan"))
        if not close(got, r["freq"]):
            out.append(V("values", sig("values", tag, "text"), case, lst(r["freq"]), values))
    return out, f"{tag}:ok"


def eval_ascii_map(case):
    import xtermcolor

    out = []
    h = build(case["hist"])
    r = ref2(h)
    before = snap(h)
    kw = {}
    if case.get("cmap"):
        kw["cmap"] = case["cmap"]
    buf = io.StringIO()
    orig = xtermcolor.colorize

    def fake(string, rgb=None, ansi=None, bg=None, ansi_bg=None, fd=1):
        try:
            code = int(rgb)
        except Exception:  # noqa: BLE001
            code = -1
        return f"\x01{code}\x02"

    xtermcolor.colorize = fake
    try:
        with contextlib.redirect_stdout(buf):
            res = invoke(h, "ascii", "map", kw, case.get("path", "plot"))
    finally:
        xtermcolor.colorize = orig
    tag = "ascii|map"
    check_unchanged(before, h, tag, case, out)
    freq = r["freq"]
    open_reasons = []
    if freq.max() <= 0 or freq.min() < 0:
        open_reasons.append("empty-or-negative")
    if case.get("cmap") not in (None, "Greys", "Greys_r"):
        open_reasons.append("unsupported-cmap")
    if not res.ok:
        if open_reasons:
            return out, f"{tag}:refused:{open_reasons[0]}"
        out.append(V("must_succeed", sig("must_succeed", tag, exc_name(res)), case, "a printed map", res.describe()))
        return out, f"{tag}:raise:{exc_name(res)}"
    if open_reasons:
        return out, f"{tag}:ok:open"
    lines = buf.getvalue().split("\n")
    frame = [k for k, ln in enumerate(lines) if re.match(r"^\+-*\+$", ln)]
    rows = []
    if len(frame) >= 2:
        for ln in lines[frame[0] + 1:frame[1]]:
            m = re.match(r"^\|((?:\x01-?\d+\x02)*)\|", ln)
            rows.append(None if not m else [int(c) for c in re.findall(r"\x01(-?\d+)\x02", m.group(1))])
    n0, n1 = r["n0"], r["n1"]
    if len(frame) < 2 or not rows or any(rw is None for rw in rows) or len({len(rw) for rw in rows}) != 1:
        out.append(V("cells", sig("cells", tag, "format"), case, "a framed grid of cells", lines[:12]))
        return out, f"{tag}:ok"
    R, C = len(rows), len(rows[0])
    if R * C != n0 * n1:
        out.append(V("cells", sig("cells", tag, "count"), case, n0 * n1, R * C))
        return out, f"{tag}:ok"

    def grey(code):
        return (((code >> 16) & 255) + ((code >> 8) & 255) + (code & 255)) / 3.0

    # the arrows printed by the plot label the horizontal direction with axis 0 and the vertical one with axis 1
    if (R, C) != (n1, n0):
        how = "transposed" if (R, C) == (n0, n1) else "other"
        out.append(V("cells", sig("cells", tag, "layout", how), case, {"rows": n1, "columns": n0}, {"rows": R, "columns": C}))
        return out, f"{tag}:ok"
    vals, lums = [], []
    for i in range(n0):
        for j in range(n1):
            vals.append(float(freq[i, j]))
            lums.append(grey(rows[R - 1 - j][i]))
    probs = mono_problems(vals, lums)
    if probs:
        tv, tl = [], []
        for i in range(n0):
            for j in range(n1):
                if R == n0 and C == n1:
                    tv.append(float(freq[i, j]))
                    tl.append(grey(rows[R - 1 - i][j]))
        how = "transposed" if tv and not mono_problems(tv, tl) else "other"
        out.append(V("cells", sig("cells", tag, "layout", how), case, "cell (column i, row j from the bottom) coloured by bin (i, j)", {"grid_top_to_bottom": [[grey(c) for c in rw] for rw in rows], "frequencies": freq.tolist()}))
    return out, f"{tag}:ok"


# ---------------------------------------------------------------------------------------------
# refusals
# ---------------------------------------------------------------------------------------------

BACKEND_KINDS = {
    "matplotlib": {1: ["bar", "scatter", "line", "fill", "step"], 2: ["map", "image", "polar_map", "bar3d", "globe_map", "cylinder_map", "surface_map"]},
    "plotly": {1: ["bar", "scatter", "line"], 2: ["map"]},
    "ascii": {1: ["hbar"], 2: ["map"]},
}
DIM_HIST = {1: "irr_float", 2: "irr", 3: "h3"}
UNKNOWN_KINDS = ["nonsense", "", "Bar", "_get_axes", "pair_bars", "register", "hbar3"]
UNKNOWN_BACKENDS = ["nonsense", "bokeh", "vega", "Matplotlib", "mpl", "ascii "]


def refusal_cases():
    cases = []
    for path in PATHS:
        for backend, by_dim in BACKEND_KINDS.items():
            for dim, kinds in by_dim.items():
                for kind in kinds:
                    for hd in (1, 2, 3):
                        if hd != dim:
                            cases.append({"fam": "refuse", "what": "dimension", "backend": backend, "kind": kind, "hist": DIM_HIST[hd], "hdim": hd, "path": path})
            for kind in UNKNOWN_KINDS:
                if path == "attr" and (kind == "" or not kind.isidentifier()):
                    continue
                for hd in (1, 2):
                    cases.append({"fam": "refuse", "what": "kind", "backend": backend, "kind": kind, "hist": DIM_HIST[hd], "hdim": hd, "path": path})
            cases.append({"fam": "refuse", "what": "no_kind_for_dimension", "backend": backend, "kind": None, "hist": "h3", "hdim": 3, "path": path if path != "attr" else "plot"})
        for backend in UNKNOWN_BACKENDS:
            for kind in ("bar", None, "map"):
                if path == "attr" and kind is None:
                    continue
                cases.append({"fam": "refuse", "what": "backend", "backend": backend, "kind": kind, "hist": DIM_HIST[2 if kind == "map" else 1], "hdim": 2 if kind == "map" else 1, "path": path})
    for backend in UNKNOWN_BACKENDS:
        cases.append({"fam": "refuse", "what": "set_default", "backend": backend})
    # a 1D collection is not a 2D histogram
    for kind in ("map", "image"):
        cases.append({"fam": "refuse", "what": "dimension", "backend": "matplotlib", "kind": kind, "hist": "coll_irr", "hdim": 1, "path": "plot"})
    # de-duplicate (the no-kind case is generated once per path)
    seen, uniq = set(), []
    for c in cases:
        k = repr(sorted(c.items(), key=lambda kv: kv[0]))
        if k not in seen:
            seen.add(k)
            uniq.append(c)
    return uniq


def eval_refuse(case):
    from physt import plotting

    out = []
    what = case["what"]
    if what == "set_default":
        before = plotting.get_default_backend()
        res = call(plotting.set_default_backend, case["backend"])
        after = plotting.get_default_backend()
        if res.ok:
            plotting.set_default_backend(before)
            out.append(V("must_raise", sig("must_raise", "set_default_backend"), case, "refused", res.describe()))
        elif after != before:
            plotting.set_default_backend(before)
            out.append(V("default_backend_changed", sig("default_backend_changed"), case, before, after))
        return out, "refuse:set_default:" + ("ok" if res.ok else exc_name(res))
    h = build(case["hist"])
    members = list(h) if case["hist"].startswith("coll") else [h]
    befores = [snap(m) for m in members]
    kw = {}
    backend, kind = case["backend"], case["kind"]
    figs_before = fignums()
    if backend == "matplotlib" and kind in BACKEND_KINDS["matplotlib"][1] + ["map", "image"]:
        kw["ax"] = get_ax()
        figs_before = fignums()
    buf = io.StringIO()
    with contextlib.redirect_stdout(buf):
        res = invoke(h, backend, kind, kw, case["path"])
    close_new_figures(figs_before)
    for b, m in zip(befores, members):
        check_unchanged(b, m, f"refuse|{what}", case, out)
    if res.ok:
        coord = f"{backend}|hist{case['hdim']}d" if what in ("dimension", "no_kind_for_dimension") else (backend if what == "backend" else f"{backend}|{'private' if str(kind).startswith('_') or kind in ('pair_bars', 'register') else 'name'}")
        out.append(V("must_raise", sig("must_raise", what, coord), case, "refused (any exception)", "returned " + type(res.value).__name__ + ("; printed " + repr(buf.getvalue()[:120]) if buf.getvalue() else "")))
    return out, f"refuse:{what}:" + ("ok" if res.ok else exc_name(res))


# ---------------------------------------------------------------------------------------------
# time ticks
# ---------------------------------------------------------------------------------------------

UNIT = {"sec": 1, "min": 60, "hour": 3600, "day": 86400}

# spelling -> (unit, multiple); tuples are written as JSON lists
LEVELS = [
    ("s", "sec", 1), ("sec", "sec", 1), ("secs", "sec", 1), ("1s", "sec", 1), ("5s", "sec", 5), ("30sec", "sec", 30), ("0.5s", "sec", 0.5),
    ("2.5secs", "sec", 2.5), ("10secs", "sec", 10),
    ("m", "min", 1), ("min", "min", 1), ("mins", "min", 1), ("5m", "min", 5), ("15min", "min", 15), ("90mins", "min", 90),
    ("h", "hour", 1), ("hour", "hour", 1), ("2hours", "hour", 2), ("6h", "hour", 6), ("12hour", "hour", 12),
    ("d", "day", 1), ("day", "day", 1), ("days", "day", 1), ("2d", "day", 2), ("0.5day", "day", 0.5), ("1.5days", "day", 1.5),
    (["sec", 10], "sec", 10), (["min", 2], "min", 2), (["hour", 12], "hour", 12), (["day", 1], "day", 1), (["sec", 0.25], "sec", 0.25),
]
SPECIAL_LEVELS = ["center", "centers", "edge", "edges"]
GRID_QUICK = [-7200, -3600, -90, -60, -59.5, -1, -0.5, 0, 0.25, 0.5, 1, 1.5, 59, 60, 61, 90, 119.5, 120, 3599, 3600, 3601, 5400, 86399, 86400, 86401, 129600, 172800, 200000]
GRID_MORE = [-172800, -86400.5, -10, 7, 29.5, 30, 300, 601, 7200, 43200, 100000, 259200, 1000000]
MAX_TICKS = 3000


def level_arg(level):
    return tuple(level) if isinstance(level, list) else level


def multiples(width, lo, hi):
    w, a, b = Fraction(width), Fraction(lo), Fraction(hi)
    k0, k1 = math.ceil(a / w), math.floor(b / w)
    return [float(k * w) for k in range(k0, k1 + 1)]


def expected_time_ticks(level, lo, hi, r):
    """Expected tick positions for a level spelling of the alphabet (None: open)."""
    if level in SPECIAL_LEVELS:
        return r["centre"] if level.startswith("center") else None
    if level is None:
        from physt.plotting.common import TimeTickHandler

        res = call(TimeTickHandler.deduce_level, lo, hi)
        if not res.ok:
            return None
        name, mult = res.value
        return np.array(multiples(mult * UNIT[name], lo, hi))
    for sp, unit, mult in LEVELS:
        if sp == level:
            return np.array(multiples(mult * UNIT[unit], lo, hi))
    return None


def eval_tick(case):
    from physt.plotting.common import TimeTickHandler

    out = []
    level = case["level"]
    lo, hi = case["min"], case["max"]
    h = build(case.get("hist", "secs"))
    r = ref1(h)
    before = snap(h)
    lname = "tuple" if isinstance(level, list) else ("none" if level is None else ("special" if level in SPECIAL_LEVELS else "string"))
    made = call(TimeTickHandler, level_arg(level))
    if not made.ok:
        out.append(V("must_succeed", sig("must_succeed", "tick_level", lname, exc_name(made)), case, "a handler", made.describe()))
        return out, "tick:level-refused"
    handler = made.value
    res = call(handler, h, lo, hi)
    check_unchanged(before, h, "tick", case, out)
    if level in ("edge", "edges") and r["gapped"]:
        return out, "tick:edge-gapped:" + ("ok" if res.ok else "refused")
    if not res.ok:
        out.append(V("must_succeed", sig("must_succeed", "tick_call", lname, exc_name(res)), case, "(ticks, labels)", res.describe()))
        return out, "tick:raise"
    try:
        ticks, labels = res.value
        ticks = [float(t) for t in ticks]
        labels = list(labels)
    except Exception as e:  # noqa: BLE001
        out.append(V("ticks", sig("ticks", "handler", "shape"), case, "(ticks, labels)", repr(res.value)[:200]))
        return out, "tick:shape"
    if len(labels) != len(ticks) or not all(isinstance(s, str) for s in labels):
        out.append(V("ticks", sig("ticks", "handler", "labels", lname), case, f"{len(ticks)} labels", labels[:20]))
    if level in ("edge", "edges"):
        in_edges = all(np.any(np.isclose(x, r["edges"], rtol=RTOL, atol=1e-12)) for x in ticks)
        has_left = all(np.any(np.isclose(x, ticks, rtol=RTOL, atol=1e-12)) for x in r["left"]) if ticks else False
        if not (in_edges and has_left):
            out.append(V("ticks", sig("ticks", "handler", "edge"), case, lst(r["edges"]), ticks))
        return out, "tick:edge"
    if level in ("center", "centers"):
        if not close(ticks, r["centre"]):
            out.append(V("ticks", sig("ticks", "handler", "center"), case, lst(r["centre"]), ticks))
        return out, "tick:center"
    want = expected_time_ticks(level, lo, hi, r)
    if want is None:
        out.append(V("must_succeed", sig("must_succeed", "deduce_level"), case, "a unit", "deduce_level raised"))
        return out, "tick:deduce-raise"
    if not close(ticks, want, rtol=1e-12):
        unit = "deduced" if level is None else "explicit"
        side = "count" if len(ticks) != len(want) else "values"
        out.append(V("ticks", sig("ticks", "handler", "multiples", unit, side), case, lst(want)[:40], ticks[:40]))
    return out, f"tick:{lname}:" + ("empty" if len(want) == 0 else "some")


def tick_cases(tier):
    grid = sorted(GRID_QUICK + (GRID_MORE if tier == "thorough" else []))
    levels = [None] + [lv for lv, _, _ in LEVELS]
    cases = []
    for level in levels:
        width = None
        for sp, unit, mult in LEVELS:
            if sp == level:
                width = mult * UNIT[unit]
        for a in grid:
            for b in grid:
                if b < a or (level is None and b == a):
                    continue
                if width is not None and (b - a) / width > MAX_TICKS:
                    continue
                if level is None and (b - a) > 0 and False:
                    continue
                cases.append({"fam": "tick", "level": level, "min": a, "max": b})
    for level in SPECIAL_LEVELS:
        for hist in ("secs", "irr_float", "gapped", "single"):
            for a, b in ((0, 150), (-5, 5), (10, 10)):
                cases.append({"fam": "tick", "level": level, "min": a, "max": b, "hist": hist})
    return cases


# ---------------------------------------------------------------------------------------------
# dispatch, units
# ---------------------------------------------------------------------------------------------

EVAL = {
    "mpl1d": eval_mpl1d,
    "mpl2d": eval_mpl2d,
    "plotly1d": eval_plotly1d,
    "plotly_map": eval_plotly_map,
    "ascii_hbar": eval_ascii_hbar,
    "ascii_map": eval_ascii_map,
    "refuse": eval_refuse,
    "tick": eval_tick,
}


def evaluate(case):
    return EVAL[case["fam"]](case)


def replay(case):
    return evaluate(case)[0]


def bools(n):
    return list(itertools.product((False, True), repeat=n))


TICK_OVERRIDE_QUICK = [(None, False), ("center", True), ("edge", False), (None, True)]
TICK_OVERRIDE_FULL = [(t, o) for t in (None, "center", "edge") for o in (False, True)]


def cases_mpl1d(unit, tier):
    thorough = tier == "thorough"
    combos = TICK_OVERRIDE_FULL if thorough else TICK_OVERRIDE_QUICK
    k = 0
    for density, cumulative, errors, show_values in bools(4):
        for ticks, override in combos:
            for path in (PATHS if thorough else [PATHS[k % 3]]):
                yield {"fam": "mpl1d", "hist": unit["hist"], "kind": unit["kind"], "density": density, "cumulative": cumulative, "errors": errors,
                       "show_values": show_values, "ticks": ticks, "override": override, "path": path}
            k += 1


def cases_mpl1d_extras(unit, tier):
    thorough = tier == "thorough"
    for kind in KINDS1:
        for ex in EXTRAS1:
            for density in ((False, True) if thorough else (False,)):
                for ticks in ((None, "center") if ex.startswith("th_") and thorough else (None,)):
                    yield {"fam": "mpl1d", "hist": unit["hist"], "kind": kind, "density": density, "cumulative": False, "errors": False, "show_values": False,
                           "ticks": ticks, "override": False, "path": "plot", "extra": ex}


def cases_mpl2d(unit, tier):
    thorough = tier == "thorough"
    kind = unit["kind"]
    k = 0
    zs = (True, False) if kind != "image" else (True,)
    vs = (False, True) if kind != "image" else (False,)
    for density in (False, True):
        for show_zero in zs:
            for show_values in vs:
                for norm in (None, "log"):
                    for override in (False, True):
                        for colorbar in ((False, True) if (thorough or kind == "image") else (k % 8 == 3,)):
                            yield {"fam": "mpl2d", "hist": unit["hist"], "kind": kind, "density": density, "show_zero": show_zero, "show_values": show_values,
                                   "norm": norm, "override": override, "colorbar": colorbar, "path": PATHS[k % 3]}
                        k += 1
    if thorough or unit["hist"] in ("irr", "reg"):
        for ex, spec in EXTRAS2.items():
            if kind not in spec.get("kinds", KINDS2):
                continue
            for density in (False, True):
                for norm in ((None, "log") if thorough else (None,)):
                    yield {"fam": "mpl2d", "hist": unit["hist"], "kind": kind, "density": density, "show_zero": True, "show_values": False, "norm": norm,
                           "override": False, "colorbar": False, "path": "plot", "extra": ex}


def cases_plotly(unit, tier):
    hists = unit["hists"]
    for hist in hists:
        for kind in ("bar", "line", "scatter"):
            k = 0
            for density, cumulative in bools(2):
                for ticks in (None, "center", "edge"):
                    yield {"fam": "plotly1d", "hist": hist, "kind": kind, "density": density, "cumulative": cumulative, "ticks": ticks, "path": PATHS[k % 3]}
                    k += 1
            for ex in PLOTLY_EXTRAS:
                for density in (False, True):
                    yield {"fam": "plotly1d", "hist": hist, "kind": kind, "density": density, "cumulative": False, "ticks": None, "path": "plot", "extra": ex}


def cases_plotly_map(unit, tier):
    for hist in (H2_ALL if tier == "thorough" else H2_QUICK):
        for density in (False, True):
            for path in PATHS:
                yield {"fam": "plotly_map", "hist": hist, "density": density, "path": path}


def cases_ascii(unit, tier):
    for hist in (H1_ALL if tier == "thorough" else H1_QUICK + H1_AUX):
        for width in (None, 80, 40, 7, 1):
            for show_values in (False, True):
                for path in PATHS:
                    yield {"fam": "ascii_hbar", "hist": hist, "width": width, "show_values": show_values, "path": path}
        for opt in ("density", "cumulative"):
            yield {"fam": "ascii_hbar", "hist": hist, "width": None, "show_values": False, "path": "plot", opt: True}
    for hist in (H2_ALL if tier == "thorough" else H2_QUICK):
        for cmap in (None, "Greys", "Greys_r", "viridis"):
            for path in PATHS:
                yield {"fam": "ascii_map", "hist": hist, "cmap": cmap, "path": path}


def cases_collections(unit, tier):
    for hist in (unit["hist"],):
        for kind in (unit["kind"],):
            for density, cumulative, errors, show_values in bools(4):
                if (errors or show_values) and kind in ("fill",):
                    continue
                for override in (False, True):
                    yield {"fam": "mpl1d", "hist": hist, "kind": kind, "density": density, "cumulative": cumulative, "errors": errors, "show_values": show_values,
                           "ticks": None, "override": override, "path": "plot"}


def cases_noax(unit, tier):
    for hist in ("irr_float", "reg_int"):
        for kind in KINDS1:
            for density in (False, True):
                for path in PATHS + ["default"]:
                    yield {"fam": "mpl1d", "hist": hist, "kind": kind, "density": density, "cumulative": False, "errors": False, "show_values": False,
                           "ticks": None, "override": False, "path": path, "noax": True}


def cases_refuse(unit, tier):
    return iter(refusal_cases())


def cases_tick(unit, tier):
    cs = tick_cases(tier)
    n, i = unit["of"], unit["part"]
    return iter(cs[i::n])


GEN = {
    "mpl1d": cases_mpl1d,
    "mpl1d_extras": cases_mpl1d_extras,
    "mpl2d": cases_mpl2d,
    "plotly": cases_plotly,
    "plotly_map": cases_plotly_map,
    "ascii": cases_ascii,
    "collections": cases_collections,
    "noax": cases_noax,
    "refuse": cases_refuse,
    "tick": cases_tick,
}


def units(tier, seed):
    thorough = tier == "thorough"
    h1s = H1_ALL if thorough else H1_QUICK
    h1x = H1_ALL if thorough else H1_QUICK + H1_AUX
    us = [{"gen": "refuse"}, {"gen": "ascii"}, {"gen": "plotly_map"}]
    for i in range(4):
        us.append({"gen": "tick", "part": i, "of": 4})
    for i in range(0, len(h1x), 3):
        us.append({"gen": "plotly", "hists": h1x[i:i + 3]})
    us.append({"gen": "plotly", "hists": ["coll_irr", "coll_one"]})
    # the long units go next so that they do not form the tail of the schedule
    for hist in (h1s if thorough else ["secs", "irr_float"]):
        us.append({"gen": "mpl1d_extras", "hist": hist})
    us.append({"gen": "noax"})
    for hist in (H2_ALL if thorough else H2_QUICK):
        for kind in KINDS2:
            us.append({"gen": "mpl2d", "hist": hist, "kind": kind})
    for hist in ("coll_irr", "coll_one"):
        for kind in KINDS1:
            us.append({"gen": "collections", "hist": hist, "kind": kind})
    for hist in h1s:
        for kind in KINDS1:
            us.append({"gen": "mpl1d", "hist": hist, "kind": kind})
    return us


def nontrivial(case):
    fam = case["fam"]
    if fam in ("refuse", "tick"):
        return True
    if any(case.get(f) for f in ("density", "cumulative", "errors", "show_values", "ticks", "override", "extra", "norm", "cmap", "width", "colorbar")):
        return True
    if case.get("show_zero") is False:
        return True
    return case.get("hist") not in ("reg_sq", "single", "single2")


def run_unit(unit, ctx):
    p = Partial()
    gen = GEN[unit["gen"]]
    n = 0
    for case in gen(unit, ctx.tier):
        if ctx.expired():
            p.capped = True
            p.notes.append(f"unit {unit}: stopped after {n} cases")
            break
        vs, label = evaluate(case)
        p.ev(nontrivial(case))
        p.count("cases_" + case["fam"])
        if case["fam"] in ("mpl1d", "mpl2d", "plotly1d", "plotly_map", "ascii_hbar", "ascii_map") and ":ok" in label:
            p.count("plots_read_back")
        p.outcome(label[:60])
        p.extend(vs)
        if n == 7:
            p.sample(case)
        n += 1
    return p
