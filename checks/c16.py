"""C16 - densities, bin geometry and cumulative values are consistent.

Engine E1 (product enumerator).  A case is one histogram object built on the real code (class x per-axis bin
sets x way of giving the bins x contents) together with everything derived from it: the slices / adjacent-pair
merges along every axis and every offset, all projections, the transpose.  The oracle recomputes the measure of
every bin from the bins the object reports, with `math` / exact rationals and the formula of the property statement.
"""
from __future__ import annotations

import itertools
import math
import re
from fractions import Fraction
from functools import lru_cache

import numpy as np

from mc.core import Partial, V
from mc.outcome import call

ID = "C16"
LEVEL = "exploration"
RULE = (
    "Every histogram class (Histogram1D, Histogram2D, HistogramND d=3,4, Radial, Azimuthal, Polar, SphericalSurface, Spherical, "
    "CylindricalSurface, Cylindrical, plus the bin geometry of HistogramCollection) x the full product of per-axis bin sets "
    "(regular, irregular, negative, single bin, gapped, gap below the consecutiveness tolerance, tiny, 1e9-offset, decimal, "
    "fixed-width / exponential binning objects; radii from 0 / rings; full, half, partial, irregular and gapped angular ranges) x "
    "the way the bins are given (StaticBinning, NumpyBinning, raw arrays, binning objects) x contents (2^i, 2^-(i+1), zeros, ones, "
    "thirds, mixed magnitudes). For the object, for its slice [1:] and its merge_bins(2) (offsets 0 and 1) and merge_bins(3) results along every axis, "
    "for every projection and the transpose: bin_sizes == the statement's formula evaluated from the reported bins with exact "
    "rationals / math; densities == frequencies / bin_sizes and densities * bin_sizes == frequencies (ulp level); merged measure == "
    "sum of the two parts; total_width / total_size == sum == measure of the covered region (closed forms pi R^2, 4 pi, 4/3 pi R^3, "
    "pi R^2 H, 2 pi H, 2 pi for full ranges); cumulative_frequencies == running sum ending at total; and (for the first contents "
    "of every bin combination, the accessors do not read the contents) left / right edges, centres, widths, min / max edge, edges, "
    "per-axis forms by index and by name and mesh forms == bins. Also: the facade functions with integer angular bin counts x "
    "ranges, and all op sequences up to a depth over {fill x3, fill_n, merge_bins inplace} on adaptive 1D / 2D histograms with the "
    "complete oracle after every step (bins change under already computed geometry). A case is non-trivial when the class is a "
    "transformed one or some axis is not a uniform grid of exactly representable edges."
)
ASSUMPTIONS = [
    "the bins reported by the object (h.bins) are the ground truth for its geometry; whether they are the requested ones is C01/C02",
    "measure tolerance is 1e-12 relative to the sum of the magnitudes of the terms of the formula (== rtol 1e-12 for well conditioned bins)",
    "radial bins are >= 0, theta bins lie in [0, pi], phi bins in [0, 2 pi]; every bin has left < right; no histogram with zero bins",
    "`edges` / get_bin_edges (numpy format) are only demanded when every axis is exactly consecutive; merging over a gap may be refused",
    "whether a facade / projection / fill succeeds is judged by C15 / C09 / C03 - here a refusal only shrinks the explored set (recorded "
    "as an outcome label); the direct constructor on valid bins, slicing and merging adjacent bins must succeed",
    "CylindricalSurfaceHistogram is built with explicit axis_names (its default names make the constructor refuse, see C15)",
]
BOUNDS = {
    "quick": "1D classes: 8-15 bin sets; 2D 15x15; 3D 8^3; 4D 3^4; polar 10x8, sphere surface 7x8, spherical 10x6x6, cylinder surface 8x5, "
    "cylindrical 10x6x5; x up to 3 ways of giving bins (2 in plain 3D / 4D) x 6 contents; all slices / merges (pairs at offset 0,1 and triples, per axis), projections, "
    "transposes; 192 facade calls; histories of depth <= 3",
    "thorough": "3D 15^3, 4D 4^4, larger angular sets in 3D classes, right-open static binnings, int16 / float32 / float16 contents, histories of depth <= 4",
}
BUDGET = {"quick": 240, "thorough": 3000}

PI = math.pi
TWO_PI = 2 * math.pi
EPS = 2.0 ** -52
RT = 1e-12


def _edges(e):
    return [(float(e[i]), float(e[i + 1])) for i in range(len(e) - 1)]


def _lin(a, b, n):
    # the same arithmetic the facades use for integer bin counts
    return [float(x) for x in np.linspace(a, b, n + 1)]


# name -> spec.  kind "pairs": explicit bins; "fixed" / "exp": binning objects
BINSETS = {
    # linear axes
    "regular": {"pairs": _edges([0, 1, 2, 3]), "plain": True},
    "irregular": {"pairs": _edges([0, 1, 2.5, 4])},
    "negative": {"pairs": _edges([-2, -1, 0.5])},
    "single": {"pairs": _edges([0, 2]), "plain": True},
    "gapped": {"pairs": [(0.0, 1.0), (2.0, 3.0)]},
    "gapped_irregular": {"pairs": [(0.0, 1.0), (1.0, 2.0), (3.0, 4.0), (4.0, 6.0)]},
    "tiny": {"pairs": _edges([1e-7, 2e-7, 4e-7])},
    "offset": {"pairs": _edges([1e9, 1e9 + 1, 1e9 + 2])},
    "tinygap": {"pairs": [(0.0, 1.0), (1.0 + 2.0 ** -20, 2.0)]},
    "decimal": {"pairs": _edges([0.1, 0.3, 0.7, 1.1, 1.2])},
    "five": {"pairs": _edges([0, 0.5, 1.5, 3, 5, 7.5])},
    "fw_half": {"fixed": {"bin_width": 0.5, "bin_count": 3, "bin_times_min": -1}, "plain": True},
    "fw_decimal": {"fixed": {"bin_width": 0.1, "bin_count": 4, "bin_times_min": 1}},
    "fw_shift": {"fixed": {"bin_width": 1.0, "bin_count": 3, "min": 0.25}},
    "exp": {"exp": {"log_min": -1.0, "log_width": 0.5, "bin_count": 3}},
    # radial axes
    "r_unit": {"pairs": _edges([0, 1])},
    "r_regular": {"pairs": _edges([0, 1, 2, 3])},
    "r_irregular": {"pairs": _edges([0, 0.5, 2, 3.5])},
    "r_ring": {"pairs": _edges([1, 2.5, 4])},
    "r_gapped": {"pairs": [(0.0, 1.0), (2.0, 3.0)]},
    "r_tiny": {"pairs": _edges([0, 1e-7, 3e-7])},
    "r_decimal": {"pairs": _edges([0, 0.1, 0.3, 0.7])},
    "r_five": {"pairs": _edges([0, 1, 1.5, 2.5, 4, 7])},
    "r_exp": {"exp": {"log_min": -1.0, "log_width": 0.5, "bin_count": 3}},
    "r_fixed": {"fixed": {"bin_width": 0.5, "bin_count": 4, "bin_times_min": 0}},
    # azimuthal axes
    "phi_full4": {"pairs": _edges(_lin(0, 2 * np.pi, 4))},
    "phi_full_irr": {"pairs": _edges([0, 1, PI, 5, TWO_PI])},
    "phi_half": {"pairs": _edges([0, PI / 2, PI])},
    "phi_partial": {"pairs": _edges([0.5, 1, 2.5])},
    "phi_one_full": {"pairs": _edges([0, TWO_PI])},
    "phi_gapped": {"pairs": [(0.0, 1.0), (2.0, 3.0)]},
    "phi_full16": {"pairs": _edges(_lin(0, 2 * np.pi, 16))},
    "phi_full5": {"pairs": _edges(_lin(0, 2 * np.pi, 5))},
    # polar-angle axes
    "th_full3": {"pairs": _edges(_lin(0, np.pi, 3))},
    "th_full_irr": {"pairs": _edges([0, 0.5, 2, PI])},
    "th_upper": {"pairs": _edges([0, PI / 4, PI / 2])},
    "th_partial": {"pairs": _edges([0.3, 1, 1.2, 2])},
    "th_one_full": {"pairs": _edges([0, PI])},
    "th_gapped": {"pairs": [(0.0, 1.0), (2.0, 3.0)]},
    "th_full16": {"pairs": _edges(_lin(0, np.pi, 16))},
    # z axes
    "z_regular": {"pairs": _edges([-1, 0, 1]), "plain": True},
    "z_irregular": {"pairs": _edges([-2, -0.5, 0, 3])},
    "z_single": {"pairs": _edges([0, 2]), "plain": True},
    "z_gapped": {"pairs": [(-1.0, 0.0), (1.0, 3.0)]},
    "z_offset": {"pairs": _edges([1e9, 1e9 + 1, 1e9 + 2])},
}

LIN = ["regular", "irregular", "negative", "single", "gapped", "gapped_irregular", "tiny", "offset", "tinygap", "decimal", "five",
       "fw_half", "fw_decimal", "fw_shift", "exp"]
LIN3 = ["irregular", "single", "gapped_irregular", "offset", "decimal", "fw_decimal", "exp", "five"]
LIN4Q = ["irregular", "single", "gapped"]
LIN4 = ["irregular", "single", "gapped", "fw_shift"]
RAD = ["r_unit", "r_regular", "r_irregular", "r_ring", "r_gapped", "r_tiny", "r_decimal", "r_exp", "r_fixed", "r_five"]
PHI = ["phi_full4", "phi_full_irr", "phi_half", "phi_partial", "phi_one_full", "phi_gapped", "phi_full5"]
PHI16 = PHI + ["phi_full16"]
TH = ["th_full3", "th_full_irr", "th_upper", "th_partial", "th_one_full", "th_gapped"]
TH16 = TH + ["th_full16"]
ZS = ["z_regular", "z_irregular", "z_single", "z_gapped", "z_offset"]

# class -> (per-axis measure roles, per-axis bin-set lists quick, thorough, explicit axis names or None)
CLASSES = {
    "Histogram1D": (("lin",), [LIN], [LIN], None),
    "HistogramCollection": (("lin",), [LIN], [LIN], None),
    "AzimuthalHistogram": (("lin",), [PHI16], [PHI16], None),
    "RadialHistogram": (("disc",), [RAD], [RAD], None),
    "Histogram2D": (("lin", "lin"), [LIN, LIN], [LIN, LIN], None),
    "HistogramND": (("lin", "lin", "lin"), [LIN3, LIN3, LIN3], [LIN, LIN, LIN], None),
    "HistogramND4": (("lin",) * 4, [LIN4Q] * 4, [LIN4] * 4, None),
    "PolarHistogram": (("r2", "lin"), [RAD, PHI16], [RAD, PHI16], None),
    "SphericalSurfaceHistogram": (("cos", "lin"), [TH16, PHI16], [TH16, PHI16], None),
    "SphericalHistogram": (("r3", "cos", "lin"), [RAD, TH, PHI[:6]], [RAD, TH16, PHI16], None),
    "CylindricalSurfaceHistogram": (("lin", "lin"), [PHI16, ZS], [PHI16, ZS], ["phi", "z"]),
    "CylindricalHistogram": (("r2", "lin", "lin"), [RAD, PHI[:6], ZS], [RAD, PHI16, ZS], None),
}
ROLES = {k: v[0] for k, v in CLASSES.items()}
TRANSFORMED = {"AzimuthalHistogram", "RadialHistogram", "PolarHistogram", "SphericalSurfaceHistogram", "SphericalHistogram",
               "CylindricalSurfaceHistogram", "CylindricalHistogram"}
ONE_D = {"Histogram1D", "HistogramCollection", "AzimuthalHistogram", "RadialHistogram"}

GEOMETRY_CONTENT = "int"
# (offset obtained by slicing first, number of adjacent bins joined)
MERGES = [(0, 2), (1, 2), (0, 3)]
CONTENTS = ["int", "float", "zero", "unit", "thirds", "mixed"]
CONTENTS_THOROUGH = CONTENTS + ["int16", "f32", "f16"]
WRAPS = ["static", "numpy", "array"]
WRAPS_THOROUGH = WRAPS + ["static_open"]


def exc_sig(e):
    msg = re.sub(r"[^A-Za-z ]+", "", str(e))[:40].strip()
    return f"{type(e).__name__}:{msg}"


# ---------------------------------------------------------------------------------------------
# construction
# ---------------------------------------------------------------------------------------------


def is_consec(pairs):
    return all(pairs[i][1] == pairs[i + 1][0] for i in range(len(pairs) - 1))


def effective_wrap(binset, wrap):
    spec = BINSETS[binset]
    if "fixed" in spec:
        return "fixed"
    if "exp" in spec:
        return "exp"
    if wrap == "numpy" and not is_consec(spec["pairs"]):
        return "static"
    return wrap


def build_axis(binset, wrap):
    from physt.binnings import ExponentialBinning, FixedWidthBinning, NumpyBinning, StaticBinning

    spec = BINSETS[binset]
    eff = effective_wrap(binset, wrap)
    if eff == "fixed":
        return FixedWidthBinning(**spec["fixed"])
    if eff == "exp":
        return ExponentialBinning(**spec["exp"])
    pairs = spec["pairs"]
    if eff == "static":
        return StaticBinning(np.array(pairs, dtype=float))
    if eff == "static_open":
        return StaticBinning(np.array(pairs, dtype=float), includes_right_edge=False)
    if eff == "numpy":
        return NumpyBinning(np.array([pairs[0][0]] + [p[1] for p in pairs], dtype=float))
    if eff == "array":
        if is_consec(pairs):
            return np.array([pairs[0][0]] + [p[1] for p in pairs], dtype=float)
        return np.array(pairs, dtype=float)
    raise ValueError(eff)


def axis_count(binset):
    spec = BINSETS[binset]
    if "pairs" in spec:
        return len(spec["pairs"])
    return (spec.get("fixed") or spec.get("exp"))["bin_count"]


def make_contents(mode, shape):
    n = int(np.prod(shape))
    idx = np.arange(n)
    if mode == "int":
        # distinct powers of two; for many bins the exponents repeat so that no marginal sum leaves int64
        a = np.array([2 ** (i % (62 if n <= 62 else 40)) for i in range(n)], dtype=np.int64)
    elif mode == "float":
        a = np.array([2.0 ** -((i % 40) + 1) for i in range(n)], dtype=np.float64)
    elif mode == "zero":
        a = np.zeros(n, dtype=np.int64)
    elif mode == "unit":
        a = np.ones(n, dtype=np.int64)
    elif mode == "thirds":
        a = np.array([(i + 1) / 3.0 for i in range(n)], dtype=np.float64)
    elif mode == "mixed":
        a = np.array([0.0 if i % 3 == 1 else (i + 1) * 0.1 + (1e6 if i % 4 == 0 else 0.0) for i in range(n)], dtype=np.float64)
    elif mode == "int16":
        a = np.array([2 ** (i % 10) for i in range(n)], dtype=np.int16)
    elif mode == "f32":
        a = np.array([(i + 1) / 3.0 for i in range(n)], dtype=np.float32)
    elif mode == "f16":
        a = np.array([2.0 ** -((i % 10) + 1) for i in range(n)], dtype=np.float16)
    else:
        raise ValueError(mode)
    del idx
    return a.reshape(shape)


def exact_summable(mode):
    return mode in ("int", "float", "zero", "unit", "int16", "f16")


def get_class(name):
    from physt import special_histograms as S
    from physt.histogram1d import Histogram1D
    from physt.histogram_collection import HistogramCollection
    from physt.histogram_nd import Histogram2D, HistogramND

    if name == "HistogramND4":
        return HistogramND
    return {
        "Histogram1D": Histogram1D, "HistogramCollection": HistogramCollection, "Histogram2D": Histogram2D, "HistogramND": HistogramND,
        "AzimuthalHistogram": S.AzimuthalHistogram, "RadialHistogram": S.RadialHistogram, "PolarHistogram": S.PolarHistogram,
        "SphericalSurfaceHistogram": S.SphericalSurfaceHistogram, "SphericalHistogram": S.SphericalHistogram,
        "CylindricalSurfaceHistogram": S.CylindricalSurfaceHistogram, "CylindricalHistogram": S.CylindricalHistogram,
    }[name]


def build(case):
    """-> (Out, labels).  The direct constructor on explicit bins and contents."""
    from physt.histogram1d import Histogram1D

    cname = case["cls"]
    klass = get_class(cname)
    labels = []
    binnings = [build_axis(b, case["wrap"]) for b in case["axes"]]
    shape = tuple(axis_count(b) for b in case["axes"])
    freq = make_contents(case["content"], shape)
    if cname == "HistogramCollection":
        def mk():
            b = binnings[0]
            from physt.binnings import as_binning

            b = as_binning(b)
            h1 = Histogram1D(b, freq.copy(), name="a")
            h2 = Histogram1D(b, make_contents("unit", shape), name="b")
            return klass(h1, h2)

        return call(mk), labels
    if cname in ONE_D:
        return call(klass, binnings[0], freq), labels
    names = CLASSES[cname][3]
    if names is not None:
        first = call(klass, binnings=[build_axis(b, case["wrap"]) for b in case["axes"]], frequencies=freq.copy())
        labels.append(f"ctor-default-axis-names:{cname}:{first.label}")
        if first.ok:
            return first, labels
        return call(klass, binnings=binnings, frequencies=freq, axis_names=list(names)), labels
    return call(klass, binnings=binnings, frequencies=freq), labels


# ---------------------------------------------------------------------------------------------
# the oracle: measures from first principles
# ---------------------------------------------------------------------------------------------


@lru_cache(maxsize=None)
def factor(role, l, r):
    """(value, magnitude) of the one-axis factor of the statement's formula on [l, r].

    Polynomial parts are exact rationals of the doubles l, r (rounded once); magnitude = sum of |terms|.
    """
    if role == "cos":
        a, b = math.cos(l), math.cos(r)
        return a - b, abs(a) + abs(b)
    fl, fr = Fraction(l), Fraction(r)
    if role == "lin":
        return float(fr - fl), abs(l) + abs(r)
    if role == "r2":
        return float((fr * fr - fl * fl) / 2), float((fr * fr + fl * fl) / 2)
    if role == "disc":
        return float(fr * fr - fl * fl) * PI, float(fr * fr + fl * fl) * PI
    if role == "r3":
        return float((fr ** 3 - fl ** 3) / 3), float((abs(fr) ** 3 + abs(fl) ** 3) / 3)
    raise ValueError(role)


def roles_of(h):
    name = type(h).__name__
    if name == "HistogramND":
        return ("lin",) * h.ndim
    if name not in ROLES:
        raise RuntimeError(f"no measure formula known for class {name}")
    return ROLES[name]


def outer(vectors):
    out = np.asarray(vectors[0], dtype=float)
    for v in vectors[1:]:
        out = np.multiply.outer(out, np.asarray(v, dtype=float))
    return out


def read_bins(h):
    """Bins reported by the object as per-axis lists of (l, r) python floats, or None when malformed."""
    raw = h.bins
    if getattr(h, "ndim", 1) == 1 and not isinstance(raw, list):
        raw = [raw]
    axes = []
    for b in raw:
        b = np.asarray(b)
        if b.ndim != 2 or b.shape[1] != 2 or b.shape[0] == 0:
            return None
        axes.append([(float(x), float(y)) for x, y in b.tolist()])
    return axes


def close(obs, exp, tol):
    obs = np.asarray(obs, dtype=float)
    exp = np.asarray(exp, dtype=float)
    with np.errstate(all="ignore"):
        return bool(np.all(np.abs(obs - exp) <= tol)) and not bool(np.any(np.isnan(obs)))


def ulps(obs, exp, k):
    """|obs - exp| <= k ulp(exp) elementwise (NaN never close)."""
    obs = np.asarray(obs, dtype=float)
    exp = np.asarray(exp, dtype=float)
    with np.errstate(all="ignore"):
        return bool(np.all(np.abs(obs - exp) <= k * np.spacing(np.abs(exp)))) and not bool(np.any(np.isnan(obs)))


def arr_eq(obs, exp):
    obs = np.asarray(obs)
    exp = np.asarray(exp)
    return obs.shape == exp.shape and bool(np.array_equal(obs.astype(float), exp.astype(float)))


class Checker:
    """All single-object oracles; collects violations with coarse signatures."""

    def __init__(self, case, stage, geometry=True):
        self.case = case
        self.stage = stage
        self.geometry = geometry
        self.out = []
        self.labels = set()

    def v(self, oracle, sig, expected, observed):
        self.out.append(V(oracle, sig, self.case, {"stage": self.stage, "expected": expected}, observed))

    def get(self, h, attr, *args, must=True, fam="", key=None):
        """Read an attribute / call a method; a raise is a violation when must."""
        def f():
            x = getattr(h, attr)
            return x(*args) if args else x

        res = call(f)
        if not res.ok and must:
            self.v("accessor", f"accessor|{fam or type(h).__name__}|{key or attr}|{exc_sig(res.exc)}", "a value", res.describe())
        return res

    # -- one object ------------------------------------------------------------------------------
    def check(self, h, content_exact=False):
        cname = type(h).__name__
        axes = read_bins(h)
        if axes is None:
            self.v("bins", f"bins_malformed|{cname}", "per axis an (n>0, 2) array", repr(h.bins)[:300])
            return None
        is1d = cname in ONE_D
        roles = roles_of(h)
        if len(roles) != len(axes):
            self.v("ndim", f"ndim|{cname}", len(roles), len(axes))
            return None
        shape = tuple(len(a) for a in axes)
        consec = [is_consec(a) for a in axes]
        if cname != "HistogramCollection":
            fs = call(lambda: tuple(np.shape(h.frequencies)))
            if fs.ok and fs.value != shape:
                # a malformed object (bins and contents disagree): one finding instead of one per accessor
                self.v("geom", f"geom|{'1D' if is1d else 'ND'}|bins_vs_contents_shape", {"bins": list(shape)}, {"frequencies": list(fs.value)})
                return None
        # ---- expected measures -------------------------------------------------------------------
        fac = [[factor(role, l, r) for (l, r) in ax] for role, ax in zip(roles, axes)]
        exp_sizes = outer([[f[0] for f in fa] for fa in fac])
        mag_sizes = outer([[f[1] for f in fa] for fa in fac])
        sizes = None
        res = self.get(h, "bin_sizes")
        if res.ok:
            sizes = np.asarray(res.value)
            if sizes.shape != shape:
                self.v("bin_sizes_shape", f"bin_sizes_shape|{cname}", list(shape), list(sizes.shape))
                sizes = None
            elif not close(sizes, exp_sizes, RT * mag_sizes):
                self.v("bin_sizes", f"bin_sizes|{cname}", exp_sizes, sizes)
        # ---- sums: total_width / total_size / covered region ---------------------------------------
        region = 1.0
        region_mag = 1.0
        for role, ax, fa, c in zip(roles, axes, fac, consec):
            s = math.fsum(f[0] for f in fa)
            m = math.fsum(f[1] for f in fa)
            if c:
                s = factor(role, ax[0][0], ax[-1][1])[0]
            region *= s
            region_mag *= m
        closed = self.closed_form(cname, roles, axes, consec)
        if is1d:
            res = self.get(h, "total_width", fam="1D")
            if res.ok:
                wsum = math.fsum(factor("lin", l, r)[0] for l, r in axes[0])
                wmag = math.fsum(abs(l) + abs(r) for l, r in axes[0])
                if consec[0]:
                    wsum = factor("lin", axes[0][0][0], axes[0][-1][1])[0]
                if not close(float(res.value), wsum, RT * wmag):
                    self.v("total_width", "total_width|1D", wsum, res.value)
                if cname == "AzimuthalHistogram" and closed is not None and not close(float(res.value), closed, RT * closed):
                    self.v("full_range", f"full_range|{cname}", closed, res.value)
            if sizes is not None:
                tot = math.fsum(float(x) for x in sizes.ravel())
                if not close(tot, region, RT * region_mag):
                    self.v("region", f"region|{cname}", region, tot)
                if closed is not None and not close(tot, closed, RT * closed):
                    self.v("full_range", f"full_range|{cname}", closed, tot)
        else:
            res = self.get(h, "total_size", fam="ND")
            if res.ok:
                tot = float(res.value)
                if not close(tot, region, RT * region_mag):
                    self.v("region", f"region|{cname}", region, tot)
                if closed is not None and not close(tot, closed, RT * closed):
                    self.v("full_range", f"full_range|{cname}", closed, tot)
                if sizes is not None:
                    s = math.fsum(float(x) for x in sizes.ravel())
                    sm = math.fsum(abs(float(x)) for x in sizes.ravel())
                    if not close(tot, s, 4 * sizes.size * EPS * sm):
                        self.v("total_eq_sum", "total_eq_sum|ND", s, tot)
        # ---- densities -----------------------------------------------------------------------------
        if cname != "HistogramCollection":
            self.densities(h, cname, shape, sizes)
        # ---- geometry ------------------------------------------------------------------------------
        if not self.geometry:
            pass
        elif is1d:
            self.geom1d(h, axes[0], consec[0])
        else:
            self.geomnd(h, axes, consec)
        # ---- cumulative ----------------------------------------------------------------------------
        if is1d and cname != "HistogramCollection":
            self.cumulative(h, cname, shape, content_exact)
        return {"axes": axes, "sizes": sizes, "mag": mag_sizes, "consec": consec, "shape": shape}

    @staticmethod
    def closed_form(cname, roles, axes, consec):
        """Measure of the whole region by its text-book formula when the angular ranges are full."""
        if not all(consec):
            return None

        def span(i):
            return axes[i][0][0], axes[i][-1][1]

        def full_phi(i):
            return span(i) == (0.0, TWO_PI)

        def full_theta(i):
            return span(i) == (0.0, PI)

        if cname == "RadialHistogram":
            a, b = span(0)
            return PI * b * b if a == 0 else None
        if cname == "AzimuthalHistogram":
            return TWO_PI if full_phi(0) else None
        if cname == "PolarHistogram":
            a, b = span(0)
            return PI * b * b if a == 0 and full_phi(1) else None
        if cname == "SphericalSurfaceHistogram":
            return 4 * PI if full_theta(0) and full_phi(1) else None
        if cname == "SphericalHistogram":
            a, b = span(0)
            return 4.0 / 3.0 * PI * b ** 3 if a == 0 and full_theta(1) and full_phi(2) else None
        if cname == "CylindricalSurfaceHistogram":
            za, zb = span(1)
            return TWO_PI * float(Fraction(zb) - Fraction(za)) if full_phi(0) else None
        if cname == "CylindricalHistogram":
            a, b = span(0)
            za, zb = span(2)
            return PI * b * b * float(Fraction(zb) - Fraction(za)) if a == 0 and full_phi(1) else None
        return None

    def densities(self, h, cname, shape, sizes):
        # `densities` is implemented once in the base class: the signature names the family, the case names the class
        cname = "1D" if cname in ONE_D else "ND"
        res = self.get(h, "densities", fam=cname)
        fr = self.get(h, "frequencies")
        if not (res.ok and fr.ok) or sizes is None:
            return
        d = np.asarray(res.value)
        f = np.asarray(fr.value)
        if d.shape != shape or f.shape != shape:
            self.v("densities_shape", f"densities_shape|{cname}", list(shape), [list(d.shape), list(f.shape)])
            return
        with np.errstate(all="ignore"):
            f64 = f.astype(np.float64)
            quot = f64 / sizes.astype(np.float64)
            back = d.astype(np.float64) * sizes.astype(np.float64)
            ok_back = bool(np.all(np.abs(back - f64) <= 2 * EPS * np.abs(f64)))
        if not ulps(d, quot, 1):
            self.v("densities_quotient", f"densities_quotient|{cname}", quot, d)
        elif not ok_back:
            self.v("densities_identity", f"densities_identity|{cname}", f64, back)

    def cumulative(self, h, cname, shape, content_exact):
        res = self.get(h, "cumulative_frequencies", fam="1D")
        fr = self.get(h, "frequencies")
        tot = self.get(h, "total")
        if not (res.ok and fr.ok and tot.ok):
            return
        c = np.asarray(res.value)
        f = [x for x in np.asarray(fr.value).tolist()]
        if c.shape != shape:
            self.v("cumulative_shape", "cumulative_shape|1D", list(shape), list(c.shape))
            return
        run = []
        acc = 0
        for x in f:
            acc = acc + x
            run.append(acc)
        absum = math.fsum(abs(float(x)) for x in f)
        dt = np.asarray(fr.value).dtype
        if dt.kind in "iu" or (content_exact and dt == np.float64):
            tol = 0.0  # fingerprint contents: every partial sum is exact
        else:
            # sums are carried out in the dtype of the contents
            tol = 2 * len(f) * float(np.finfo(dt).eps) * absum
        if not close(c, np.array(run, dtype=float), tol):
            self.v("cumulative", "cumulative|1D|running_sum", run, c)
        elif not close(float(c[-1]), float(tot.value), tol):
            self.v("cumulative", "cumulative|1D|ends_at_total", tot.value, c[-1])

    # -- geometry ------------------------------------------------------------------------------------
    @staticmethod
    def _expect(ax):
        l = np.array([p[0] for p in ax], dtype=float)
        r = np.array([p[1] for p in ax], dtype=float)
        mid = np.array([float((Fraction(a) + Fraction(b)) / 2) for a, b in ax], dtype=float)
        wid = np.array([float(Fraction(b) - Fraction(a)) for a, b in ax], dtype=float)
        ctol = np.spacing(np.maximum(np.abs(l), np.abs(r)))
        return l, r, mid, wid, ctol

    def _cmp_axis(self, fam, key, kind, obs, l, r, mid, wid, ctol):
        obs = np.asarray(obs)
        exp = {"left": l, "right": r, "center": mid, "width": wid}[kind]
        if obs.shape != exp.shape:
            self.v("geom", f"geom|{fam}|{key}", {"shape": list(exp.shape)}, {"shape": list(obs.shape)})
            return
        if kind in ("left", "right"):
            ok = arr_eq(obs, exp)
        elif kind == "center":
            ok = close(obs, exp, ctol) and bool(np.all((obs >= l) & (obs <= r)))
        else:
            ok = ulps(obs, exp, 1)
        if not ok:
            self.v("geom", f"geom|{fam}|{key}", exp, obs)

    def geom1d(self, h, ax, consec):
        l, r, mid, wid, ctol = self._expect(ax)
        for attr, kind in (("bin_left_edges", "left"), ("bin_right_edges", "right"), ("bin_centers", "center"), ("bin_widths", "width")):
            res = self.get(h, attr, fam="1D")
            if res.ok:
                self._cmp_axis("1D", attr, kind, res.value, l, r, mid, wid, ctol)
        for attr, kind in (("get_bin_left_edges", "left"), ("get_bin_right_edges", "right")):
            res = self.get(h, attr, 0, fam="1D")
            if res.ok:
                self._cmp_axis("1D", attr, kind, res.value, l, r, mid, wid, ctol)
        for attr, exp in (("min_edge", l[0]), ("max_edge", r[-1])):
            res = self.get(h, attr, fam="1D")
            if res.ok:
                ok = call(lambda: float(res.value) == float(exp))
                if not (ok.ok and ok.value):
                    self.v("geom", f"geom|1D|{attr}", float(exp), res.value)
        self.edges(h, "1D", "edges", None, [ax], [consec])

    def edges(self, h, fam, attr, axis, axes, consec):
        """`edges` / get_bin_edges: demanded only where the bins are exactly consecutive."""
        if axis is None and attr == "edges":
            res = self.get(h, "edges", must=all(consec), fam=fam)
            self.labels.add(f"edges:{'consecutive' if all(consec) else 'gapped'}:{res.label}")
            if not res.ok or not all(consec):
                return
            val = res.value if fam == "ND" else [res.value]
            if len(val) != len(axes):
                self.v("geom", f"geom|{fam}|edges", {"count": len(axes)}, {"count": len(val)})
                return
            for i, ax in enumerate(axes):
                exp = np.array([ax[0][0]] + [p[1] for p in ax], dtype=float)
                if not arr_eq(val[i], exp):
                    self.v("geom", f"geom|{fam}|edges", exp, val[i])
                    return

    def geomnd(self, h, axes, consec):
        nd = len(axes)
        names = call(lambda: list(h.axis_names))
        names = names.value if names.ok and len(names.value) == nd and len(set(names.value)) == nd else None
        exps = [self._expect(ax) for ax in axes]
        methods = (("get_bin_left_edges", "left"), ("get_bin_right_edges", "right"), ("get_bin_centers", "center"), ("get_bin_widths", "width"))
        for i in range(nd):
            forms = [("index", i)] + ([("name", names[i])] if names else [])
            for form, key in forms:
                for attr, kind in methods:
                    res = self.get(h, attr, key, fam="ND", key=f"{attr}|axis")
                    if res.ok:
                        self._cmp_axis("ND", f"{attr}|axis", kind, res.value, *exps[i])
                # numpy-format edges of one axis
                # (the edges of a consecutive axis do not depend on gaps in the other axes - repaired in 99b870a)
                res = self.get(h, "get_bin_edges", key, must=consec[i], fam="ND", key="get_bin_edges|axis")
                if i == 0 and form == "index":
                    self.labels.add(f"get_bin_edges(axis):{'this-axis-consecutive' if consec[i] else 'this-axis-gapped'},"
                                    f"{'all' if all(consec) else 'not-all'}-consecutive:{res.label}")
                if res.ok and consec[i]:
                    exp = np.array([axes[i][0][0]] + [p[1] for p in axes[i]], dtype=float)
                    if not arr_eq(res.value, exp):
                        self.v("geom", "geom|ND|get_bin_edges|axis", {"form": form, "edges": exp}, res.value)
        self.edges(h, "ND", "edges", None, axes, consec)
        # mesh forms ("ij" indexing: element [i0, i1, ...] of mesh a is the per-axis value at i_a)
        shape = tuple(len(a) for a in axes)
        for attr, kind in methods:
            res = self.get(h, attr, None, fam="ND", key=f"{attr}|mesh")
            if not res.ok:
                continue
            mesh = res.value
            if len(mesh) != nd:
                self.v("geom", f"geom|ND|{attr}|mesh", {"count": nd}, {"count": len(mesh)})
                continue
            for a in range(nd):
                l, r, mid, wid, ctol = exps[a]
                sh = [1] * nd
                sh[a] = shape[a]

                def bc(x):
                    return np.broadcast_to(np.asarray(x).reshape(sh), shape)

                self._cmp_axis("ND", f"{attr}|mesh", kind, mesh[a], bc(l), bc(r), bc(mid), bc(wid), bc(ctol))
        res = self.get(h, "get_bin_edges", None, must=all(consec), fam="ND", key="get_bin_edges|mesh")
        if res.ok and all(consec):
            mesh = res.value
            eshape = tuple(n + 1 for n in shape)
            if len(mesh) != nd:
                self.v("geom", "geom|ND|get_bin_edges|mesh", {"count": nd}, {"count": len(mesh)})
            else:
                for a in range(nd):
                    e = np.array([axes[a][0][0]] + [p[1] for p in axes[a]], dtype=float)
                    sh = [1] * nd
                    sh[a] = eshape[a]
                    exp = np.broadcast_to(e.reshape(sh), eshape)
                    if not arr_eq(mesh[a], exp):
                        self.v("geom", "geom|ND|get_bin_edges|mesh", exp, mesh[a])
                        break


# ---------------------------------------------------------------------------------------------
# a whole case: object + slices + merges + projections + transpose
# ---------------------------------------------------------------------------------------------


def axis_index(nd, a, sl):
    if nd == 1:
        return sl
    return tuple([slice(None)] * a + [sl])


def check_additivity(ck, fam, a, amount, info_s, info_m):
    """Measure of a merged bin == sum of the measures of its parts (bins amount*j ... amount*j+amount-1 of the source along axis a)."""
    ss, sm = info_s["sizes"], info_m["sizes"]
    if ss is None or sm is None:
        return
    n = ss.shape[a]
    want = list(ss.shape)
    want[a] = (n + amount - 1) // amount
    if list(sm.shape) != want:
        ck.v("additivity", f"additivity|{fam}", {"shape": want}, {"shape": list(sm.shape)})
        return
    ss = np.moveaxis(np.asarray(ss, dtype=float), a, 0)
    sm = np.moveaxis(np.asarray(sm, dtype=float), a, 0)
    mag = np.moveaxis(np.asarray(info_s["mag"], dtype=float), a, 0)
    for j in range(want[a]):
        parts = sum(ss[i] for i in range(amount * j, min(n, amount * (j + 1))))
        m = sum(mag[i] for i in range(amount * j, min(n, amount * (j + 1))))
        if not close(sm[j], parts, 2 * RT * m):
            ck.v("additivity", f"additivity|{fam}", parts, sm[j])
            return


EDGE_TYPES = ["uint8", "int8", "int16", "int32", "uint16", "float16", "float32", "int64", "float64"]


def evaluate_edge_types(case):
    """Edges given in a narrow numeric type: widths, centres, sizes and totals are those of the numbers."""
    from physt import h1, h2
    from physt.special_histograms import PolarHistogram
    from physt.types import Histogram1D

    dt = np.dtype(case["etype"])
    vals = [0, 64, 100, 127] if dt.itemsize == 1 else [0, 64, 200, 255]
    if case["etype"] in ("int16", "uint16"):
        vals = [0, 200, 20000, 30000]
    elif case["etype"] in ("int32", "int64", "float32", "float64"):
        vals = [0, 200, 50000, 70000]
    elif case["etype"] == "float16":
        vals = [0.0, 64.0, 200.0, 255.0]
    edges = np.array(vals, dtype=dt)
    ex = [float(v) for v in vals]
    widths = [b - a for a, b in zip(ex[:-1], ex[1:])]
    centers = [(a + b) / 2 for a, b in zip(ex[:-1], ex[1:])]
    cls = case["cls"]
    out = []
    sig = f"edge_type|{cls}|{case['etype']}"

    def cmp(name, got, want):
        got = [float(x) for x in np.asarray(got).ravel().tolist()]
        if len(got) != len(want) or any(not (abs(g - w) <= 1e-6 * max(1.0, abs(w))) for g, w in zip(got, want)):
            out.append(V("geom", f"{sig}|{name}", case, want, got))

    if cls == "h1":
        res = call(lambda: h1(np.array([10.0, 70.0, 70.0]), edges))
    elif cls == "Histogram1D":
        res = call(lambda: Histogram1D(edges, [1, 2, 0]))
    elif cls == "h2":
        res = call(lambda: h2(np.array([10.0, 70.0]), np.array([10.0, 70.0]), [edges, edges.copy()]))
    else:
        res = call(lambda: PolarHistogram([edges, np.array([0.0, np.pi, 2 * np.pi])], np.ones((3, 2))))
    if not res.ok:
        return [V("construct", f"{sig}|{exc_sig(res.exc)}", case, "a histogram over these edges", res.describe())], "raise"
    h = res.value
    if cls in ("h1", "Histogram1D"):
        cmp("bin_widths", h.bin_widths, widths)
        cmp("bin_centers", h.bin_centers, centers)
        cmp("bin_sizes", h.bin_sizes, widths)
        cmp("total_width", [h.total_width], [ex[-1] - ex[0]])
        cmp("densities_x_sizes", np.asarray(h.densities) * np.asarray(h.bin_sizes), [float(x) for x in h.frequencies])
    elif cls == "h2":
        cmp("bin_sizes", h.bin_sizes, [a * b for a in widths for b in widths])
        cmp("total_size", [h.total_size], [(ex[-1] - ex[0]) ** 2])
        cmp("widths0", h.get_bin_widths(0), widths)
        cmp("centers1", h.get_bin_centers(1), centers)
    else:
        want = [(b * b - a * a) / 2 * np.pi for a, b in zip(ex[:-1], ex[1:]) for _ in range(2)]
        cmp("bin_sizes", h.bin_sizes, want)
    return out, "ok"


def evaluate_narrow(case):
    """cumulative_frequencies of narrow-integer histograms: every bin fits the dtype, the running sum does not.
    'cumulative_frequencies is the running sum ending at total' - exactly, never wrapped around."""
    from physt.types import Histogram1D

    dt = np.dtype(case["dtype"])
    vals = case["values"]
    h = Histogram1D(np.arange(len(vals) + 1, dtype=float), np.array(vals, dtype=dt), dtype=dt)
    r = call(lambda: h.cumulative_frequencies)
    sig = f"cumulative|narrow|{dt.name}"
    if not r.ok:
        return [V("cumulative", f"{sig}|raises", case, "running sums", r.describe())], {"narrow:raise"}, 1
    got = [int(x) for x in np.asarray(r.value).tolist()]
    want = []
    acc = 0
    for v in vals:
        acc += v
        want.append(acc)
    out = []
    if got != want:
        out.append(V("cumulative", f"{sig}|running_sum", case, want, got))
    if h.total != acc:
        out.append(V("cumulative", f"{sig}|total", case, acc, h.total))
    return out, {"narrow:ok"}, 1


def evaluate(case):
    """-> (violations, labels, n_objects)."""
    if case.get("kind") == "edge_types":
        vs, label = evaluate_edge_types(case)
        return vs, {"edge_types:" + label}, 1
    if case.get("kind") == "narrow":
        return evaluate_narrow(case)
    if case.get("kind") == "facade":
        return evaluate_facade(case)
    if case.get("kind") == "history":
        return evaluate_history(case)
    cname = case["cls"]
    built, labels = build(case)
    labels = set(labels)
    if not built.ok:
        v = V("construct", f"construct|{cname}|{exc_sig(built.exc)}", case, "the constructor accepts valid bins and non-negative contents", built.describe())
        return [v], labels | {"construct:" + built.label}, 0
    h = built.value
    exact = exact_summable(case["content"])
    # the edge / centre / width accessors do not depend on the contents: they are compared for the first contents only
    geom = case["content"] == GEOMETRY_CONTENT
    ck = Checker(case, "base", geom)
    info = ck.check(h, exact)
    nobj = 1
    out = ck.out
    labels |= ck.labels
    if info is None or cname == "HistogramCollection":
        return out, labels, nobj
    kname = type(h).__name__
    nd = len(info["shape"])
    # ---- slices and merges -------------------------------------------------------------------------
    for a in range(nd):
        n = info["shape"][a]
        fam = "1D" if nd == 1 else "ND"
        sliced = {0: (h, info)}
        for off, amount in MERGES:
            if n - off < amount:
                continue
            if off not in sliced:
                res = call(lambda: h[axis_index(nd, a, slice(off, None))])
                if not res.ok:
                    out.append(V("slice", f"slice|{fam}|{exc_sig(res.exc)}", case, {"stage": f"slice axis {a} [{off}:]", "expected": "a histogram"}, res.describe()))
                    sliced[off] = None
                    continue
                src = res.value
                if type(src).__name__ != kname:
                    labels.add(f"slice-class:{kname}->{type(src).__name__}")
                cs = Checker(case, f"slice axis={a} [{off}:]", geom)
                info_s = cs.check(src, exact)
                nobj += 1
                out.extend(cs.out)
                sliced[off] = (src, info_s) if info_s is not None else None
            if sliced[off] is None:
                continue
            src, info_s = sliced[off]
            pairs = info_s["axes"][a]
            adjacent = all(pairs[i][1] == pairs[i + 1][0] for i in range(len(pairs) - 1) if (i + 1) % amount != 0)
            res = call(lambda: src.merge_bins(amount, axis=a))
            labels.add(f"merge:{'adjacent' if adjacent else 'over-gap'}:{res.label}")
            if not res.ok:
                if adjacent:
                    out.append(V("merge", f"merge|{fam}|{exc_sig(res.exc)}", case,
                                 {"stage": f"merge_bins({amount}) axis {a} offset {off}", "expected": "adjacent bins can be merged"}, res.describe()))
                continue
            m = res.value
            cm = Checker(case, f"merge_bins({amount}) axis={a} offset={off}", geom)
            info_m = cm.check(m, exact)
            nobj += 1
            if info_m is not None and adjacent:
                check_additivity(cm, fam, a, amount, info_s, info_m)
            out.extend(cm.out)
    # ---- projections -------------------------------------------------------------------------------
    if nd > 1:
        for k in range(1, nd):
            for sub in itertools.combinations(range(nd), k):
                res = call(lambda: h.projection(*sub))
                labels.add(f"projection:{kname}{list(sub)}->{type(res.value).__name__ if res.ok else res.label}")
                if not res.ok:
                    continue
                if type(res.value).__name__ not in ROLES:
                    continue
                cp = Checker(case, f"projection{list(sub)}", geom)
                cp.check(res.value, exact)
                nobj += 1
                out.extend(cp.out)
    # ---- transpose ---------------------------------------------------------------------------------
    if kname == "Histogram2D":
        res = call(lambda: h.T)
        if res.ok:
            ct = Checker(case, "transpose", geom)
            ct.check(res.value, exact)
            nobj += 1
            out.extend(ct.out)
        else:
            labels.add("transpose:" + res.label)
    return out, labels, nobj


# ---------------------------------------------------------------------------------------------
# facade functions with integer angular bin counts and ranges
# ---------------------------------------------------------------------------------------------

PTS2 = [[0.5, 0.5], [-1.0, 0.3], [0.2, -2.0], [1.0, 1.0], [-0.5, -0.5], [3.0, 0.1]]
PTS3 = [[0.5, 0.5, 0.2], [-1.0, 0.3, -0.4], [0.2, -2.0, 1.0], [1.0, 1.0, 1.0], [-0.5, -0.5, -2.0], [3.0, 0.1, 0.5]]
RANGES = {
    "phi": {"full": (0, 2 * np.pi), "half": (0, np.pi), "partial": (0.5, 2.5)},
    "theta": {"full": (0, np.pi), "upper": (0, np.pi / 2), "partial": (0.3, 2.0)},
}
RADIAL_BINS = {"edges": [0.0, 1.0, 2.5, 4.0], "count": 3, "default": None}


def facade_cases(thorough):
    counts = [1, 3, 4, 16] if thorough else [1, 3, 16]
    cases = []
    for fn in ("polar", "azimuthal", "radial", "radial3", "spherical", "spherical_surface", "cylindrical", "cylindrical_surface"):
        for w in (None, "float"):
            if fn in ("radial", "radial3"):
                for rb in RADIAL_BINS:
                    cases.append({"kind": "facade", "fn": fn, "rbins": rb, "weights": w})
                continue
            for n in counts:
                for pr in RANGES["phi"]:
                    if fn in ("spherical", "spherical_surface"):
                        for tr in RANGES["theta"]:
                            cases.append({"kind": "facade", "fn": fn, "phi_bins": n, "phi_range": pr, "theta_bins": max(1, n // 2), "theta_range": tr,
                                          "rbins": "edges" if n != 3 else "count", "weights": w})
                    else:
                        cases.append({"kind": "facade", "fn": fn, "phi_bins": n, "phi_range": pr, "rbins": "edges" if n != 3 else "count", "weights": w})
    return cases


def evaluate_facade(case):
    from physt import special_histograms as S

    fn = case["fn"]
    p2 = np.array(PTS2)
    p3 = np.array(PTS3)
    w = None if case.get("weights") is None else np.array([2.0 ** -(i + 1) for i in range(6)])
    rb = RADIAL_BINS[case.get("rbins", "edges")]
    rkw = {}
    if isinstance(rb, list):
        rb = np.array(rb)
    pr = RANGES["phi"].get(case.get("phi_range"))
    tr = RANGES["theta"].get(case.get("theta_range"))
    if fn == "polar":
        kw = {"phi_bins": case["phi_bins"], "phi_range": pr, "weights": w}
        if rb is not None:
            kw["radial_bins"] = rb
        if case["rbins"] == "count":
            kw["radial_range"] = (0.0, 4.0)
        res = call(S.polar, p2[:, 0], p2[:, 1], **kw)
    elif fn == "azimuthal":
        res = call(S.azimuthal, p2[:, 0], p2[:, 1], bins=case["phi_bins"], range=pr, weights=w)
    elif fn in ("radial", "radial3"):
        kw = {"weights": w}
        if rb is not None:
            kw["bins"] = rb
        if case["rbins"] == "count":
            kw["range"] = (0.0, 4.0)
        res = call(S.radial, p2[:, 0], p2[:, 1], **kw) if fn == "radial" else call(S.radial, p3, **kw)
    elif fn == "spherical":
        kw = {"theta_bins": case["theta_bins"], "phi_bins": case["phi_bins"], "theta_range": tr, "phi_range": pr, "weights": w}
        if rb is not None:
            kw["radial_bins"] = rb
        if case["rbins"] == "count":
            kw["radial_range"] = (0.0, 4.0)
        res = call(S.spherical, p3, **kw)
    elif fn == "spherical_surface":
        res = call(S.spherical_surface, p3, theta_bins=case["theta_bins"], phi_bins=case["phi_bins"], theta_range=tr, phi_range=pr, weights=w)
    elif fn == "cylindrical":
        kw = {"phi_bins": case["phi_bins"], "phi_range": pr, "weights": w, "z_bins": np.array([-2.0, -0.5, 0.0, 3.0])}
        if rb is not None:
            kw["rho_bins"] = rb
        if case["rbins"] == "count":
            kw["rho_range"] = (0.0, 4.0)
        res = call(S.cylindrical, p3, **kw)
    elif fn == "cylindrical_surface":
        res = call(S.cylindrical_surface, p3, phi_bins=case["phi_bins"], phi_range=pr, weights=w, z_bins=np.array([-2.0, -0.5, 0.0, 3.0]))
    else:
        raise ValueError(fn)
    del rkw
    labels = {f"facade:{fn}:{res.label}"}
    if not res.ok:
        return [], labels, 0
    ck = Checker(case, "facade")
    ck.check(res.value, case.get("weights") is not None)
    return ck.out, labels | ck.labels, 1


# ---------------------------------------------------------------------------------------------
# short histories on adaptive histograms: the geometry is read (and cached) before the bins change
# ---------------------------------------------------------------------------------------------

HIST_VALUES = {1: [-2.25, 0.05, 3.7], 2: [[-2.25, 0.35], [3.7, 0.05], [0.35, 5.1]]}
HIST_WIDTHS = {"one": {"bin_width": 1.0}, "tenth": {"bin_width": 0.1}, "half_shift": {"bin_width": 0.5, "bin_shift": 0.25}}
HIST_OPS = ["fill0", "fill1", "fill2", "fill_n", "merge"]


def history_cases(thorough):
    depth = 4 if thorough else 3
    for dim in (1, 2):
        for w in HIST_WIDTHS:
            for n in range(1, depth + 1):
                for ops in itertools.product(HIST_OPS, repeat=n):
                    yield {"kind": "history", "dim": dim, "width": w, "ops": list(ops)}


def evaluate_history(case):
    from physt.binnings import FixedWidthBinning
    from physt.histogram1d import Histogram1D
    from physt.histogram_nd import Histogram2D

    dim = case["dim"]
    spec = HIST_WIDTHS[case["width"]]

    def fw(count):
        return FixedWidthBinning(bin_count=count, bin_times_min=0, adaptive=True, **spec)

    if dim == 1:
        built = call(Histogram1D, fw(2), np.array([1, 2]))
    else:
        built = call(Histogram2D, [fw(2), fw(3)], np.array([[1, 2, 4], [8, 16, 32]]))
    labels = set()
    if not built.ok:
        return [], {"history-construct:" + built.label}, 0
    h = built.value
    out = []
    ck = Checker(case, "start")
    ck.check(h, True)
    out.extend(ck.out)
    nobj = 1
    vals = HIST_VALUES[dim]
    for k, op in enumerate(case["ops"]):
        if op == "fill_n":
            res = call(h.fill_n, np.array(vals, dtype=float))
        elif op == "merge":
            res = call(lambda: h.merge_bins(2, inplace=True))
        else:
            res = call(h.fill, vals[int(op[-1])])
        labels.add(f"history:{op.rstrip('012')}:{res.label}")
        if not res.ok:
            break
        ck = Checker(case, f"after step {k} ({op})")
        ck.check(h, True)
        nobj += 1
        out.extend(ck.out)
        labels |= ck.labels
    return out, labels, nobj


def replay(case):
    return evaluate(case)[0]


# ---------------------------------------------------------------------------------------------
# enumeration
# ---------------------------------------------------------------------------------------------


def wraps_for(axes, wraps):
    """The distinct effective ways of giving these bin sets."""
    seen = []
    out = []
    for w in wraps:
        eff = tuple(effective_wrap(b, w) for b in axes)
        if eff not in seen:
            seen.append(eff)
            out.append(w)
    return out


def cases_of(unit, thorough):
    cname = unit["cls"]
    roles, quick, thor, _ = CLASSES[cname]
    lists = thor if thorough else quick
    contents = CONTENTS_THOROUGH if thorough else CONTENTS
    wraps = WRAPS_THOROUGH if thorough else WRAPS
    first = unit.get("ax0")
    firsts = [first] if first is not None else lists[0]
    rest = list(lists[1:])
    if unit.get("ax1") is not None:
        rest[0] = [unit["ax1"]]
    if cname == "HistogramCollection":
        contents = ["int"]
    for b0 in firsts:
        for tail in itertools.product(*rest):
            axes = [b0] + list(tail)
            ws = wraps_for(axes, wraps)
            if cname.startswith("HistogramND") and not thorough:
                # plain 3D / 4D: two ways of giving the bins are enough in the quick tier
                ws = ws[:2]
            for w in ws:
                for c in contents:
                    yield {"cls": cname, "axes": axes, "wrap": w, "content": c}


def units(tier, seed):
    thorough = tier == "thorough"
    us = []
    for cname, (roles, quick, thor, _) in CLASSES.items():
        lists = thor if thorough else quick
        if lists is None:
            continue
        if len(lists) == 1:
            us.append({"kind": "class", "cls": cname})
        else:
            for b0 in lists[0]:
                if len(lists) >= 3 and int(np.prod([len(x) for x in lists])) > 600:
                    # big products are split once more so that units have similar cost
                    for b1 in lists[1]:
                        us.append({"kind": "class", "cls": cname, "ax0": b0, "ax1": b1})
                else:
                    us.append({"kind": "class", "cls": cname, "ax0": b0})
    us.append({"kind": "facade"})
    us.append({"kind": "history"})
    us.append({"kind": "narrow"})
    us.append({"kind": "edge_types"})
    return us


def nontrivial(case):
    if case["cls"] in TRANSFORMED:
        return True
    return any(not BINSETS[b].get("plain") for b in case["axes"])


NARROW = [("int16", [4453, 15724, 2186, 22637]), ("int16", [32767, 1]), ("int16", [1, 2, 3]), ("int32", [2000000000, 2000000000, 5]),
          ("int32", [7, 0, 9]), ("int16", [20000, 0, 20000, 0, 20000]), ("int64", [2 ** 40, 2 ** 41])]


def run_unit(unit, ctx):
    p = Partial()
    if unit["kind"] == "edge_types":
        case = None
        for et in EDGE_TYPES:
            for cls in ("h1", "Histogram1D", "h2", "polar"):
                case = {"kind": "edge_types", "etype": et, "cls": cls}
                vs, labels, nobj = evaluate(case)
                p.ev(True)
                p.count("objects_checked", nobj)
                for lab in labels:
                    p.outcome(lab)
                p.extend(vs)
        p.sample(case)
        return p
    if unit["kind"] == "narrow":
        import itertools as _it

        for dtype, vals in NARROW:
            for perm in _it.permutations(vals) if len(vals) <= 4 else [tuple(vals)]:
                case = {"kind": "narrow", "dtype": dtype, "values": list(perm)}
                vs, labels, nobj = evaluate(case)
                p.ev(True)
                p.count("objects_checked", nobj)
                for lab in labels:
                    p.outcome(lab)
                p.extend(vs)
        p.sample(case)
        return p
    if unit["kind"] in ("facade", "history"):
        gen = facade_cases(ctx.thorough) if unit["kind"] == "facade" else history_cases(ctx.thorough)
        for k, case in enumerate(gen):
            if ctx.expired():
                p.capped = True
                p.notes.append(f"{unit['kind']}: stopped after {k}")
                break
            vs, labels, nobj = evaluate(case)
            p.ev(nobj > 0)
            p.count("objects_checked", nobj)
            for lab in labels:
                p.outcome(lab)
            p.extend(vs)
            if k == 7:
                p.sample(case)
        return p
    for k, case in enumerate(cases_of(unit, ctx.thorough)):
        if (k & 7) == 0 and ctx.expired():
            p.capped = True
            p.notes.append(f"{unit}: stopped after {k} cases")
            break
        vs, labels, nobj = evaluate(case)
        p.ev(nontrivial(case) and nobj > 0)
        p.count("objects_checked", nobj)
        for lab in labels:
            p.outcome(lab)
        p.extend(vs)
        if k == 11:
            p.sample(case)
    return p
