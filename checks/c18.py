"""C18 - histograms stay well-formed; failed operations change nothing.

Engine E2 with deviation-bounded fault injection: histories of valid public operations with invalid
calls injected at every position; after every step the shape / sign / dtype invariants must hold, a
refused call must leave the interval -> (content, error) map, the missed counts and the statistics
exactly as they were, and the histogram must remain usable (differential against the un-faulted run).
"""
from __future__ import annotations

import copy
import itertools
import math
import re
import warnings

import numpy as np

from mc.core import Partial, V
from mc.outcome import call
from mc.snapshot import fl, snap, stats_snap, wellformed

ID = "C18"
LEVEL = "model_checking"
RULE = (
    "Base objects: 1D int, 1D float, 1D gapped float, 1D adaptive, 2D, 2D adaptive, 3D, collection. Valid operations (fills "
    "inside / outside / on edges, weighted fill, fill_n with and without weights, += compatible, -= smaller, *= 2, /= 2, "
    "merge_bins(2, inplace), normalize(inplace), dtype = float, collection.add) and fault operations (incompatible / wrong-"
    "dimension / non-histogram operand for += -=, -= of a larger histogram, negative / array / string / histogram / None factor "
    "for *= /=, /= 0, fill_n with wrong weight length / wrong column count / non-numeric data, fill with non-scalar / wrong-shape "
    "value / string weight, invalid dtype, float -> int dtype with fractional contents, merge_bins(2.5) / across a gap / bad axis "
    "/ over all axes with a gap on a later axis, frequencies= wrong shape / negative, errors2= negative / wrong shape, bad index, "
    "bad projection axis, collection.add / constructor with another binning, adaptive += with another width). Histories: every "
    "sequence of <= 2 valid operations, then every fault (deviation 1; thorough: two faults), then every valid operation. "
    "Oracles: well-formedness after every step; a refused call leaves interval->(content, errors2), missed counts and statistics "
    "unchanged (dtype may have been promoted losslessly); the follow-up valid operation gives the same result as without the "
    "fault. Non-trivial: every history containing a fault."
)
ASSUMPTIONS = [
    "absent intervals count as empty: growth of adaptive bins by empty bins during a refused call is allowed",
    "a fault operation that the implementation accepts instead of refusing is a violation only where the statement demands a "
    "refusal (negative contents, non-histogram / incompatible operands, invalid dtype / axis / amount); elsewhere the result must just be well-formed",
    "non-negative weights only (premise of the statement)",
]
BOUNDS = {"quick": "<= 2 valid ops, 1 fault, 1 follow-up on 19 bases (after 2 valid ops: 2 of the follow-ups; the 13 type-dependent faults get their follow-ups from the base state only)",
          "thorough": "<= 2 valid ops, 1-2 faults, every follow-up"}
BUDGET = {"quick": 240, "thorough": 3000}


def exc_sig(e):
    msg = re.sub(r"[^A-Za-z ]+", "", str(e))[:40].strip()
    return f"{type(e).__name__}:{msg}"


# ---------------------------------------------------------------------------------------------
# bases
# ---------------------------------------------------------------------------------------------

BASES = ["1d_int", "1d_float", "1d_gapped", "1d_adaptive", "2d", "2d_adaptive", "2d_gap_axis1", "3d", "collection",
         "1d_adaptive_empty", "2d_adaptive_empty", "2d_int_nokeep", "1d_int_nokeep", "collection_adaptive", "collection_adaptive_copy",
         "1d_adaptive_shared_binning", "1d_shared_binning_made_adaptive", "2d_one_binning_both_axes_made_adaptive"]


def make_base(name):
    from physt import h, h1, h2, h3
    from physt.binnings import StaticBinning
    from physt.types import HistogramCollection

    if name == "1d_int":
        return h1(np.array([-1.0, 0.5, 0.5, 1.5, 2.5, 2.5, 9.0]), np.array([0.0, 1.0, 2.0, 3.0]), name="i")
    if name == "1d_float":
        return h1(np.array([0.5, 1.5, 2.25, 7.0]), np.array([0.0, 1.0, 2.0, 4.0]), weights=np.array([0.5, 0.25, 2.0, 4.0]))
    if name == "1d_gapped":
        return h1(np.array([0.5, 2.5, 2.5]), np.array([[0.0, 1.0], [2.0, 3.0], [3.0, 4.0]]), dtype=float)
    if name == "1d_adaptive":
        return h1(np.array([0.5, 2.5, 2.75]), "fixed_width", bin_width=1.0, adaptive=True)
    if name == "2d":
        return h2(np.array([0.5, 0.5, 1.5, 9.0]), np.array([0.25, 2.5, 1.0, 1.0]), [np.array([0.0, 1.0, 2.0]), np.array([0.0, 0.5, 2.0, 3.0])])
    if name == "2d_adaptive":
        return h2(np.array([0.5, 1.5, 1.5]), np.array([0.5, 0.5, 2.5]), "fixed_width", bin_width=[1.0, 1.0], adaptive=True)
    if name == "2d_gap_axis1":
        return h2(np.array([0.5, 1.5, 1.5]), np.array([0.5, 0.5, 2.5]), [np.array([0.0, 1.0, 2.0]), StaticBinning(np.array([[0.0, 1.0], [2.0, 3.0]]))])
    if name == "3d":
        return h3(np.array([[0.5, 0.5, 0.5], [1.5, 0.5, 2.5], [1.5, 0.5, 2.5]]), [np.array([0.0, 1.0, 2.0]), np.array([0.0, 1.0]), np.array([0.0, 1.0, 2.0, 3.0])])
    if name == "1d_adaptive_empty":
        # no bins yet; every history looks at it (observe) before the first value arrives
        return h1(None, "fixed_width", bin_width=1.0, adaptive=True)
    if name == "2d_adaptive_empty":
        return h2(None, None, "fixed_width", bin_width=[1.0, 1.0], adaptive=True)
    if name == "2d_int_nokeep":
        # built by the class constructor: integer contents, missed entries not recorded
        from physt.histogram_nd import Histogram2D

        return Histogram2D([StaticBinning(np.array([0.0, 1.0, 2.0])), StaticBinning(np.array([0.0, 0.5, 2.0, 3.0]))],
                           frequencies=np.array([[1, 0, 2], [0, 3, 1]]), keep_missed=False)
    if name == "1d_int_nokeep":
        from physt.histogram1d import Histogram1D

        return Histogram1D(StaticBinning(np.array([0.0, 1.0, 2.0, 4.0])), frequencies=np.array([2, 0, 1]), keep_missed=False)
    if name == "collection_adaptive_copy":
        return make_base("collection_adaptive").copy()
    if name == "1d_shared_binning_made_adaptive":
        # b is built from a's (non-adaptive, therefore shared) fixed-width binning; then a alone is made adaptive
        a = h1(np.array([0.5, 1.5]), "fixed_width", bin_width=1.0, name="a")
        b = h1(np.array([0.5]), a.binning, name="b")
        a.adaptive = True
        return Pair(a, b)
    if name == "2d_one_binning_both_axes_made_adaptive":
        from physt.binnings import FixedWidthBinning

        one = FixedWidthBinning(bin_width=1.0, bin_count=3, bin_times_min=0)
        a = h2(np.array([0.5, 1.5]), np.array([0.5, 2.5]), [one, one])
        a.adaptive = True
        return a
    if name == "1d_adaptive_shared_binning":
        # two histograms built from one adaptive binning object, kept together so that both are inspected
        a = h1(np.array([0.5, 1.5]), "fixed_width", bin_width=1.0, adaptive=True, name="a")
        b = h1(np.array([0.5]), a.binning, name="b")
        return Pair(a, b)
    if name == "collection_adaptive":
        # members over one adaptive binning: values outside the present bins make it grow
        from physt.binnings import FixedWidthBinning

        col = HistogramCollection(binning=FixedWidthBinning(bin_width=1.0, bin_count=3, bin_times_min=0, adaptive=True), name="acol")
        col.create("m0", np.array([0.5, 1.5]))
        col.create("m1", np.array([2.5, 2.5, 0.5]))
        return col
    if name == "collection":
        edges = np.array([0.0, 1.0, 2.0, 3.0])
        a = h1(np.array([0.5, 1.5]), edges.copy(), name="m0")
        b = h1(np.array([2.5, 2.5, 0.5]), a.binning, name="m1")
        return HistogramCollection(a, b, name="col")
    raise ValueError(name)


class Pair:
    """Two histograms that were built from the same binning object; operations go to the first one."""

    def __init__(self, a, b):
        self.a, self.b = a, b

    def __getattr__(self, name):
        return getattr(self.a, name)

    def __deepcopy__(self, memo):
        return Pair(copy.deepcopy(self.a, memo), copy.deepcopy(self.b, memo))


def is_col(o):
    return type(o).__name__ == "HistogramCollection"


def members(o):
    if isinstance(o, Pair):
        return [o.a, o.b]
    return list(o.histograms) if is_col(o) else [o]


def first_axis_point(o, where="inside"):
    vals = []
    for a in range(o.ndim):
        bins = np.asarray(o.binnings[a].bins)
        if bins.shape[0] == 0:
            vals.append(0.5)
        elif where == "inside":
            vals.append(float((bins[0, 0] + bins[0, 1]) / 2))
        elif where == "edge":
            vals.append(float(bins[-1, 1]))
        elif where == "above":
            vals.append(float(bins[-1, 1] + 2.5 * (bins[-1, 1] - bins[-1, 0])))
        else:
            vals.append(float(bins[0, 0] - 1.5 * (bins[0, 1] - bins[0, 0])))
    return vals[0] if o.ndim == 1 else vals


# ---------------------------------------------------------------------------------------------
# valid operations
# ---------------------------------------------------------------------------------------------

VALID = ["fill_inside", "fill_above", "fill_below", "fill_edge", "fill_weighted", "fill_heavy", "fill_n", "fill_n_weighted", "iadd_copy", "isub_empty", "isub_half",
         "imul2", "idiv2", "merge2", "normalize", "dtype_float", "iadd_float_copy", "imul_half",
         # batches that lie entirely on one side of the present bins (adaptive bins grow on that side only;
         # seeded C18-force-bin-existence-zero-shift-means-unchanged)
         "fill_n_all_above", "fill_n_all_below"]
VALID_COL = ["col_add", "col_member_fill", "col_create", "col_create_beyond", "col_member_fill_beyond"]


def valid_ops(o):
    return VALID_COL if is_col(o) else VALID


def apply_valid(o, name, ref=None):
    """ref: object whose bins define the fill values (so that a faulted and an un-faulted copy get the same arguments)."""
    if isinstance(o, Pair):
        return apply_valid(o.a, name, ref.a if isinstance(ref, Pair) else ref)
    if is_col(o):
        from physt import h1

        if name == "col_add":
            o.add(h1(np.array([1.5]), o.binning, name="added"))
        elif name == "col_member_fill":
            o.histograms[0].fill(0.5)
        elif name == "col_create":
            o.create("new", np.array([0.5, 2.5]))
        elif name == "col_create_beyond":
            o.create("far", np.array([0.5, 5.5]))  # overflow for fixed bins, growth for adaptive ones
        elif name == "col_member_fill_beyond":
            o.histograms[-1].fill(7.5)
        return
    src = ref if ref is not None else o

    def p(_o, where="inside"):
        return first_axis_point(src, where)

    if name == "fill_inside":
        o.fill(p(o))
    elif name == "fill_above":
        o.fill(p(o, "above"))
    elif name == "fill_below":
        o.fill(p(o, "below"))
    elif name == "fill_edge":
        o.fill(p(o, "edge"))
    elif name == "fill_weighted":
        o.fill(p(o), 0.5)
    elif name == "fill_heavy":
        o.fill(p(o), 200)  # contents stay small, the squared error (40000) leaves the int16 range
    elif name == "fill_n":
        o.fill_n(np.array([p(o), p(o, "above")]))
    elif name == "fill_n_weighted":
        o.fill_n(np.array([p(o), p(o, "edge")]), np.array([0.5, 2.0]))
    elif name in ("fill_n_all_above", "fill_n_all_below"):
        pt = np.asarray(p(o, name.rsplit("_", 1)[1]), dtype=float)
        o.fill_n(np.array([pt, pt + 0.125, pt + 0.25]))
    elif name == "iadd_copy":
        o += o.copy()
    elif name == "isub_empty":
        with warnings.catch_warnings():
            warnings.simplefilter("ignore")
            o -= o.copy(include_frequencies=False)
    elif name == "isub_half":
        with warnings.catch_warnings():
            warnings.simplefilter("ignore")
            o -= o / 2
    elif name == "iadd_float_copy":
        other = o.copy()
        other.set_dtype(np.float64)
        o += other
    elif name == "imul_half":
        o *= 0.5
    elif name == "imul2":
        o *= 2
    elif name == "idiv2":
        o /= 2
    elif name == "merge2":
        o.merge_bins(2, axis=0, inplace=True)
    elif name == "normalize":
        o.normalize(inplace=True)
    elif name == "dtype_float":
        o.dtype = float
    else:
        raise ValueError(name)


# ---------------------------------------------------------------------------------------------
# fault operations: name -> (callable(o), must_raise)
# ---------------------------------------------------------------------------------------------


def other_bins_hist(o):
    from physt import h1, h2, h3

    if o.ndim == 1:
        return h1(np.array([10.5]), np.array([10.0, 11.0, 12.5, 13.0, 19.0]))
    if o.ndim == 2:
        return h2(np.array([10.5]), np.array([10.5]), [np.array([10.0, 11.0, 12.0, 17.0]), np.array([10.0, 11.0])])
    return h3(np.array([[10.5, 10.5, 10.5]]), [np.array([10.0, 11.0, 12.0, 13.0, 14.0]), np.array([10.0, 11.0]), np.array([10.0, 11.0])])


def other_dim_hist(o):
    from physt import h1, h2

    if o.ndim == 1:
        return h2(np.array([0.5]), np.array([0.5]), [np.array([0.0, 1.0]), np.array([0.0, 1.0])])
    return h1(np.array([0.5]), np.array([0.0, 1.0, 2.0]))


def larger_hist(o):
    c = o.copy()
    c *= 3
    c.fill(first_axis_point(o))
    return c


LATE_FAULTS = {"idiv_np_zero", "imul_2pow32", "imul_2pow40", "imul_1e200", "imul_np_int16", "idiv_np_int16", "idiv_1e-200", "fill_weight_2pow40",
               "fill_weight_1e200", "fill_weight_np_int16", "fill_complex", "fill_n_int8_weights", "isub_more_missed"}


def more_missed_hist(o):
    """Same bins, nothing in them, but more weight outside than o has recorded: o - this would leave negative missed counts."""
    c = o.copy(include_frequencies=False)
    for _ in range(3):
        c.fill(first_axis_point(o, "above"), 50)
        c.fill(first_axis_point(o, "below"), 50)
    return c


def faults(o):
    """list of (name, function, must_raise)."""
    if isinstance(o, Pair):
        return faults(o.a)
    if is_col(o):
        from physt import h1
        from physt.types import HistogramCollection

        return [
            ("col_add_other_binning", lambda: o.add(h1(np.array([0.5]), np.array([0.0, 1.0, 2.0]))), True),
            ("col_add_shifted_binning", lambda: o.add(h1(np.array([10.5]), np.array([10.0, 11.0, 12.0, 13.0]))), True),
            ("col_ctor_mixed", lambda: HistogramCollection(o.histograms[0], h1(np.array([0.5]), np.array([0.0, 2.0]))), True),
            ("col_getitem_missing", lambda: o["nope"], True),
            ("col_create_bad_data", lambda: o.create("bad", "text"), True),
            ("col_create_bad_weights", lambda: o.create("bad2", np.array([0.5, 1.5]), weights=np.array([1.0])), True),
        ]
    n0 = o.shape[0]
    p = first_axis_point

    def iop(op, other):
        def f():
            nonlocal o
            x = o
            if op == "+":
                x += other() if callable(other) else other
            elif op == "-":
                with warnings.catch_warnings():
                    warnings.simplefilter("ignore")
                    x -= other() if callable(other) else other
            elif op == "*":
                x *= other() if callable(other) else other
            else:
                x /= other() if callable(other) else other
        return f

    arr = lambda: np.full(o.shape, 2.0)  # noqa: E731
    some = True  # a negative factor is refused whether or not a bin holds anything (missed counters and the recorded weight scale too)
    fs = [
        ("iadd_other_bins", iop("+", lambda: other_bins_hist(o)), True),
        ("iadd_other_dim", iop("+", lambda: other_dim_hist(o)), True),
        ("iadd_scalar", iop("+", 4), True),
        ("iadd_list", iop("+", lambda: arr().tolist()), True),
        ("iadd_array", iop("+", arr), True),
        ("iadd_str", iop("+", "abc"), True),
        ("iadd_none", iop("+", None), True),
        ("isub_larger", iop("-", lambda: larger_hist(o)), n0 > 0),
        ("isub_other_bins", iop("-", lambda: other_bins_hist(o)), True),
        ("isub_array", iop("-", arr), True),
        ("imul_negative", iop("*", -1), some),
        ("imul_negative_float", iop("*", -0.5), some),
        ("imul_array", iop("*", arr), True),
        ("imul_list", iop("*", lambda: arr().tolist()), True),
        ("imul_str", iop("*", "2"), True),
        ("imul_hist", iop("*", lambda: o.copy()), True),
        ("imul_none", iop("*", None), True),
        ("idiv_zero", iop("/", 0), False),
        ("idiv_np_zero", iop("/", np.float64(0.0)), True),
        ("imul_2pow32", iop("*", 2 ** 32), False),
        ("imul_2pow40", iop("*", 2 ** 40), False),
        ("imul_1e200", iop("*", 1e200), False),
        ("imul_np_int16", iop("*", np.int16(200)), False),
        ("idiv_np_int16", iop("/", np.int16(200)), False),
        ("idiv_1e-200", iop("/", 1e-200), False),
        ("fill_weight_2pow40", lambda: o.fill(p(o), 2 ** 40), False),
        ("fill_weight_1e200", lambda: o.fill(p(o), 1e200), False),
        ("fill_weight_np_int16", lambda: o.fill(p(o), np.int16(200)), False),
        ("fill_complex", lambda: o.fill(complex(p(o), 2.0) if o.ndim == 1 else np.array(p(o)) + 2j), False),
        ("fill_n_int8_weights", lambda: o.fill_n(np.array([p(o), p(o)]), np.array([100, 100], dtype=np.int8)), False),
        ("isub_more_missed", iop("-", lambda: more_missed_hist(o)), bool(o.keep_missed) and bool(np.all(np.isfinite(np.asarray(o._missed, dtype=float))))
         and all(b.is_consecutive() for b in o.binnings)),
        ("idiv_negative", iop("/", -2), some),
        ("idiv_array", iop("/", arr), True),
        ("idiv_str", iop("/", "2"), True),
        ("idiv_hist", iop("/", lambda: o.copy()), True),
        ("fill_string_weight", lambda: o.fill(p(o), "w"), True),
        ("fill_n_weights_too_short", lambda: o.fill_n(np.array([p(o), p(o), p(o)]), np.array([1.0, 2.0])), True),
        ("fill_n_weights_too_long", lambda: o.fill_n(np.array([p(o)]), np.array([1.0, 2.0])), True),
        ("fill_n_non_numeric", lambda: o.fill_n(np.array(["a", "b"]) if o.ndim == 1 else np.array([["a"] * o.ndim])), True),
        ("set_dtype_complex", lambda: o.set_dtype("complex64"), True),
        ("set_dtype_str", lambda: o.set_dtype("U3"), True),
        ("merge_fractional_amount", lambda: o.merge_bins(2.5, axis=0, inplace=True), True),
        ("merge_bad_axis_index", lambda: o.merge_bins(2, axis=o.ndim + 3, inplace=True), True),
        ("merge_bad_axis_name", lambda: o.merge_bins(2, axis="no such axis", inplace=True), True),
        ("frequencies_wrong_shape", lambda: setattr(o, "frequencies", np.zeros(tuple(s + 1 for s in o.shape))), True),
        # (an axis without bins - also one of several - leaves no cell to hold a negative value)
        ("frequencies_negative", lambda: setattr(o, "frequencies", -np.ones(o.shape)), int(np.prod(o.shape)) > 0),
        ("errors2_negative", lambda: setattr(o, "errors2", -np.ones(o.shape)), int(np.prod(o.shape)) > 0),
        ("errors2_wrong_shape", lambda: setattr(o, "errors2", np.zeros(tuple(s + 2 for s in o.shape))), True),
        ("index_out_of_range", lambda: o[99] if o.ndim == 1 else o[(99,) * o.ndim], True),
        ("index_reversed_slice", lambda: o[::-1], True),
        ("index_too_many", lambda: o[(0,) * (o.ndim + 1)], True),
        ("select_bad_axis", lambda: o.select(o.ndim + 2, 0), True),
    ]
    big = max(float(np.max(np.abs(o.frequencies), initial=0)), float(np.max(np.abs(o.errors2), initial=0)))
    if big > 32767 and np.dtype(o.dtype).kind in "iu":
        fs.append(("set_dtype_int16_out_of_range", lambda: o.set_dtype(np.int16), True))
    if big > 65504:
        fs.append(("set_dtype_float16_out_of_range", lambda: o.set_dtype(np.float16), True))
    inf_point = first_axis_point(o)
    if o.ndim == 1:
        fs.append(("fill_n_with_inf", lambda: o.fill_n(np.array([first_axis_point(o, "below"), np.inf])), False))
        fs.append(("fill_inf", lambda: o.fill(np.inf), False))
    else:
        fs.append(("fill_n_with_inf", lambda: o.fill_n(np.array([first_axis_point(o, "below"), [np.inf] * o.ndim])), False))
    if o.ndim == 1:
        fs += [
            ("fill_non_scalar", lambda: o.fill([0.5, 1.5]), True),
            ("fill_n_2d_weights_mismatch", lambda: o.fill_n(np.array([[0.5, 1.5]]), np.array([1.0, 2.0, 3.0])), True),
            ("find_bin_non_scalar", lambda: o.find_bin([0.5, 0.6]), True),
        ]
        if np.dtype(o.dtype).kind == "f" and np.any(np.asarray(o.frequencies) % 1):
            fs.append(("set_dtype_int_fractional", lambda: o.set_dtype(np.int64), True))
        if not o.binning.is_consecutive():
            fs.append(("merge_across_gap", lambda: o.merge_bins(2, inplace=True), True))
    else:
        fs += [
            ("fill_wrong_shape", lambda: o.fill([0.5] * (o.ndim + 1)), True),
            ("fill_scalar", lambda: o.fill(0.5), True),
            ("fill_n_wrong_columns", lambda: o.fill_n(np.zeros((2, o.ndim + 1))), True),
            ("fill_n_1d_data", lambda: o.fill_n(np.array([0.5, 1.5])), True),
            ("projection_bad_axis", lambda: o.projection(o.ndim + 1), True),
            ("projection_duplicate", lambda: o.projection(0, 0), True),
            ("projection_empty", lambda: o.projection(), True),
        ]
        if any(not b.is_consecutive() for b in o.binnings[1:]) and o.shape[0] >= 2:
            fs.append(("merge_all_axes_gap_on_later_axis", lambda: o.merge_bins(2, inplace=True), True))
    if o.is_adaptive():
        from physt import h1, h2

        if o.ndim == 1:
            fs.append(("adaptive_iadd_other_width", iop("+", lambda: h1(np.array([0.25, 7.0]), "fixed_width", bin_width=0.5, adaptive=True)), True))
            fs.append(("adaptive_iadd_missed", iop("+", lambda: h1(np.array([0.5, 99.0]), np.array([0.0, 1.0, 2.0, 5.0]))), True))
        elif o.ndim == 2:
            fs.append(("adaptive2d_iadd_second_axis_other_width",
                       iop("+", lambda: h2(np.array([5.5]), np.array([0.25]), "fixed_width", bin_width=[1.0, 0.5], adaptive=True)), True))
    return fs


# ---------------------------------------------------------------------------------------------
# observation
# ---------------------------------------------------------------------------------------------


def interval_map(h):
    """{bin interval(s): (content, errors2)} for non-empty cells + missed + stats."""
    f = np.asarray(h.frequencies)
    e = np.asarray(h.errors2)
    bins = [np.asarray(b.bins).tolist() for b in h.binnings]
    cells = {}
    if f.shape == tuple(len(b) for b in bins) and e.shape == f.shape:
        for idx in np.argwhere((f != 0) | (e != 0)):
            key = tuple(tuple(bins[a][i]) for a, i in enumerate(idx))
            cells[key] = (fl(f[tuple(idx)]), fl(e[tuple(idx)]))
    else:
        cells["<shape mismatch>"] = (repr(f.shape), repr([len(b) for b in bins]))
    if h.ndim == 1 and hasattr(h, "underflow"):
        missed = (fl(h.underflow), fl(h.overflow), fl(h.inner_missed))
    else:
        missed = (fl(h.missed),)
    st = stats_snap(h) if (h.ndim == 1 and hasattr(h, "_stats")) else None
    return {"cells": cells, "missed": missed, "stats": st, "keep_missed": bool(h.keep_missed)}


def observe(o):
    return [interval_map(m) for m in members(o)]


def invariants(o):
    probs = []
    for k, m in enumerate(members(o)):
        pr = wellformed(m)
        f = np.asarray(m.frequencies)
        if f.size and np.any(f < 0):
            pr.append("negative content")
        if pr:
            probs.append((k, pr))
    if is_col(o) and not o.binning.is_adaptive():
        # (members over an adaptive binning grow separately: each has to be well-formed, they need not stay equal)
        for k, m in enumerate(o.histograms):
            if not (m.binning == o.binning):
                probs.append((k, ["member binning differs from the collection's"]))
    return probs


def approx_equal(a, b, rtol=1e-12):
    """interval maps equal up to summation-order rounding (arrays of different size sum in a different order)."""
    if len(a) != len(b):
        return False
    for x, y in zip(a, b):
        if set(x["cells"]) != set(y["cells"]) or x["keep_missed"] != y["keep_missed"]:
            return False
        pairs = [(x["cells"][k], y["cells"][k]) for k in x["cells"]] + [(x["missed"], y["missed"])]
        for u, v in pairs:
            for p, q in zip(u, v):
                if p == q:
                    continue
                try:
                    if abs(float(p) - float(q)) > rtol * max(abs(float(p)), abs(float(q))):
                        return False
                except (TypeError, ValueError):
                    return False
        if x["stats"] != y["stats"]:
            return False
    return True


def lossless_dtype_change(before_o, after_o):
    for b, a in zip(members(before_o), members(after_o)):
        db, da = np.dtype(b.dtype), np.dtype(a.dtype)
        if db != da and not np.can_cast(db, da, "safe") and not (db.kind in "iu" and da.kind == "f"):
            return False
    return True


# ---------------------------------------------------------------------------------------------
# one history
# ---------------------------------------------------------------------------------------------


def run_history(case):
    """case: base, prefix [valid ops], faults [names], follow [valid op or None]."""
    base = case["base"]
    o = make_base(base)
    out = []
    sig0 = f"{base}"
    for name in case["prefix"]:
        before = observe(o)
        r = call(apply_valid, o, name)
        if not r.ok:
            # a 'valid' operation may be inapplicable in this state (e.g. merge of a single bin, normalize of an empty
            # histogram): then it is just another refused call - nothing may have changed
            after = observe(o)
            pr = invariants(o)
            if pr:
                out.append(V("wellformed", f"malformed|{sig0}|after_refused_valid={name}", case, "well-formed", pr))
            elif after != before:
                changed = sorted({k for b, a in zip(before, after) for k in b if b[k] != a[k]})
                out.append(V("refused_changes_nothing", f"refused_but_changed|{name}|{'+'.join(changed)}|{type(r.exc).__name__}", case,
                             {"before": before}, {"after": after, "exception": r.describe()}))
            return out, "prefix-refused" if not out else "viol"
        pr = invariants(o)
        if pr:
            out.append(V("wellformed", f"malformed|{sig0}|after_valid={name}", case, "well-formed", pr))
            return out, "viol"
    pristine = copy.deepcopy(o)
    for fname in case["faults"]:
        table = {n: (f, must) for n, f, must in faults(o)}
        if fname not in table:
            return out, "n/a"
        f, must = table[fname]
        before = observe(o)
        r = call(f)
        after = observe(o)
        pr = invariants(o)
        if pr:
            out.append(V("wellformed", f"malformed|{sig0}|after_fault={fname}|raised={int(not r.ok)}", case, "well-formed", pr))
            return out, "viol"
        if r.ok:
            if must:
                out.append(V("must_raise", f"fault_accepted|{fname}|ndim={min(members(o)[0].ndim, 3)}", case, "refused", "accepted: " + repr(r.value)[:120]))
                return out, "viol"
            pristine = copy.deepcopy(o)  # accepted and well-formed: it was a valid operation after all
            continue
        if after != before:
            changed = sorted({k for b, a in zip(before, after) for k in b if b[k] != a[k]})
            out.append(V("refused_changes_nothing", f"refused_but_changed|{fname}|{'+'.join(changed)}|{type(r.exc).__name__}", case,
                         {"before": before}, {"after": after, "exception": r.describe()}))
            return out, "viol"
        if not lossless_dtype_change(pristine, o):
            out.append(V("refused_changes_nothing", f"refused_lossy_dtype|{fname}", case, str([m.dtype for m in members(pristine)]), str([m.dtype for m in members(o)])))
            return out, "viol"
    follow = case.get("follow")
    if follow is not None:
        ref = copy.deepcopy(pristine)
        same_bins = [snap(m)["binnings"] for m in members(o)] == [snap(m)["binnings"] for m in members(ref)]
        if not same_bins and follow in ("merge2",):
            return out, "ok"  # bins grew by empty bins during the refused call (allowed): pairing of bins is not comparable
        r1 = call(apply_valid, o, follow, pristine)
        r2 = call(apply_valid, ref, follow, pristine)
        if r1.ok != r2.ok:
            out.append(V("usable_after_refusal", f"follow_up_differs|{'+'.join(case['faults'])}|{follow}|outcome", case,
                         "same outcome as without the fault: " + r2.describe(), r1.describe()))
            return out, "viol"
        if r1.ok:
            a, b = observe(o), observe(ref)
            if a != b and not (not same_bins and approx_equal(a, b)):
                out.append(V("usable_after_refusal", f"follow_up_differs|{'+'.join(case['faults'])}|{follow}|state", case, b, a))
                return out, "viol"
            pr = invariants(o)
            if pr:
                out.append(V("wellformed", f"malformed|{sig0}|after_follow_up={follow}", case, "well-formed", pr))
                return out, "viol"
    return out, "ok"


def replay(case):
    return run_history(case)[0]


# ---------------------------------------------------------------------------------------------


def units(tier, seed):
    thorough = tier == "thorough"
    us = []
    for base in BASES:
        o = make_base(base)
        vops = valid_ops(o)
        us.append({"base": base, "first": None, "nf": 1})
        for v in vops:
            us.append({"base": base, "first": v, "nf": 1})
            if thorough:
                us.append({"base": base, "first": v, "nf": 2})
    return us


def run_unit(unit, ctx):
    p = Partial()
    base = unit["base"]
    o0 = make_base(base)
    vops = valid_ops(o0)
    first = unit["first"]
    second = [v for v in vops if v in ("fill_above", "fill_weighted", "fill_heavy", "fill_n_weighted", "iadd_copy", "iadd_float_copy", "idiv2", "merge2", "col_add", "col_member_fill", "col_create_beyond", "col_member_fill_beyond")]
    prefixes = [[]] if first is None else [[first]] + [[first, v] for v in second]
    follows = [v for v in vops if v in ("fill_inside", "fill_above", "fill_n_weighted", "iadd_copy", "imul2", "merge2", "normalize", "col_add", "col_member_fill", "col_create", "col_create_beyond")]
    k = 0
    for prefix in prefixes:
        # the fault menu depends on the state (e.g. fractional contents): compute it on the state reached
        o = make_base(base)
        okp = True
        for name in prefix:
            if not call(apply_valid, o, name).ok:
                okp = False
                break
        if not okp:
            # the refused 'valid' operation itself is judged (it must not have changed anything)
            case = {"base": base, "prefix": prefix, "faults": [], "follow": None}
            vs, label = run_history(case)
            p.ev(True)
            p.transitions += len(prefix)
            p.traces += 1
            p.outcome(f"{label}:{prefix[-1]}")
            p.extend(vs)
            continue
        fnames = [n for n, _, _ in faults(o)]
        combos = [[f] for f in fnames]
        if unit["nf"] == 2:
            combos = [[a, b] for a in fnames[::2] for b in fnames[1::3]]
        quick = not getattr(ctx, "thorough", False)
        for fl_ in combos:
            fset = [None] + follows
            if quick and len(prefix) == 2:
                fset = [None] + follows[:2]  # quick tier: depth-2 prefixes get two follow-ups
            if quick and prefix and fl_[0] in LATE_FAULTS:
                fset = [None]  # the type-dependent faults added in the audit round: full follow-ups from the base state only
            for follow in fset:
                if (k & 31) == 0 and ctx.expired():
                    p.capped = True
                    p.notes.append(f"{unit}: stopped after {k} histories")
                    return p
                case = {"base": base, "prefix": prefix, "faults": fl_, "follow": follow}
                vs, label = run_history(case)
                k += 1
                if label == "n/a":
                    continue
                p.ev(True)
                p.states += 1 + len(prefix) + len(fl_) + (1 if follow else 0)
                p.transitions += len(prefix) + len(fl_) + (1 if follow else 0)
                p.traces += 1
                p.max_depth = max(p.max_depth, len(prefix) + len(fl_) + (1 if follow else 0))
                p.outcome(f"{label}:{fl_[0]}")
                p.extend(vs)
                if k == 50:
                    p.sample(case)
    return p
