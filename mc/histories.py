"""E2 history explorer (DESIGN 3.5): explicit-state BFS over operation histories on live objects.

The *model* state is the key; the live object reached first is kept with its snapshot.  Every
transition is checked by the caller-supplied `step` (reference model + frame conditions); when a
second path reaches an existing key the snapshots must agree (confluence oracle).  A transition
that disagreed with the model is reported once and its successor is NOT registered (root causes
only).  `dfs_validate` re-walks all paths up to a smaller depth on fresh objects without merging
and compares every node with the BFS state it maps to (traces_validated_against_impl).
"""
from __future__ import annotations

import copy
from collections import deque

from .core import V


class System:
    """What a check has to provide.

    init()                         -> (model, obj)
    key(model)                     -> hashable canonical state
    ops(model)                     -> iterable of JSON-able ops enabled in that state (simplest first)
    step(model, obj, op, hist)     -> (model2 | None, [violations], loop)   obj is a private deep copy;
                                       model2 None = transition leaves the explored space (bound) or was refused;
                                       loop True = self-loop (model unchanged; obj must be unchanged)
    snap(obj)                      -> comparable snapshot used for confluence
    describe(hist, op)             -> JSON case for a violation
    nontrivial(model, op, model2)  -> bool
    """

    confluence_oracle = "confluence"

    def clone(self, obj):
        return copy.deepcopy(obj)


def bfs(sys_, p, ctx=None, max_states=None, on_new_state=None):
    model0, obj0 = sys_.init()
    k0 = sys_.key(model0)
    seen = {k0: (model0, obj0, sys_.snap(obj0), ())}
    frontier = deque([k0])
    p.states += 1
    steps = 0
    if on_new_state is not None:
        p.extend(on_new_state(model0, obj0, ()))
    while frontier:
        k = frontier.popleft()
        model, obj, _, hist = seen[k]
        for op in sys_.ops(model):
            steps += 1
            if ctx is not None and (steps & 255) == 0 and ctx.expired():
                p.capped = True
                p.notes.append(f"BFS stopped by the time budget after {p.transitions} transitions, {p.states} states")
                return seen
            o2 = sys_.clone(obj)
            res = sys_.step(model, o2, op, hist)
            model2, vs, loop = res[0], res[1], res[2]
            if len(res) > 3 and res[3] is not None:
                o2 = res[3]  # the operation returned a new object that becomes the state
            p.transitions += 1
            p.ev(sys_.nontrivial(model, op, model2))
            if vs:
                p.extend(vs)
                continue  # poisoned: do not register / expand the successor
            if model2 is None or loop:
                continue
            k2 = sys_.key(model2)
            s2 = sys_.snap(o2)
            if k2 in seen:
                _, _, s_old, hist_old = seen[k2]
                if s2 != s_old:
                    case = sys_.describe(hist, op)
                    case["other_history"] = [list(h) if isinstance(h, tuple) else h for h in hist_old]
                    p.violation(sys_.confluence_oracle, sys_.confluence_signature(model2, s_old, s2), case, s_old, s2)
            else:
                h2 = hist + (op,)
                seen[k2] = (model2, o2, s2, h2)
                p.states += 1
                p.max_depth = max(p.max_depth, len(h2))
                if on_new_state is not None:
                    p.extend(on_new_state(model2, o2, h2))
                if max_states is None or len(seen) < max_states:
                    frontier.append(k2)
    return seen


def dfs_validate(sys_, p, seen, depth, ctx=None, op_filter=None):
    """Walk every path of length <= depth on fresh objects (no merging) and compare each node's
    snapshot with the BFS state of the same key."""

    def rec(model, obj, hist, d):
        if d == 0:
            return
        for op in sys_.ops(model):
            if op_filter is not None and not op_filter(op):
                continue
            if ctx is not None and ctx.expired():
                p.capped = True
                return
            o2 = sys_.clone(obj)
            res = sys_.step(model, o2, op, hist)
            model2, vs, loop = res[0], res[1], res[2]
            if len(res) > 3 and res[3] is not None:
                o2 = res[3]
            if vs or model2 is None or loop:
                continue
            k2 = sys_.key(model2)
            if k2 in seen:
                p.traces += 1
                if sys_.snap(o2) != seen[k2][2]:
                    case = sys_.describe(hist, op)
                    case["other_history"] = list(seen[k2][3])
                    p.violation("dfs_vs_bfs", "dfs_vs_bfs|" + sys_.confluence_signature(model2, seen[k2][2], sys_.snap(o2)), case,
                                seen[k2][2], sys_.snap(o2))
                    continue
            rec(model2, o2, hist + (op,), d - 1)

    model0, obj0 = sys_.init()
    rec(model0, obj0, (), depth)


def replay_history(sys_, history, final_op=None):
    """Re-execute one history on a fresh object, with all oracles, without the explorer."""
    model, obj = sys_.init()
    out = []
    hist = ()
    ops = list(history) + ([final_op] if final_op is not None else [])
    for op in ops:
        op = _tuplify(op)
        res = sys_.step(model, obj, op, hist)
        model2, vs, loop = res[0], res[1], res[2]
        if len(res) > 3 and res[3] is not None:
            obj = res[3]
        out.extend(vs)
        if vs:
            break
        if model2 is not None and not loop:
            model = model2
        hist = hist + (op,)
    return out, model, obj


def _tuplify(x):
    if isinstance(x, list):
        return tuple(_tuplify(i) for i in x)
    return x


def listify(x):
    if isinstance(x, (tuple, list)):
        return [listify(i) for i in x]
    return x


__all__ = ["System", "bfs", "dfs_validate", "replay_history", "V", "listify"]
