"""Outcome classes (DESIGN 3.6): wrap every implementation call."""
from __future__ import annotations

MUST_SUCCEED = "MUST_SUCCEED"
MUST_RAISE = "MUST_RAISE"
EITHER = "EITHER"


class Out:
    __slots__ = ("ok", "value", "exc")

    def __init__(self, ok, value=None, exc=None):
        self.ok = ok
        self.value = value
        self.exc = exc

    @property
    def label(self):
        return "ok" if self.ok else type(self.exc).__name__

    def describe(self):
        if self.ok:
            return "returned " + repr(self.value)[:200]
        return f"raised {type(self.exc).__name__}: {str(self.exc)[:200]}"


def call(fn, *args, **kwargs):
    """Call fn; ordinary exceptions become outcomes, BaseExceptions (KeyboardInterrupt...) propagate."""
    try:
        return Out(True, fn(*args, **kwargs))
    except Exception as e:  # noqa: BLE001
        return Out(False, exc=e)
