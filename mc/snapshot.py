"""Public snapshot of a histogram (DESIGN 3.4): reads only public attributes, exact, NaN == NaN."""
from __future__ import annotations

import math

import numpy as np


def fl(x):
    """Canonical exact form of a scalar: Python int / float, NaN -> 'nan'."""
    if isinstance(x, (np.integer,)):
        return int(x)
    if isinstance(x, (bool, int)):
        return x
    try:
        if isinstance(x, np.longdouble) and np.dtype(type(x)).itemsize > 8:
            if np.isnan(x):
                return "nan"
            return "ld:" + repr(x)
        v = float(x)
    except (TypeError, ValueError):
        return repr(x)
    if math.isnan(v):
        return "nan"
    if v == 0:
        return 0.0
    return v


def arr(a):
    a = np.asarray(a)
    flat = a.ravel().tolist()
    return (str(a.dtype), tuple(a.shape), tuple(fl(v) for v in flat))


def binning_snap(b):
    bins = np.asarray(b.bins)
    return (
        type(b).__name__,
        tuple(bins.shape),
        tuple(fl(v) for v in bins.ravel().tolist()),
        bool(b.includes_right_edge),
        bool(b.is_adaptive()),
    )


def meta_snap(h):
    md = h.meta_data
    items = []
    for k in sorted(md, key=str):
        v = md[k]
        if isinstance(v, tuple):
            v = list(v)
        items.append((str(k), repr(v)))
    return tuple(items)


def stats_snap(h):
    st = getattr(h, "statistics", None)
    if st is None:
        return None
    return tuple((k, fl(getattr(st, k))) for k in ("sum", "sum2", "min", "max", "weight", "median"))


def snap(h, meta=True, stats=True, binning_class=True):
    """Full public snapshot as a dict of comparable values."""
    d = {"class": type(h).__name__}
    bs = [binning_snap(b) for b in h.binnings]
    if not binning_class:
        bs = [b[1:] for b in bs]
    d["binnings"] = tuple(bs)
    d["frequencies"] = arr(h.frequencies)
    d["errors2"] = arr(h.errors2)
    d["dtype"] = str(np.dtype(h.dtype))
    d["keep_missed"] = bool(h.keep_missed)
    if h.ndim == 1 and hasattr(h, "underflow"):
        d["underflow"] = fl(h.underflow)
        d["overflow"] = fl(h.overflow)
        d["inner_missed"] = fl(h.inner_missed)
        if stats:
            try:
                d["statistics"] = stats_snap(h)
            except AttributeError as e:  # copy(include_frequencies=False) has no _stats today
                d["statistics"] = "AttributeError"
    else:
        d["missed"] = fl(h.missed)
    if meta:
        d["meta"] = meta_snap(h)
        d["axis_names"] = tuple(h.axis_names)
    return d


def content_snap(h):
    """Contents only: bins, frequencies, errors2, missed counts (no dtype strings, no meta)."""
    d = {}
    d["bins"] = tuple(binning_snap(b)[1:3] for b in h.binnings)
    d["frequencies"] = arr(h.frequencies)[1:]
    d["errors2"] = arr(h.errors2)[1:]
    if h.ndim == 1 and hasattr(h, "underflow"):
        d["underflow"] = fl(h.underflow)
        d["overflow"] = fl(h.overflow)
        d["inner_missed"] = fl(h.inner_missed)
    else:
        d["missed"] = fl(h.missed)
    return d


def diff(a, b):
    """Keys in which two snapshots differ, with both values."""
    out = {}
    for k in sorted(set(a) | set(b)):
        if a.get(k, "<absent>") != b.get(k, "<absent>"):
            out[k] = [a.get(k, "<absent>"), b.get(k, "<absent>")]
    return out


def wellformed(h):
    """Shape / sign / dtype invariants (C12, C18). Returns a list of problems."""
    problems = []
    try:
        shape = tuple(int(b.bin_count) for b in h.binnings)
        bshape = tuple(int(np.asarray(b.bins).shape[0]) for b in h.binnings)
        if shape != bshape:
            problems.append(f"bin_count {shape} != bins rows {bshape}")
        if tuple(h.frequencies.shape) != bshape:
            problems.append(f"frequencies shape {tuple(h.frequencies.shape)} != bins {bshape}")
        if tuple(h.errors2.shape) != bshape:
            problems.append(f"errors2 shape {tuple(h.errors2.shape)} != bins {bshape}")
        if np.any(np.asarray(h.errors2) < 0):
            problems.append("negative errors2")
        for i, b in enumerate(h.binnings):
            bins = np.asarray(b.bins)
            if bins.ndim != 2 or (bins.size and bins.shape[1] != 2):
                problems.append(f"axis {i}: bins have shape {bins.shape}")
                continue
            if bins.shape[0]:
                if np.any(bins[:, 0] >= bins[:, 1]):
                    problems.append(f"axis {i}: bin with left >= right")
                if np.any(bins[1:, 0] < bins[:-1, 1]):
                    problems.append(f"axis {i}: bins not rising")
        if np.dtype(h.dtype) != h.frequencies.dtype:
            problems.append(f"dtype {h.dtype} != frequencies.dtype {h.frequencies.dtype}")
        if np.dtype(h.dtype) != h.errors2.dtype:
            problems.append(f"dtype {h.dtype} != errors2.dtype {h.errors2.dtype}")
    except Exception as e:  # noqa: BLE001
        problems.append(f"inspection raised {type(e).__name__}: {e}")
    return problems
