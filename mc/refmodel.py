"""Reference model (DESIGN 3.3): an entry list and plain comparisons, exact rational arithmetic.

No numpy in the deciding arithmetic.
"""
from __future__ import annotations

import math
from fractions import Fraction


def frac(x):
    if isinstance(x, Fraction):
        return x
    if isinstance(x, bool):
        return Fraction(int(x))
    if isinstance(x, int):
        return Fraction(x)
    return Fraction(float(x))


def isnan(x):
    return isinstance(x, float) and math.isnan(x)


class Ref1D:
    """1D entry-list histogram; the last bin is right-closed (C01 statement)."""

    def __init__(self, pairs, entries=None, scale=1):
        self.pairs = [(float(l), float(r)) for l, r in pairs]
        self.entries = []  # (x, w)
        self.scale = frac(scale)
        for e in entries or []:
            self.add(*e)

    @property
    def consecutive(self):
        return all(self.pairs[i][1] == self.pairs[i + 1][0] for i in range(len(self.pairs) - 1))

    def add(self, x, w=1):
        if isnan(x):
            return
        self.entries.append((float(x), frac(w)))

    def index(self, x):
        """-1 underflow, n overflow, None gap, else bin index."""
        if isnan(x):
            return "nan"
        n = len(self.pairs)
        if x < self.pairs[0][0]:
            return -1
        if x > self.pairs[-1][1]:
            return n
        for i, (l, r) in enumerate(self.pairs):
            if l <= x < r:
                return i
        if x == self.pairs[-1][1]:
            return n - 1
        return None

    def contents(self):
        n = len(self.pairs)
        c = [Fraction(0)] * n
        e2 = [Fraction(0)] * n
        under = over = gap = Fraction(0)
        for x, w in self.entries:
            i = self.index(x)
            ws = w * self.scale
            if i == -1:
                under += ws
            elif i == n:
                over += ws
            elif i is None:
                gap += ws
            else:
                c[i] += ws
                e2[i] += ws * ws
        return c, e2, under, over, gap

    def total_weight(self):
        return sum((w for _, w in self.entries), Fraction(0)) * self.scale

    def stats(self, in_range_only=False):
        ent = self.entries
        if in_range_only:
            n = len(self.pairs)
            ent = [(x, w) for x, w in ent if isinstance(self.index(x), int) and 0 <= self.index(x) < n]
        if not ent:
            return {"sum": Fraction(0), "sum2": Fraction(0), "weight": Fraction(0), "min": math.inf, "max": -math.inf}
        return {
            "sum": sum(frac(x) * w for x, w in ent),
            "sum2": sum(frac(x) * frac(x) * w for x, w in ent),
            "weight": sum(w for _, w in ent),
            "min": min(x for x, _ in ent),
            "max": max(x for x, _ in ent),
        }


class RefND:
    """ND entry-list histogram; last bin of an axis right-closed iff right_closed[axis]."""

    def __init__(self, axes, right_closed, entries=None, scale=1):
        self.axes = [[(float(l), float(r)) for l, r in ax] for ax in axes]
        self.right_closed = list(right_closed)
        self.entries = []
        self.scale = frac(scale)
        for e in entries or []:
            self.add(*e)

    @property
    def shape(self):
        return tuple(len(ax) for ax in self.axes)

    def add(self, row, w=1):
        if any(isnan(float(x)) for x in row):
            return
        self.entries.append((tuple(float(x) for x in row), frac(w)))

    def axis_index(self, a, x):
        ax = self.axes[a]
        for i, (l, r) in enumerate(ax):
            if l <= x < r:
                return i
        if self.right_closed[a] and x == ax[-1][1]:
            return len(ax) - 1
        return None

    def index(self, row):
        idx = tuple(self.axis_index(a, x) for a, x in enumerate(row))
        if any(i is None for i in idx):
            return None
        return idx

    def contents(self):
        cells = {}
        e2 = {}
        missed = Fraction(0)
        for row, w in self.entries:
            idx = self.index(row)
            ws = w * self.scale
            if idx is None:
                missed += ws
            else:
                cells[idx] = cells.get(idx, Fraction(0)) + ws
                e2[idx] = e2.get(idx, Fraction(0)) + ws * ws
        return cells, e2, missed

    def dense(self):
        import itertools

        cells, e2, missed = self.contents()
        shape = self.shape
        c = [cells.get(i, Fraction(0)) for i in itertools.product(*[range(n) for n in shape])]
        e = [e2.get(i, Fraction(0)) for i in itertools.product(*[range(n) for n in shape])]
        return c, e, missed

    def total_weight(self):
        return sum((w for _, w in self.entries), Fraction(0)) * self.scale


def eq_exact(observed, expected):
    """observed: python/numpy scalar; expected: Fraction. Exact equality."""
    try:
        o = float(observed)
    except (TypeError, ValueError):
        return False
    if math.isnan(o) or math.isinf(o):
        return False
    return Fraction(o) == expected


def list_eq_exact(observed, expected):
    observed = list(observed)
    if len(observed) != len(expected):
        return False
    return all(eq_exact(o, e) for o, e in zip(observed, expected))


def ulp_close(observed, expected, ulps=1):
    """|observed - expected| <= ulps * ulp(expected as double); expected is a Fraction."""
    o = float(observed)
    if math.isnan(o) or math.isinf(o):
        return False
    e = float(expected)
    if o == e:
        return True
    u = math.ulp(e) if e != 0 else 5e-324
    return abs(Fraction(o) - expected) <= ulps * Fraction(u)


def floats(fr_list):
    return [float(f) for f in fr_list]
