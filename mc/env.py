"""Execution environment: must be imported before numpy / physt.

* pins BLAS/OpenMP threads to 1 (workers are processes),
* puts the physt source tree under test first on sys.path
  (PHYST_VERIF_SRC, default /repo/src) so that the *current working tree* is what runs,
* re-executes the interpreter once with PYTHONHASHSEED=0 for reproducible hashing,
* silences warnings (physt warns on list bins, subtraction, negative frequencies).
"""
import os
import sys

VERIF_ROOT = os.path.dirname(os.path.dirname(os.path.abspath(__file__)))
SRC = os.environ.get("PHYST_VERIF_SRC", "/repo/src")

_ENV = {
    "OMP_NUM_THREADS": "1",
    "OPENBLAS_NUM_THREADS": "1",
    "MKL_NUM_THREADS": "1",
    "NUMEXPR_NUM_THREADS": "1",
    "POLARS_MAX_THREADS": "1",
    "PYTHONDONTWRITEBYTECODE": "1",
    "MPLBACKEND": "Agg",
    "PYTHONWARNINGS": "ignore",
}


def setup(reexec=True):
    changed = False
    for k, v in _ENV.items():
        if os.environ.get(k) != v:
            os.environ[k] = v
            changed = True
    if os.environ.get("PYTHONHASHSEED") != "0":
        os.environ["PYTHONHASHSEED"] = "0"
        if reexec:
            os.execve(sys.executable, [sys.executable, "-B"] + sys.argv, os.environ)
    # Guard for hooks in physt (none are needed; the name is recorded in MANIFEST.hooks)
    os.environ.setdefault("PHYST_VERIF", "1")
    # Never inherit a free-arithmetics default from the caller's environment
    os.environ.pop("PHYST_FREE_ARITHMETICS", None)
    if SRC in sys.path:
        sys.path.remove(SRC)
    sys.path.insert(0, SRC)
    if VERIF_ROOT not in sys.path:
        sys.path.insert(1, VERIF_ROOT)
    sys.dont_write_bytecode = True
    import warnings

    warnings.simplefilter("ignore")
    return changed


def assert_physt_source():
    """Hard error (exit 2) if physt was not imported from the tree under test."""
    import physt

    here = os.path.realpath(os.path.dirname(physt.__file__))
    want = os.path.realpath(os.path.join(SRC, "physt"))
    if here != want:
        sys.stderr.write(f"HARNESS ERROR: physt imported from {here}, expected {want}\n")
        sys.exit(2)
