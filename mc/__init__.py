"""Bounded exhaustive exploration machinery for physt (see /verif/DESIGN.md)."""
