"""Runner core: partial results, deterministic aggregation, known findings, evidence, replay files.

A check module (checks/cNN.py) provides

    ID, LEVEL ("exploration" | "model_checking"), RULE (str), ASSUMPTIONS (list[str])
    units(tier, seed)      -> list of JSON-able unit descriptors, simplest first
    run_unit(unit, ctx)    -> Partial            (executed in a forked worker)
    replay(case)           -> list of violation dicts for ONE case (no explorer involved)

The runner shards units over a process pool, merges the partials in unit order (so the result
does not depend on scheduling), matches violation signatures against known_findings.json, writes
/verif/evidence/<ID>.json and replay files, prints VIOLATION / KNOWN-FINDING lines and exits
0 / 1 (2 = harness error, never reported as a violation).
"""
from __future__ import annotations

import fnmatch
import hashlib
import importlib
import json
import math
import multiprocessing
import os
import sys
import time
import traceback
from collections import Counter

from . import env

VERIF = env.VERIF_ROOT
# mutation self-tests redirect evidence / replay files to a scratch directory
OUT = os.environ.get("VERIF_SCRATCH") or VERIF
MAX_SAMPLES = 6
MAX_REPLAYS = 20


class HarnessError(Exception):
    """A defect of the harness itself (never a property violation)."""


class Ctx:
    def __init__(self, tier, seed, deadline, unit_index=0, n_units=1):
        self.tier = tier
        self.seed = seed
        self.deadline = deadline
        self.unit_index = unit_index
        self.n_units = n_units

    def expired(self):
        return time.time() > self.deadline

    @property
    def thorough(self):
        return self.tier == "thorough"


class Partial:
    """Counters and findings of one unit of work."""

    def __init__(self):
        self.evaluations = 0
        self.nontrivial = 0
        self.states = 0
        self.transitions = 0
        self.traces = 0
        self.schedules = 0
        self.max_depth = 0
        self.extra = Counter()
        self.outcomes = set()
        self.viol = {}  # signature -> [count, first record]
        self.samples = []
        self.capped = False
        self.notes = []

    # -- counting -------------------------------------------------------------------
    def ev(self, nontrivial=False, n=1):
        self.evaluations += n
        if nontrivial:
            self.nontrivial += n

    def outcome(self, label):
        self.outcomes.add(str(label))

    def sample(self, case):
        if len(self.samples) < MAX_SAMPLES:
            self.samples.append(case)

    def count(self, name, n=1):
        self.extra[name] += n

    # -- violations -----------------------------------------------------------------
    def violation(self, oracle, signature, case, expected=None, observed=None, prop=None):
        rec = self.viol.get(signature)
        if rec is None:
            self.viol[signature] = [
                1,
                {
                    "oracle": oracle,
                    "signature": signature,
                    "case": case,
                    "expected": jsonable(expected),
                    "observed": jsonable(observed),
                },
            ]
        else:
            rec[0] += 1

    def extend(self, violations):
        """Add violation dicts produced by a replay()-style evaluator."""
        for v in violations:
            self.violation(v["oracle"], v["signature"], v["case"], v.get("expected"), v.get("observed"))

    def to_dict(self):
        return {
            "evaluations": self.evaluations,
            "nontrivial": self.nontrivial,
            "states": self.states,
            "transitions": self.transitions,
            "traces": self.traces,
            "schedules": self.schedules,
            "max_depth": self.max_depth,
            "extra": dict(self.extra),
            "outcomes": sorted(self.outcomes),
            "viol": self.viol,
            "samples": self.samples,
            "capped": self.capped,
            "notes": self.notes,
        }


def V(oracle, signature, case, expected=None, observed=None):
    """A violation record (what replay() returns a list of)."""
    return {
        "oracle": oracle,
        "signature": signature,
        "case": case,
        "expected": jsonable(expected),
        "observed": jsonable(observed),
    }


def jsonable(x, depth=0):
    """Best-effort conversion of observed / expected values to JSON (floats kept exact via repr)."""
    import numpy as np

    if depth > 8:
        return repr(x)
    if x is None or isinstance(x, (bool, str)):
        return x
    if isinstance(x, (int,)):
        return x
    if isinstance(x, float):
        if math.isnan(x) or math.isinf(x):
            return repr(x)
        return x
    if isinstance(x, (np.integer,)):
        return int(x)
    if isinstance(x, (np.floating,)):
        v = float(x)
        return repr(v) if (math.isnan(v) or math.isinf(v)) else v
    if isinstance(x, np.ndarray):
        return {"dtype": str(x.dtype), "shape": list(x.shape), "values": jsonable(x.tolist(), depth + 1)}
    if isinstance(x, dict):
        return {str(k): jsonable(v, depth + 1) for k, v in x.items()}
    if isinstance(x, (list, tuple, set, frozenset)):
        return [jsonable(v, depth + 1) for v in x]
    if isinstance(x, bytes):
        return x.hex()
    if isinstance(x, BaseException):
        return f"{type(x).__name__}: {x}"
    try:
        from fractions import Fraction

        if isinstance(x, Fraction):
            return float(x) if x.denominator != 1 else int(x)
    except Exception:
        pass
    return repr(x)


# ------------------------------------------------------------------------------------------
# worker side
# ------------------------------------------------------------------------------------------

_MOD = None


def _load(check_id):
    return importlib.import_module("checks." + check_id.lower())


def _worker(args):
    check_id, index, n_units, unit, tier, seed, deadline = args
    try:
        mod = _MOD or _load(check_id)
        ctx = Ctx(tier, seed, deadline, index, n_units)
        t0 = time.time()
        part = mod.run_unit(unit, ctx)
        d = part.to_dict()
        d["index"] = index
        d["wall"] = time.time() - t0
        return d
    except Exception as e:  # noqa: BLE001
        # An exception that escaped from physt's own code through a call the check did not wrap (set-up
        # constructions etc. that succeed on the unchanged tree) is a behavioural change of physt, not a
        # harness defect: report it as a violation so that such a tree is flagged instead of "exit 2".
        src = os.path.realpath(env.SRC)
        frames = [f for f in traceback.extract_tb(e.__traceback__) if os.path.realpath(f.filename).startswith(src)]
        if frames:
            last = frames[-1]
            part = Partial()
            part.ev(True)
            part.capped = False
            part.violation(
                "unexpected_exception",
                f"unexpected_exception|{type(e).__name__}|{os.path.basename(last.filename)}:{last.name}",
                {"unit": unit},
                "the call succeeds (it does on the unchanged tree)",
                traceback.format_exc()[-1800:],
            )
            d = part.to_dict()
            d["index"] = index
            d["wall"] = 0.0
            d["notes"] = [f"unit {index} aborted by an exception raised inside physt"]
            return d
        return {"index": index, "harness_error": traceback.format_exc(), "unit": unit}
    except BaseException:  # noqa: BLE001 - reported as harness error by the parent
        return {"index": index, "harness_error": traceback.format_exc(), "unit": unit}


# ------------------------------------------------------------------------------------------
# parent side
# ------------------------------------------------------------------------------------------


def load_known(prop):
    path = os.path.join(VERIF, "known_findings.json")
    if not os.path.exists(path):
        return []
    with open(path) as f:
        data = json.load(f)
    return [e for e in data.get("findings", []) if e.get("property") == prop]


def match_known(signature, known):
    for e in known:
        if e.get("status") != "known":
            continue
        pat = e["signature"]
        if signature == pat or fnmatch.fnmatchcase(signature, pat):
            return e
    return None


def write_replay(prop, rec):
    d = os.path.join(OUT, "replays", prop)
    os.makedirs(d, exist_ok=True)
    body = json.dumps({"property": prop, **rec}, sort_keys=True, indent=1, default=repr)
    name = hashlib.sha1(body.encode()).hexdigest()[:16]
    path = os.path.join(d, name + ".json")
    with open(path, "w") as f:
        f.write(body)
    test = os.path.join(d, "test_replay_" + name + ".py")
    with open(test, "w") as f:
        f.write(
            '"""Stand-alone replay of one violation (no explorer): run with /venv/bin/python -m pytest."""\n'
            "import subprocess, sys\n\n\n"
            "def test_replay():\n"
            f"    r = subprocess.run([sys.executable, '-B', {os.path.join(VERIF, 'run.py')!r}, {prop!r}, '--replay', {path!r}])\n"
            "    assert r.returncode == 0\n"
        )
    return path


def run_check(check_id, tier, seed, list_signatures=False, jobs=None, budget=None):
    global _MOD
    t0 = time.time()
    mod = _load(check_id)
    _MOD = mod
    env.assert_physt_source()
    if budget is None:
        budget = getattr(mod, "BUDGET", {}).get(tier, 300 if tier == "quick" else 3600)
    # the budget is a safety net against runaway exploration, not a verdict: on a machine that is busy with other work
    # (load above the core count) it is stretched, so that a slow machine does not silently explore less (a capped run
    # says capped=True, but says nothing about what it did not reach)
    try:
        load = os.getloadavg()[0] / (os.cpu_count() or 1)
    except OSError:
        load = 0.0
    if load > 1.0 and not os.environ.get("VERIF_STRICT_BUDGET"):
        budget *= min(4.0, load)
    deadline = t0 + budget
    units = mod.units(tier, seed)
    n = len(units)
    if n == 0:
        raise HarnessError("check produced no units")
    jobs = jobs or int(os.environ.get("VERIF_JOBS", "0")) or min(16, os.cpu_count() or 1)
    order = list(range(n))
    if seed:
        # rotate the visiting order; aggregation below is by unit index, so results do not change
        k = seed % n
        order = order[k:] + order[:k]
    tasks = [(check_id, i, n, units[i], tier, seed, deadline) for i in order]
    results = []
    if jobs <= 1 or n == 1:
        for t in tasks:
            results.append(_worker(t))
    else:
        ctx = multiprocessing.get_context("fork")
        with ctx.Pool(min(jobs, n)) as pool:
            for r in pool.imap_unordered(_worker, tasks, chunksize=1):
                results.append(r)
    results.sort(key=lambda r: r["index"])

    if os.environ.get("VERIF_TIMES"):
        for r in sorted(results, key=lambda r: -r.get("wall", 0))[:8]:
            print(f"  unit {r['index']:4d} {r.get('wall', 0):7.1f}s  {json.dumps(units[r['index']], default=repr)[:160]}")
    errors = [r for r in results if "harness_error" in r]
    if errors:
        for r in errors[:3]:
            sys.stderr.write(f"HARNESS ERROR in unit {r['index']} {json.dumps(r.get('unit'), default=repr)[:300]}:\n{r['harness_error']}\n")
        sys.stderr.write(f"{len(errors)} unit(s) failed inside the harness\n")
        sys.exit(2)

    tot = Counter()
    extra = Counter()
    outcomes = set()
    viol = {}
    samples = []
    capped = False
    notes = []
    max_depth = 0
    for r in results:
        for k in ("evaluations", "nontrivial", "states", "transitions", "traces", "schedules"):
            tot[k] += r[k]
        max_depth = max(max_depth, r["max_depth"])
        extra.update(r["extra"])
        outcomes.update(r["outcomes"])
        capped = capped or r["capped"]
        notes.extend(r["notes"])
        for sig, (cnt, rec) in r["viol"].items():
            if sig in viol:
                viol[sig][0] += cnt
            else:
                viol[sig] = [cnt, rec]
    # samples: spread over units, deterministic, rotated by seed
    pool_samples = [s for r in results for s in r["samples"][:2]]
    if pool_samples:
        k = seed % len(pool_samples)
        pool_samples = pool_samples[k:] + pool_samples[:k]
        step = max(1, len(pool_samples) // MAX_SAMPLES)
        samples = pool_samples[::step][:MAX_SAMPLES]

    known = load_known(check_id)
    unknown = []
    known_hit = {}
    for sig in sorted(viol):
        e = match_known(sig, known)
        if e is None:
            unknown.append(sig)
        else:
            known_hit.setdefault(e["signature"], (e, 0))
            known_hit[e["signature"]] = (e, known_hit[e["signature"]][1] + viol[sig][0])

    if list_signatures:
        for sig in sorted(viol):
            cnt, rec = viol[sig]
            tag = "known" if match_known(sig, known) else "NEW"
            print(f"[{tag}] {cnt:7d}  {sig}")
            print("      case     =", json.dumps(rec["case"], default=repr)[:600])
            print("      expected =", json.dumps(rec["expected"], default=repr)[:400])
            print("      observed =", json.dumps(rec["observed"], default=repr)[:400])

    for sig, (e, cnt) in sorted(known_hit.items()):
        print(f"KNOWN-FINDING: property={check_id} {e['what_fails']} [signature={sig} occurrences={cnt}]")
    replay_paths = []
    for sig in unknown[:MAX_REPLAYS]:
        path = write_replay(check_id, viol[sig][1])
        replay_paths.append(path)
        print(f"VIOLATION property={check_id} replay={path}")
        print(f"   signature={sig} occurrences={viol[sig][0]}")
    if len(unknown) > MAX_REPLAYS:
        print(f"   ... and {len(unknown) - MAX_REPLAYS} more violation signatures (see evidence file)")

    wall = time.time() - t0
    level = mod.LEVEL
    cov = {
        "evaluations": tot["evaluations"],
        "distinct_nontrivial": tot["nontrivial"],
        "rule": mod.RULE,
        "samples": samples or [{"note": "no sample recorded"}],
        "exhaustive": not capped,
        "units": n,
        "distinct_outcomes": len(outcomes),
        "outcome_labels": sorted(outcomes)[:40],
        "counters": dict(sorted(extra.items())),
        "bounds": getattr(mod, "BOUNDS", {}).get(tier, ""),
        "violation_signatures": len(viol),
        "unknown_violation_signatures": unknown[:50],
        "known_finding_signatures": sorted(known_hit),
    }
    if level == "model_checking":
        cov.update(
            {
                "states": tot["states"],
                "transitions": tot["transitions"],
                "traces_validated_against_impl": tot["traces"],
                "max_depth": max_depth,
            }
        )
        if tot["schedules"]:
            cov["schedules"] = tot["schedules"]
    if capped:
        cov["cap_note"] = "time budget hit in at least one unit: " + "; ".join(notes[:5])
    elif notes:
        cov["notes"] = notes[:10]
    evidence = {
        "property_id": check_id,
        "tier": tier,
        "seed": int(seed),
        "level": level,
        "coverage": cov,
        "assumptions": list(mod.ASSUMPTIONS),
        "wall_s": round(wall, 2),
        "violations": len(unknown),
    }
    os.makedirs(os.path.join(OUT, "evidence"), exist_ok=True)
    with open(os.path.join(OUT, "evidence", check_id + ".json"), "w") as f:
        json.dump(evidence, f, indent=1, default=repr)
        f.write("\n")
    summary = (
        f"{check_id} tier={tier} seed={seed} units={n} evaluations={tot['evaluations']} "
        f"nontrivial={tot['nontrivial']} states={tot['states']} transitions={tot['transitions']} "
        f"traces={tot['traces']} schedules={tot['schedules']} outcomes={len(outcomes)} "
        f"violations={len(unknown)} known={len(known_hit)} capped={capped} wall={wall:.1f}s"
    )
    print(summary)
    return 1 if unknown else 0


def run_replay(check_id, path):
    mod = _load(check_id)
    env.assert_physt_source()
    with open(path) as f:
        rec = json.load(f)
    case = rec["case"]
    if isinstance(case, dict) and set(case) == {"unit"}:
        # an exception escaped from physt while running a whole unit: re-run that unit
        try:
            part = mod.run_unit(case["unit"], Ctx("quick", 0, time.time() + 600))
            vs = [dict(rec, **{"oracle": r["oracle"], "signature": sig}) for sig, (n, r) in part.viol.items()]
        except Exception as e:  # noqa: BLE001
            vs = [V("unexpected_exception", f"unexpected_exception|{type(e).__name__}", case, "the call succeeds", traceback.format_exc()[-1500:])]
    else:
        vs = mod.replay(case)
    print("case:", json.dumps(case, default=repr))
    if not vs:
        print("replay: no violation on this tree")
        return 0
    for v in vs:
        print(f"replay: VIOLATED oracle={v['oracle']} signature={v['signature']}")
        print("   expected:", json.dumps(v.get("expected"), default=repr)[:1000])
        print("   observed:", json.dumps(v.get("observed"), default=repr)[:1000])
    return 1
