"""E3 (threads): exhaustive exploration of interleavings of real threads under a baton scheduler.

Exactly one thread holds the baton at any time.  Scheduling points:
  * op level   - between the operations of each thread's little program (explored without a bound);
  * line level - additionally at every `line` event of sys.settrace inside the traced source files
                 (explored with iterative context bounding: preemption bound 0, 1, 2 ...).

A *schedule* is the list of choices (thread ids) taken at the scheduling points.  `run(prefix)`
follows the prefix and then the default policy "keep running the current thread, else the lowest
enabled id".  A divergence while replaying a prefix (the chosen thread is not enabled) is a hard
harness error, never a violation.
"""
from __future__ import annotations

import sys
import threading
import time


class ReplayDivergence(Exception):
    pass


class Execution:
    def __init__(self):
        self.points = []  # list of dict(enabled=[ids], running=id or None, chosen=id)
        self.choices = []
        self.observations = {}  # tid -> list
        self.errors = {}  # tid -> exception repr

    def preemptions_before(self, i):
        n = 0
        for p in self.points[:i]:
            if p["running"] is not None and p["running"] in p["enabled"] and p["chosen"] != p["running"]:
                n += 1
        return n


class Baton:
    """Runs `programs` (tid -> callable(yield_fn, observe_fn)) in real threads, one at a time."""

    def __init__(self, programs, trace_files=None):
        self.programs = programs
        self.trace_files = tuple(trace_files or ())
        self.sems = {tid: threading.Semaphore(0) for tid in programs}
        self.ctrl = threading.Semaphore(0)
        self.done = set()
        self.started = set()
        self.lock_free = True

    def _thread_main(self, tid, ex):
        self.sems[tid].acquire()  # wait for the first baton
        try:
            if self.trace_files:
                sys.settrace(self._make_tracer(tid))
            self.programs[tid](lambda: self._yield(tid), lambda obs: ex.observations.setdefault(tid, []).append(obs))
        except BaseException as e:  # noqa: BLE001
            ex.errors[tid] = f"{type(e).__name__}: {e}"
        finally:
            sys.settrace(None)
            self.done.add(tid)
            self.ctrl.release()

    def _yield(self, tid):
        """A scheduling point inside thread `tid`: hand the baton to the controller, wait to get it back."""
        self.ctrl.release()
        self.sems[tid].acquire()

    def _make_tracer(self, tid):
        files = self.trace_files

        def local(frame, event, arg):
            if event == "line":
                self._yield(tid)
            return local

        def glob(frame, event, arg):
            if event == "call" and frame.f_code.co_filename.endswith(files):
                return local
            return None

        return glob

    def run(self, prefix):
        ex = Execution()
        threads = {tid: threading.Thread(target=self._thread_main, args=(tid, ex), daemon=True) for tid in self.programs}
        for t in threads.values():
            t.start()
        running = None
        i = 0
        order = sorted(self.programs)
        while True:
            enabled = [tid for tid in order if tid not in self.done]
            if not enabled:
                break
            if i < len(prefix):
                chosen = prefix[i]
                if chosen not in enabled:
                    raise ReplayDivergence(f"step {i}: thread {chosen} not enabled (enabled: {enabled})")
            elif running in enabled:
                chosen = running
            else:
                chosen = enabled[0]
            ex.points.append({"enabled": enabled, "running": running if running in enabled else None, "chosen": chosen})
            ex.choices.append(chosen)
            running = chosen
            i += 1
            self.sems[chosen].release()
            self.ctrl.acquire()  # until the thread reaches its next scheduling point or finishes
        for t in threads.values():
            t.join(timeout=5)
        return ex


def explore(make_baton, check, bound=None, max_runs=None, on_run=None, deadline=None):
    """Iterative context bounding over schedules.

    make_baton() -> fresh Baton (fresh threads, fresh state) for every execution
    check(execution) -> list of violations
    bound: max number of preemptions (None = unbounded = all interleavings)
    Returns (runs, violations, capped)
    """
    runs = 0
    violations = []
    capped = False
    stack = [[]]
    while stack:
        prefix = stack.pop()
        if max_runs is not None and runs >= max_runs:
            capped = True
            break
        if deadline is not None and (runs & 63) == 0 and time.time() > deadline:
            capped = True  # time budget of the check: the schedules explored so far are reported, the rest is not claimed
            break
        ex = make_baton().run(prefix)
        runs += 1
        vs = check(ex)
        if on_run is not None:
            on_run(ex)
        if vs:
            violations.extend(vs)
        for i in range(len(prefix), len(ex.points)):
            p = ex.points[i]
            base_cost = ex.preemptions_before(i)
            for alt in p["enabled"]:
                if alt == p["chosen"]:
                    continue
                cost = base_cost + (1 if (p["running"] is not None and alt != p["running"]) else 0)
                if bound is not None and cost > bound:
                    continue
                stack.append(ex.choices[:i] + [alt])
    return runs, violations, capped
