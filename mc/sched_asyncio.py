"""E3 (asyncio): all ready-queue orders of real asyncio Tasks on a virtual event loop.

The loop has a virtual clock and no selector; the explorer pops `loop._ready` by hand and chooses
WHICH ready task step runs next at every point.  Tasks are stock asyncio.Task objects, so each runs
in its own copy of the creating context exactly as under a real loop.
"""
from __future__ import annotations

import asyncio
from asyncio import events


class VirtualLoop(asyncio.BaseEventLoop):
    def __init__(self):
        super().__init__()
        self._vtime = 0.0

    def time(self):
        return self._vtime

    def _process_events(self, event_list):
        pass

    def _write_to_self(self):
        pass


def _is_task_step(handle):
    cb = getattr(handle, "_callback", None)
    owner = getattr(cb, "__self__", None)
    if isinstance(owner, asyncio.Task):
        return True
    return type(cb).__name__ in ("TaskStepMethWrapper", "TaskWakeupMethWrapper")


class AsyncExecution:
    def __init__(self):
        self.points = []  # (n_ready_task_steps, chosen index)
        self.choices = []


def run_schedule(setup, prefix):
    """setup(loop) -> creates the tasks (inside whatever context it wants).  Returns AsyncExecution."""
    loop = VirtualLoop()
    ex = AsyncExecution()
    events._set_running_loop(loop)
    try:
        setup(loop)
        i = 0
        guard = 0
        while loop._ready:
            guard += 1
            if guard > 100000:
                raise RuntimeError("virtual loop does not become quiescent")
            ready = list(loop._ready)
            steps = [k for k, h in enumerate(ready) if _is_task_step(h) and not h._cancelled]
            if not steps:
                h = loop._ready.popleft()
                if not h._cancelled:
                    h._run()
                continue
            if len(steps) == 1:
                pick = 0
            else:
                if i < len(prefix):
                    pick = prefix[i]
                    if pick >= len(steps):
                        raise RuntimeError(f"replay divergence at point {i}: {pick} >= {len(steps)}")
                else:
                    pick = 0
                ex.points.append((len(steps), pick))
                ex.choices.append(pick)
                i += 1
            k = steps[pick]
            h = ready[k]
            del loop._ready[k]
            h._run()
    finally:
        events._set_running_loop(None)
        loop.close()
    return ex


def explore(setup_factory, check, max_runs=None):
    """All ready-queue orders.  setup_factory() -> (setup, state) fresh for each execution;
    check(state, execution) -> violations."""
    runs = 0
    violations = []
    capped = False
    stack = [[]]
    while stack:
        prefix = stack.pop()
        if max_runs is not None and runs >= max_runs:
            capped = True
            break
        setup, state = setup_factory()
        ex = run_schedule(setup, prefix)
        runs += 1
        violations.extend(check(state, ex))
        for i in range(len(prefix), len(ex.points)):
            n, chosen = ex.points[i]
            for alt in range(n):
                if alt != chosen:
                    stack.append(ex.choices[:i] + [alt])
    return runs, violations, capped
