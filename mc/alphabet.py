"""Alphabets: bin-set family, edge alphabet V(B), fingerprint weights (DESIGN 3.2)."""
from __future__ import annotations

import itertools
import math
import random

NAN = float("nan")


def nxt(x, up=True):
    return math.nextafter(x, math.inf if up else -math.inf)


# --- bin sets: lists of (left, right) pairs ---------------------------------------------------


def pairs_from_edges(edges):
    return [(float(edges[i]), float(edges[i + 1])) for i in range(len(edges) - 1)]


BINSETS = {
    "regular": pairs_from_edges([0, 1, 2, 3]),
    "irregular": pairs_from_edges([0, 1, 2.5, 4]),
    "negative": pairs_from_edges([-2, -1, 0.5]),
    "single": pairs_from_edges([0, 2]),
    "gapped": [(0.0, 1.0), (2.0, 3.0)],
    "gapped_irregular": [(0.0, 1.0), (1.0, 2.0), (3.0, 4.0), (4.0, 6.0)],
    "tiny": pairs_from_edges([1e-7, 2e-7, 4e-7]),
    "offset": pairs_from_edges([1e9, 1e9 + 1, 1e9 + 2]),
    # a real gap that is far below the allclose tolerance physt uses to call bins "consecutive"
    "tinygap": [(0.0, 1.0), (1.0 + 2.0 ** -20, 2.0)],
}


def seeded_binsets(seed, n=3):
    """Extra bin sets with random sorted distinct double edges (only used when seed != 0)."""
    if not seed:
        return {}
    rnd = random.Random(seed)
    out = {}
    for k in range(n):
        m = rnd.randint(2, 4)
        edges = sorted({rnd.uniform(-10, 10) for _ in range(m + 1)})
        if len(edges) < 2:
            continue
        pairs = pairs_from_edges(edges)
        if k == 1 and len(pairs) >= 3:
            # make it gapped: drop a middle bin
            del pairs[1]
        out[f"seeded{k}"] = pairs
    return out


def is_consecutive(pairs):
    return all(pairs[i][1] == pairs[i + 1][0] for i in range(len(pairs) - 1))


def near_consecutive(pairs, rtol=1e-5, atol=1e-8):
    """Not consecutive, but every gap is within the tolerance of physt's is_consecutive()."""
    if is_consecutive(pairs):
        return False
    return all(abs(pairs[i + 1][0] - pairs[i][1]) <= atol + rtol * abs(pairs[i][1]) for i in range(len(pairs) - 1))


def distinct_edges(pairs):
    return sorted({e for p in pairs for e in p})


def edge_alphabet(pairs, nan=False, ulp=True, far=True, mid=True):
    """Representatives of every order-equivalence class of the real line w.r.t. the edges."""
    edges = distinct_edges(pairs)
    vals = []
    span = (edges[-1] - edges[0]) or 1.0
    if far:
        vals.append(edges[0] - 10 * span)
    for i, e in enumerate(edges):
        if ulp:
            vals.append(nxt(e, False))
        vals.append(e)
        if ulp:
            vals.append(nxt(e, True))
        if mid and i + 1 < len(edges):
            vals.append((e + edges[i + 1]) / 2)
    if far:
        vals.append(edges[-1] + 10 * span)
    seen = set()
    out = []
    for v in vals:
        if v not in seen:
            seen.add(v)
            out.append(v)
    if nan:
        out.append(NAN)
    return out


def small_alphabet(pairs, nan=False):
    """A thinner alphabet for history exploration: edges, one-ulp-below edges, midpoints, far."""
    edges = distinct_edges(pairs)
    span = (edges[-1] - edges[0]) or 1.0
    vals = [edges[0] - span]
    for i, e in enumerate(edges):
        vals.append(e)
        if i + 1 < len(edges):
            vals.append((e + edges[i + 1]) / 2)
    vals.append(nxt(edges[-1], True))
    vals.append(nxt(edges[-1], False))
    vals.append(edges[-1] + span)
    out = []
    for v in vals:
        if v not in out:
            out.append(v)
    if nan:
        out.append(NAN)
    return out


def classify(v, pairs):
    """Abstract class of a value w.r.t. a bin set (used in violation signatures / non-triviality)."""
    if isinstance(v, float) and math.isnan(v):
        return "nan"
    edges = distinct_edges(pairs)
    first, last = pairs[0][0], pairs[-1][1]
    if v < first:
        return "under-ulp" if v == nxt(first, False) else "under"
    if v > last:
        return "over-ulp" if v == nxt(last, True) else "over"
    if v == last:
        return "last-edge"
    if v == first:
        return "first-edge"
    for e in edges:
        if v == e:
            # an interior edge: either shared edge, a gap's left or a gap's right border
            lefts = {p[0] for p in pairs}
            rights = {p[1] for p in pairs}
            if e in lefts and e in rights:
                return "inner-edge"
            return "gap-left-edge" if e in rights else "gap-right-edge"
        if v == nxt(e, False) or v == nxt(e, True):
            for (l, r) in pairs:
                if l <= v < r:
                    return "ulp-inside"
            return "ulp-gap"
    for (l, r) in pairs:
        if l <= v < r:
            return "inside"
    return "gap"


def nontrivial_class(c):
    return c not in ("inside",)


# --- fingerprint weights ----------------------------------------------------------------------


def weights_for(mode, n, offset=0):
    """mode: None | 'int' (2^i) | 'float' (2^-(i+1))."""
    if mode is None or mode == "none":
        return None
    if mode == "int":
        return [2 ** (i + offset) for i in range(n)]
    if mode == "float":
        return [2.0 ** -(i + 1 + offset) for i in range(n)]
    raise ValueError(mode)


def tuples_upto(alphabet, length):
    for n in range(length + 1):
        yield from itertools.product(alphabet, repeat=n)


def multisets_upto(alphabet, length):
    for n in range(length + 1):
        yield from itertools.combinations_with_replacement(alphabet, n)


def jf(v):
    """JSON form of a float (NaN -> 'nan')."""
    if isinstance(v, float) and math.isnan(v):
        return "nan"
    return v


def unjf(v):
    return NAN if v == "nan" else v
