"""E3 (dask part): enumerate chunkings and chunk-task execution orders through physt's own
`dask_method=` seam, replacing dask's nondeterministic threaded scheduler by an enumerated one."""
from __future__ import annotations

import itertools


def compositions(n):
    """All ordered ways to write n as a sum of positive integers (= all chunkings of an n-array)."""
    if n == 0:
        yield ()
        return
    for first in range(1, n + 1):
        for rest in compositions(n - first):
            yield (first,) + rest


def enumerating_method(order, log=None):
    """A dask_method(graph, key) that evaluates the per-chunk tasks in the given order, then the sum."""
    import dask

    def method(graph, result_key):
        task = graph[result_key]
        items = list(task[1])
        results = {}
        for idx in order:
            key = items[idx]
            results[key] = dask.get(graph, key)
            if log is not None:
                log.append(key)
        total = results[items[0]]
        acc = 0
        for k in items:
            acc = acc + results[k]  # same left fold as the builtin sum the graph names
        return acc

    return method


def all_orders(k, cap=None):
    perms = itertools.permutations(range(k))
    if cap is None:
        return perms
    return itertools.islice(perms, cap)
