#!/bin/bash
# validate MANIFEST.json and every evidence file against the harness schemas
python3-vt - <<'PY'
import json, jsonschema, glob, sys
m=json.load(open('/verif/MANIFEST.json'))
jsonschema.validate(m, json.load(open('/root/.vp/MANIFEST.schema.json')))
es=json.load(open('/root/.vp/EVIDENCE.schema.json'))
bad=0
for c in m['checks']:
    f=c['evidence_file']
    try:
        e=json.load(open(f)); jsonschema.validate(e, es)
        assert e['property_id']==c['property_id'] and e['level']==c['level_claimed']['category'], "id/level mismatch"
        cov=e['coverage']
        if e['level']=='model_checking':
            assert cov['states']>=1 and cov['transitions']>=1 and len(cov['samples'])>=1
        else:
            assert cov['evaluations']>=1 and cov['distinct_nontrivial']>=2 and len(cov['samples'])>=1
    except Exception as ex:
        bad+=1; print("INVALID", f, ex)
props=[json.loads(l)['id'] for l in open('/verif/properties.jsonl')]
claimed={c['property_id'] for c in m['checks']}|{n['property_id'] for n in m.get('not_applicable',[])}
print("manifest ok; checks:",len(m['checks']),"not_applicable:",len(m.get('not_applicable',[])),"unaccounted:",sorted(set(props)-claimed),"invalid evidence:",bad)
sys.exit(1 if bad else 0)
PY
