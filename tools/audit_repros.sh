#!/bin/bash
# tools/audit_repros.sh: run every reproduction script written by the audit sub-agents (audit/<ID>/repro*.py, public API only)
# against /repo's working tree. Exit status 0 of a script = the library behaves as the property says. audit/STATUS.tsv lists
# what is expected: "fixed" scripts must pass, "observed" ones (recorded in DESIGN.md section 13, not repaired) may fail.
cd /verif/audit
bad=0
for f in C*/repro*.py; do
  PYTHONPATH=${PHYST_VERIF_SRC:-/repo/src} timeout 300 /venv/bin/python -B -W ignore "$f" >/dev/null 2>/tmp/audit_err.$$; rc=$?
  want=$(awk -v f="$f" '$1==f{print $2}' STATUS.tsv)
  if [ "$rc" = 0 ]; then got=pass; else got=fail; fi
  if [ "$want" = fixed ] && [ "$got" = fail ]; then echo "REGRESSION $f: $(tail -1 /tmp/audit_err.$$ | cut -c1-160)"; bad=1; fi
  if [ "$want" = observed ] && [ "$got" = pass ]; then echo "note: $f (listed as observed) passes now"; fi
  [ -z "$want" ] && echo "unlisted $f: $got"
done
rm -f /tmp/audit_err.$$
exit $bad
