#!/bin/bash
# tools/intake.sh <agent out dir> <i> <seeded id> <property> "<needs>" [checks]
# copy one agent-produced mutation into /verif/seeded/<id>/ and run the full confirmation on it
set -e
src=$1; i=$2; id=$3; prop=$4; needs=$5; checks=${6:-$prop}
d=/verif/seeded/$id
mkdir -p $d
cp $src/m$i.diff $d/patch.diff
cp $src/demo$i.py $d/demo.py
cp $src/notes$i.md $d/notes.md
/venv/bin/python - "$d" "$prop" "$needs" "$checks" <<'PY'
import json,sys
d,prop,needs,checks=sys.argv[1:5]
json.dump({"property":prop,"breaks":prop,"needs_to_manifest":needs,"checks":checks.split(","),"source":"independent sub-agent (given only the property text and a scratch worktree)"},open(d+"/meta.json","w"),indent=1)
PY
/venv/bin/python -B /verif/tools/selftest.py $d/patch.diff --tests --seeds 0,1
