#!/bin/bash
# run the pinned test-suite in /repo and remove the hypothesis example database afterwards
# (a stored 1-ulp counterexample of TestFillN::test_increases_total_by_zero_or_weight would otherwise be replayed forever)
cd /repo && /venv/bin/python -m pytest -p no:cacheprovider --timeout=900 -q "$@" 2>&1 | tail -3; rm -rf /repo/.hypothesis
