#!/venv/bin/python
"""Mutation self-test: apply a patch to a scratch copy of /repo, (optionally) run the pinned test
suite there, run checks against the copy (PHYST_VERIF_SRC), remove the copy.

    tools/selftest.py PATCH [--checks C01,C03] [--tests] [--tier quick] [--seeds 0,1]

Exit 0 if every listed check reported a VIOLATION (exit 1) on the mutant for every seed.
Nothing is written under /repo or /verif (replay files of the mutant run go to a scratch dir).
"""
import argparse
import json
import os
import shutil
import subprocess
import sys
import tempfile
import time

VERIF = os.path.dirname(os.path.dirname(os.path.abspath(__file__)))


def main():
    ap = argparse.ArgumentParser()
    ap.add_argument("patch")
    ap.add_argument("--checks", default="")
    ap.add_argument("--tests", action="store_true")
    ap.add_argument("--tier", default="quick")
    ap.add_argument("--seeds", default="0")
    ap.add_argument("--keep", action="store_true")
    a = ap.parse_args()
    patch = os.path.abspath(a.patch)
    meta = {}
    mp = os.path.join(os.path.dirname(patch), "meta.json")
    if os.path.exists(mp):
        meta = json.load(open(mp))
    checks = [c for c in a.checks.split(",") if c] or meta.get("checks") or ([meta["property"]] if "property" in meta else [])
    tmp = tempfile.mkdtemp(prefix="physt-mut-", dir="/var/tmp")
    rc_all = 0
    try:
        copy = os.path.join(tmp, "repo")
        subprocess.run(["git", "-C", "/repo", "worktree", "prune"], check=False)
        # plain copy of the working tree (tracked files only)
        os.makedirs(copy)
        files = subprocess.run(["git", "-C", "/repo", "ls-files"], capture_output=True, text=True, check=True).stdout.split("\n")
        for f in files:
            if not f or f.startswith("doc/"):
                continue
            src = os.path.join("/repo", f)
            if not os.path.exists(src):
                continue
            dst = os.path.join(copy, f)
            os.makedirs(os.path.dirname(dst), exist_ok=True)
            shutil.copy2(src, dst)
        r = subprocess.run(["patch", "-p1", "-d", copy, "-i", patch, "--no-backup-if-mismatch", "-s"], capture_output=True, text=True)
        if r.returncode != 0:
            print("PATCH FAILED:", r.stdout, r.stderr)
            return 3
        env = dict(os.environ)
        env["PHYST_VERIF_SRC"] = os.path.join(copy, "src")
        env["PYTHONPATH"] = os.path.join(copy, "src")
        demo = os.path.join(os.path.dirname(patch), "demo.py")
        results = {"demo_on_original": None, "demo_on_mutant": None, "tests_on_mutant": None, "checks": {}}
        if os.path.exists(demo):
            env0 = dict(os.environ)
            env0["PYTHONPATH"] = "/repo/src"
            r0 = subprocess.run(["/venv/bin/python", "-B", demo], env=env0, capture_output=True, text=True, cwd=tmp)
            r1 = subprocess.run(["/venv/bin/python", "-B", demo], env=env, capture_output=True, text=True, cwd=tmp)
            results["demo_on_original"] = r0.returncode
            results["demo_on_mutant"] = r1.returncode
            print(f"demo: original rc={r0.returncode} mutant rc={r1.returncode}  {(r1.stderr.strip().splitlines() or [''])[-1][:160]}")
            if r0.returncode != 0 or r1.returncode == 0:
                print("  DEMO DOES NOT DISCRIMINATE", r0.stderr[-300:])
                rc_all = 5
        if a.tests:
            t0 = time.time()
            r = subprocess.run(
                ["/venv/bin/python", "-B", "-m", "pytest", "-q", "-p", "no:cacheprovider", "--timeout=900"],
                cwd=copy, env=env, capture_output=True, text=True)
            if r.returncode != 0 and "unrecognized arguments: -n" in (r.stderr + r.stdout):
                r = subprocess.run(
                    ["/venv/bin/python", "-B", "-m", "pytest", "-q", "-p", "no:cacheprovider", "--timeout=900"],
                    cwd=copy, env=env, capture_output=True, text=True)
            tail = (r.stdout.strip().split("\n") or [""])[-1]
            print(f"tests on mutant: rc={r.returncode} {tail} ({time.time() - t0:.0f}s)")
            results["tests_on_mutant"] = tail
            if r.returncode != 0:
                fails = [l for l in r.stdout.split("\n") if l.startswith("FAILED")]
                # the two known flaky polars tests are tolerated
                # known flaky: two polars tests and one hypothesis test (1-ulp float summation; also fails on the unmodified tree under load)
                real = [l for l in fails if "test_fails_with_wrong_types" not in l and "TestH1::test_with_series" not in l
                        and "test_increases_total_by_zero_or_weight" not in l and "DeadlineExce" not in l]
                if not real:
                    results["tests_on_mutant"] = tail + " (only known-flaky tests failed)"
                if real:
                    print("  mutant is caught by the test-suite:", real[:5])
                    rc_all = 4
        for c in checks:
            for seed in a.seeds.split(","):
                env2 = dict(env)
                env2["VERIF_SEED"] = seed
                env2["VERIF_SCRATCH"] = tmp
                t0 = time.time()
                r = subprocess.run(["/venv/bin/python", "-B", os.path.join(VERIF, "run.py"), c, "--tier", a.tier],
                                   env=env2, capture_output=True, text=True)
                lines = [l for l in r.stdout.split("\n") if l.startswith("VIOLATION") or l.startswith("   signature")]
                verdict = "DETECTED" if r.returncode == 1 else ("MISSED" if r.returncode == 0 else f"HARNESS-ERROR rc={r.returncode}")
                if r.returncode == 0 and "capped=True" in r.stdout:
                    verdict = "MISSED-BUT-CAPPED (time budget hit: not a verdict, re-run on a quieter machine)"
                print(f"{os.path.basename(os.path.dirname(patch)) or patch}: check {c} seed {seed}: {verdict} ({len(lines)//2} signatures, {time.time() - t0:.0f}s)")
                for l in lines[:6]:
                    print("    " + l[:220])
                if r.returncode == 2:
                    print(r.stderr[-1500:])
                results["checks"][f"{c}@seed{seed}"] = verdict
                if r.returncode != 1:
                    rc_all = rc_all or 1
        if os.path.exists(mp) and (a.tests or results["checks"]):
            ran = meta.setdefault("ran", {})
            prev = dict(ran.get("checks", {}))
            ran.update({k: v for k, v in results.items() if v not in (None, {})})
            prev.update(results["checks"])
            ran["checks"] = {k: v for k, v in prev.items() if k.split("@")[0] in meta.get("checks", [])} or prev
            json.dump(meta, open(mp, "w"), indent=1)
    finally:
        if not a.keep:
            shutil.rmtree(tmp, ignore_errors=True)
        # evidence files were rewritten by the mutant runs: the caller re-runs the checks on /repo afterwards
    return rc_all


if __name__ == "__main__":
    sys.exit(main())
